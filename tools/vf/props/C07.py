"""C07 read/write lock: Coq theorems (Properties_C07.v) + lock-step correspondence of the
real src/fiber_rwlock.c + src/fiber_manager.c (wait/wake/maintenance) on the T1 machine
with coq/Rwlock.v (client of coq/T1K.v) + implementation-side monitor.

The monitor keeps an abstract reader/writer lock (sets of holders / admitted / announced
waiters) that is driven ONLY by the implementation trace: successful CASes on the state
word (classified by what the same fiber does next: a fiber that writes its own state
SAVING right after its CAS announced itself as a waiter), schedule events (901) and the
harness' ret events.  It checks the property itself: exclusion (cell discipline + occupancy),
every value ever observed in the state word decodes to the abstract counts, an admitting
release hands the lock to exactly one announced writer or to all announced readers and wakes
exactly those, try variants never wait and succeed only when legal, nobody is stranded."""
import os
import random

from vf import core

THEOREMS = ["rw_pack_layout", "rw_overflow_refuted", "rw_exclusion", "rw_word_inv", "rw_try_nonblocking_legal",
            "rw_single_consumer", "rw_release_admits", "rw_no_stranded"]
RD, WR, TRYRD, TRYWR, UNLOCK = 1, 2, 3, 4, 5
T1_SOURCES = ["src/fiber_manager.c", "src/fiber.c", "src/fiber_rwlock.c", "src/fiber_mutex.c",
              "src/fiber_spinlock.c", "src/hazard_pointer.c"]
T1_FLAGS = ["-Dpthread_create=t1_pthread_create"]
OPAQUE = -777777          # rt_canon of a 64-bit value >= 2^40 (waiting_writers lives in bits 43..63)


L_REST = 3900     # search mode: byte b of the fiber_rwlock_t = 3900 + b (bytes registered otherwise keep their locs)


def parse_case(case):
    v = [int(x) for x in case.split()]
    i = 1 + v[0]
    n = v[i]; i += 1
    progs = []
    for _ in range(n):
        k = v[i]; i += 1
        progs.append([(v[i + 2 * j], v[i + 2 * j + 1]) for j in range(k)])
        i += 2 * k
    return v[1:1 + v[0]], progs


def pack(wl, rc, wr, ww):
    return wl | (rc << 1) | (wr << 22) | (ww << 43)


def canon(v):
    return v if v < (1 << 40) else OPAQUE


def monitor(case, tr, raw):
    if tr is None:
        return "implementation produced no trace: %s" % (raw or "")[:80]
    # search mode (RT_CATCHALL=1): accesses to bytes of the object(s) that have no location of their own are
    # scheduling points, not events of the protocol judged here
    tr = [e for e in tr if e[1] < L_REST or e[2] in (909, 919)]
    try:
        return _monitor(case, tr)
    except (IndexError, KeyError, ValueError) as e:      # a trace no correct run can produce
        return "malformed trace (%r)" % (e,)


def _monitor(case, tr):
    _, progs = parse_case(case)
    n = len(progs)
    N = len(tr)
    # ---- pass 1: which call does each event belong to; next event of the same fiber ----
    opk = [None] * N
    cnt = [0] * n
    for i, (t, loc, kind, val) in enumerate(tr):
        if kind == 919 and loc == 0 and val in (7, 8):
            continue
        opk[i] = cnt[t]
        if kind == 909:
            cnt[t] += 1
    nxt = [None] * N
    last = {}
    for i in range(N - 1, -1, -1):
        t = tr[i][0]
        nxt[i] = last.get(t)
        last[t] = i
    # ---- pass 2: the abstract lock ----
    wholder = None          # writer that holds the lock or has been handed it
    wpending = 0            # a release CAS handed the lock to "one waiting writer" not yet identified
    rholders = set()        # readers that hold or have been handed the lock
    wait_w, wait_r = set(), set()   # announced, not yet handed ownership
    rpending = 0            # readers handed the lock by a release CAS (by count), not yet identified by 901
    in_cs_w, in_cs_r = set(), set()  # fibers between their first cell access and their releasing CAS
    holds = [None] * n      # what the harness believes the fiber holds
    unl = {}                # unlocking fiber -> [expected wake-ups, done]
    waited = [False] * n    # the current call went through the wait path
    stuck = []

    def word():
        return canon(pack(1 if (wholder is not None or wpending) else 0, len(rholders) + rpending,
                          len(wait_r) - rpending, len(wait_w) - wpending))

    for i, (t, loc, kind, val) in enumerate(tr):
        if kind == 919 and loc == 0 and val in (7, 8):
            stuck.append((t, val))
            continue
        k = opk[i]
        op = progs[t][k][0] if k < len(progs[t]) else None
        if op is not None and not 1 <= op <= 4:
            op = UNLOCK
        if loc == 300:
            if kind in (9, 85):
                if val != word():
                    return "fiber %d observed state word %d, the holders/waiters at that instant give %d" % (t, val, word())
            elif kind == 75:
                if op in (RD, WR):
                    j = nxt[i]
                    announces = j is not None and tr[j][1] == 200 + t and tr[j][2] == 19 and tr[j][3] == 5
                else:
                    announces = False
                if op == UNLOCK:
                    if holds[t] == 'r':
                        if t not in rholders:
                            return "rdunlock by %d which is not a reader of the lock" % t
                        rholders.discard(t); in_cs_r.discard(t)
                    elif holds[t] == 'w':
                        if wholder != t:
                            return "wrunlock by %d but the writer is %s" % (t, wholder)
                        wholder = None; in_cs_w.discard(t)
                    else:
                        return "release CAS by %d which holds nothing" % t
                    lastout = (not rholders) and wholder is None and not wpending and not rpending
                    exp = 0
                    if lastout and (wait_w or wait_r):   # lastout => nothing pending, so these are all unadmitted
                        for u, (e, d) in unl.items():
                            if d < e:
                                return "release by %d admits waiters while %d is still popping the waiter list" % (t, u)
                        # both kinds waiting: the property allows either hand-off; which one this
                        # release chose is read off the waiter list it goes on to pop (301 / 311 = head
                        # of write_waiters / read_waiters).  The writer that ends up with the lock may
                        # even be one that announces itself after this CAS and enqueues first.
                        to_writer = bool(wait_w)
                        if wait_w and wait_r:
                            j = nxt[i]
                            if j is not None and tr[j][1] in (301, 311) and tr[j][2] == 9:
                                to_writer = tr[j][1] == 301
                        if to_writer:
                            wpending = 1; exp = 1
                        else:
                            exp = len(wait_r)
                            rpending = exp
                    unl[t] = [exp, 0]
                elif announces:
                    (wait_r if op == RD else wait_w).add(t)
                else:
                    if op in (RD, TRYRD):
                        if wholder is not None or wpending or len(wait_w) > wpending or len(wait_r) > rpending:
                            return ("reader %d acquired the lock while writer=%s waiting_writers=%s waiting_readers=%s"
                                    % (t, wholder if wholder is not None else ("pending" if wpending else None),
                                       sorted(wait_w), sorted(wait_r)))
                        rholders.add(t)
                    elif op in (WR, TRYWR):
                        if wholder is not None or wpending or rholders or rpending or wait_w or wait_r:
                            return ("writer %d acquired the lock while writer=%s readers=%s waiting_writers=%s waiting_readers=%s"
                                    % (t, wholder, sorted(rholders), sorted(wait_w), sorted(wait_r)))
                        wholder = t
                    else:
                        return "CAS on the state word outside any call (fiber %d)" % t
                if val != word():
                    return "CAS by %d installed state word %d, the holders/waiters after it give %d" % (t, val, word())
            else:
                return "unexpected access kind %d on the state word" % kind
        elif loc == 901 and kind == 919:
            f = val
            if t not in unl:
                return "fiber %d scheduled %d outside an unlock" % (t, f)
            if wpending and f in wait_w:
                wait_w.discard(f); wholder = f; wpending = 0
            elif rpending and f in wait_r:
                wait_r.discard(f); rholders.add(f); rpending -= 1
            else:
                return "unlock by %d woke fiber %d which had not been handed the lock" % (t, f)
            unl[t][1] += 1
            if unl[t][1] > unl[t][0]:
                return "unlock by %d woke more waiters (%d) than its CAS admitted (%d)" % (t, unl[t][1], unl[t][0])
        elif loc == 200 + t and kind == 19 and val in (5, 3):
            waited[t] = True
        elif loc == 0 and kind == 919 and val == 1:
            if t in wait_w or t in wait_r:
                return "fiber %d resumed from the waiter list without having been handed the lock and woken" % t
        elif loc == 500:
            if op in (WR, TRYWR) and kind == 19:
                if in_cs_w or in_cs_r:
                    return "writer %d entered its critical section while %s are inside" % (t, sorted(in_cs_w | in_cs_r))
                in_cs_w.add(t)
            elif op in (RD, TRYRD) and kind == 9:
                if in_cs_w:
                    return "reader %d entered its critical section while writer %s is inside" % (t, sorted(in_cs_w))
                in_cs_r.add(t)
            elif kind == 19:
                return "fiber %d wrote the cell outside a write acquisition" % t
        elif kind == 909:
            if val == 7:
                return "the data cell changed while fiber %d held the lock (%s)" % (t, holds[t])
            if op in (TRYRD, TRYWR) and waited[t]:
                return "try variant of fiber %d went through the wait path" % t
            waited[t] = False
            if op == UNLOCK:
                if t in unl:
                    e, d = unl.pop(t)
                    if d != e:
                        return "unlock by %d admitted %d waiter(s) in its CAS but woke %d" % (t, e, d)
                    holds[t] = None
            elif val == 1:
                holds[t] = 'r' if op in (RD, TRYRD) else 'w'
                if (holds[t] == 'r' and t not in rholders) or (holds[t] == 'w' and wholder != t):
                    return "lock call of fiber %d returned success without ownership" % t
    if stuck:
        st = set(t for (t, _) in stuck)
        if not any(holds[t] is not None and t not in st for t in range(n)):
            t, v = stuck[0]
            return ("fiber %d never finished (%s) although every fiber that holds the lock is still running: "
                    "a waiter is stranded" % (t, "blocked" if v == 7 else "spinning"))
    return None


def pairs_prog(rng, pairs, kinds):
    p = []
    for _ in range(pairs):
        p.append((rng.choice(kinds), 0))
        p.append((UNLOCK, 0))
    return p


def gen_cases(ctx, tier):
    rng = random.Random(ctx.seed * 7919 + 7)
    cases = []
    LU = lambda o: [(o, 0), (UNLOCK, 0)]
    # (1) covering families: holder H releases after the contender ran k steps of its call,
    #     for every (holder kind, contender kind); j varies where the holder is when overtaken
    for ho in (RD, WR):
        for co in (RD, WR, TRYRD, TRYWR):
            for k in range(0, 26):
                for j in (0, 2, 3, 5, 9):
                    sched = [0] * 4 + [1] * (1 + k) + [0] * (3 + j) + [1] * 12 + [0] * 40 + [1] * 40
                    cases.append(core.fmt_case([600], [LU(ho), LU(co)], sched))
    # three fibers: holder, two contenders of every kind; "counted but not yet enqueued at hand-off"
    for ho in (RD, WR):
        for c1 in (RD, WR):
            for c2 in (RD, WR):
                for k in range(0, 24, 1):
                    for j in range(0, 3):
                        sched = ([0] * 4 + [1] * (1 + k) + [2] * (1 + (k * 5 + j * 7) % 23) + [0] * (6 + 7 * j)
                                 + [2, 1] * 10 + [0] * 40 + [1, 2] * 60)
                        cases.append(core.fmt_case([900], [LU(ho), LU(c1), LU(c2)], sched))
    # short exhaustive interleavings of two uncontended calls (pure CAS races on the word)
    for a in (RD, WR, TRYRD, TRYWR):
        for b in (RD, WR, TRYRD, TRYWR):
            for il in core.interleavings([5, 5], limit=260):
                cases.append(core.fmt_case([600], [LU(a), LU(b)], [0, 1] + il))
    ncov = len(cases)
    # (4) boundary: batches of readers behind a writer; writers behind readers; many fibers
    nb = 0
    # large reader batches: a writer holds, 70 / 90 readers announce and enqueue, the writer releases:
    # the release must admit ALL of them in one CAS and wake exactly that many
    for nt in ((71,) if tier == "quick" else (71, 91)):
        for v in range(2):
            progs = [LU(WR)] + [LU(RD) for _ in range(nt - 1)]
            sched = [0] * 4
            order = list(range(1, nt))
            rng.shuffle(order)
            for t in order:
                sched += [t] * (16 if v == 0 else rng.randint(2, 16))
            sched += [0] * 12
            cases.append(core.fmt_case([30000], progs, sched)); nb += 1
    for nt in (4, 6, 9, 12, 16):
        for v in range(6 if tier == "quick" else 30):
            progs = [LU(WR)] + [LU(rng.choice([RD, RD, RD, WR])) for _ in range(nt - 1)]
            sched = [0] * 4
            for t in range(1, nt):
                sched += [t] * rng.randint(1, 22)
            sched += [0] * rng.randint(3, 40)
            sched += core.random_sched(rng, nt, rng.randint(0, 200), rng.randrange(3))
            cases.append(core.fmt_case([6000], progs, sched)); nb += 1
            progs = [LU(RD), LU(RD)] + [LU(rng.choice([WR, WR, RD])) for _ in range(nt - 2)]
            sched = [0] * 4 + [1] * 4
            for t in range(2, nt):
                sched += [t] * rng.randint(1, 22)
            sched += core.random_sched(rng, nt, rng.randint(0, 300), rng.randrange(3))
            cases.append(core.fmt_case([6000], progs, sched)); nb += 1
    # (2) random well-formed programs x schedules
    nrand = 1800 if tier == "quick" else 45000
    for _ in range(nrand):
        nt = rng.choice([2, 2, 3, 3, 4, 5])
        kinds = rng.choice([[RD, WR], [RD, RD, WR], [RD, WR, TRYRD, TRYWR], [WR, TRYWR, RD], [RD, TRYRD, WR, WR]])
        progs = [pairs_prog(rng, rng.randint(1, 3), kinds) for _ in range(nt)]
        length = rng.randint(5, 70 * nt)
        cases.append(core.fmt_case([4000], progs, core.random_sched(rng, nt, length, rng.randrange(3))))
    # arbitrary programs (may end holding the lock, may unlock nothing)
    nany = 300 if tier == "quick" else 5000
    for _ in range(nany):
        nt = rng.choice([1, 2, 3])
        progs = [[(rng.randint(1, 5), 0) for _ in range(rng.randint(1, 7))] for _ in range(nt)]
        cases.append(core.fmt_case([3000], progs, core.random_sched(rng, nt, rng.randint(0, 120), rng.randrange(3))))
    # (3) single fiber: sequential behaviour
    for _ in range(60):
        progs = [[(rng.randint(1, 5), 0) for _ in range(rng.randint(1, 10))]]
        cases.append(core.fmt_case([400], progs, []))
    ctx.coverage["case_distribution"] = {"covering_release_vs_arrival": ncov, "boundary_batches": nb,
                                         "random_wellformed": nrand, "random_arbitrary": nany,
                                         "sequential": 60, "total": len(cases)}
    return cases


def build(ctx):
    return core.build_harness(ctx, "h_rwlock", "h_rwlock.c", repo_sources=T1_SOURCES,
                              extra_flags=T1_FLAGS, rt_objs=("rt.c",), extra_rt=("t1.c",))


def corpus():
    p = os.path.join(core.VERIF, "corpus", "C07.txt")
    try:
        return [l.strip() for l in open(p) if l.strip() and not l.startswith("#")]
    except OSError:
        return []


def run(ctx):
    ctx.trusted = TRUSTED
    core.coq_property(ctx, "Properties_C07.v", THEOREMS)
    exe = build(ctx)
    if exe:
        cases = corpus() + gen_cases(ctx, ctx.tier)
        ok = core.correspond(ctx, "rwlock", "rwlock", exe, cases, monitor)
        st = ctx.stats["rwlock"]
        ctx.coverage.update({"traces_validated_against_impl": st["cases"] - st["differ"],
                             "evaluations": st["cases"], "distinct_nontrivial": st["nontrivial"],
                             "rule": "case = (rdlock/wrlock/tryrdlock/trywrlock/unlock programs per fiber, schedule); "
                                     "non-trivial = a CAS failed or a call failed in the implementation trace"})
        if (not ok or ctx.failures) and not ctx.violations:
            search(ctx, exe)
    from vf.props import C01
    C01.runtime_layer(ctx, "rwlock", "read/write lock on the whole runtime", [21, 21, 21, 22, 22, 1], quick_n=150, seedoff=7)
    core.init_contract(ctx, ["fiber_rwlock"])  # rt/h_init.c: real init on dirty memory
    core.finish(ctx, extra_assumptions=ASSUME)


def search(ctx, exe):
    c2 = core.Ctx(ctx.pid, "thorough", ctx.seed + 1000)
    try:
        cases = gen_cases(c2, "thorough")[:20000]
    finally:
        c2.cleanup()
    # RT_CATCHALL: every byte of the rwlock object is a scheduling point (fields the model does not know included)
    scases, impl = core.run_search(ctx, exe, cases)   # plain schedules first, then with every byte of the object a scheduling point
    for c, line in zip(scases, impl):
        why = core.safe_monitor(monitor, c, core.parse_trace(line) if line else None, line)
        if why:
            core.report_violation(ctx, "rwlock+catchall", c, why, line)
            if len(ctx.violations) >= 3:
                break


def replay(ctx, payload):
    if payload.get("harness") == "kernel":
        from vf.props import C01
        return C01.replay(ctx, payload)
    if payload.get("harness") == "h_init":
        return core.replay_init(ctx, payload)
    exe = build(ctx)
    c = payload.get("case")
    if not exe or not c:
        print("nothing to replay (no concrete case in this file)")
        return 2
    if str(payload.get("harness", "")).endswith("+catchall"):
        impl = core.run_sharded(["env", "RT_CATCHALL=1", exe], [c])[0]
        why = core.safe_monitor(monitor, c, core.parse_trace(impl) if impl is not None else None, impl)
        print("case:  %s\nimpl (every byte of the object a scheduling point):  %s\nmonitor: %s" % (c, impl, why or "ok"))
        return 1 if why else 0
    impl = core.run_sharded([exe], [c])[0]
    mod = core.model_run("rwlock", [c])[0]
    why = monitor(c, core.parse_trace(impl), impl)
    print("case:  %s\nimpl:  %s\nmodel: %s\nmonitor: %s\nlock-step: %s" %
          (c, impl, mod, why or "ok", "identical" if impl == mod else "DIFFER"))
    return 1 if (why or impl != mod) else 0


TRUSTED = [
    "Coq 8.16.1 kernel + vm_compute (no native_compute)",
    "Print Assumptions of each theorem (recorded under print_assumptions)",
    "extraction: ExtrOcamlBasic only; OCaml driver coq/extract/driver.ml",
    "rt/rt.c (TSan-hook baton scheduler) and rt/t1.c (T1 machine: real fiber_manager.c/fiber.c, one pthread per fiber; "
    "context switch, run queues and event layer replaced)",
    "hand-written models coq/T1K.v + coq/Rwlock.v; tie = identical per-access traces; the 64-bit state word is "
    "printed through rt_canon, so values >= 2^40 (any waiting writer) appear as -777777 on both sides",
    "bit-field layout of fiber_rwlock_state_t: compiled probe (blob for unit field values) = Example rw_pack_layout",
    "SC interleaving; __sync_bool_compare_and_swap = seq_cst strong CAS; -O0 instrumented build",
]
ASSUME = ["given C01 and C02 (a fiber behaves as a sequential process that is resumed once per wake-up): the T1 cut of DESIGN.md 3.4",
          "fewer than 2^21 fibers use the lock (the field width stated in include/fiber_rwlock.h)",
          "programs call rdunlock / wrunlock only for a lock they hold in that mode (the harness skips other unlocks)"]
