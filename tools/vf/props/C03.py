"""C03 fiber mutex: Coq theorems (Properties_C03.v) + lock-step correspondence of the
real src/fiber_mutex.c + src/fiber_manager.c (wait/wake/maintenance) on the T1
machine with coq/Mutex.v (client of coq/T1K.v) + implementation-side monitor."""
import os
import random

from vf import core

THEOREMS = ["mutex_exclusion", "mutex_counter_inv", "mutex_handoff_once", "mutex_no_stranded",
            "mutex_visibility"]
LOCK, TRY, UNLOCK = 1, 2, 3
T1_SOURCES = ["src/fiber_manager.c", "src/fiber.c", "src/fiber_mutex.c", "src/fiber_spinlock.c",
              "src/hazard_pointer.c"]
T1_FLAGS = ["-Dpthread_create=t1_pthread_create"]


L_REST = 3900     # search mode: byte b of the fiber_mutex_t = 3900 + b (bytes registered otherwise keep their locs)


def parse_case(case):
    v = [int(x) for x in case.split()]
    i = 1 + v[0]
    n = v[i]; i += 1
    progs = []
    for _ in range(n):
        k = v[i]; i += 1
        progs.append([(v[i + 2 * j], v[i + 2 * j + 1]) for j in range(k)])
        i += 2 * k
    return v[1:1 + v[0]], progs


def monitor(case, tr, raw):
    if tr is None:
        return "implementation produced no trace: %s" % (raw or "")[:80]
    # search mode (RT_CATCHALL=1): accesses to bytes of the object(s) that have no location of their own are
    # scheduling points, not events of the protocol judged here
    tr = [e for e in tr if e[1] < L_REST or e[2] in (909, 919)]
    _, progs = parse_case(case)
    n = len(progs)
    owner = None            # thread that wrote the cell last and has not released
    opidx = [0] * n
    pending_handoff = {}    # unlocking thread -> schedules seen during this unlock
    in_unlock = {}
    acquired = released = 0
    for (t, loc, kind, val) in tr:
        if kind == 919 and loc == 0 and val in (7, 8):
            return "thread %d never finished (%s): a waiter is stranded" % (t, "blocked" if val == 7 else "spinning")
        if loc == 500 and kind == 19:
            if owner is not None and owner != t:
                return "thread %d entered the critical section while %d holds the mutex" % (t, owner)
            owner = t
            acquired += 1
        elif loc == 300 and kind == 55:
            if owner != t:
                return "unlock by %d but owner is %s" % (t, owner)
            owner = None
            released += 1
            in_unlock[t] = (val != 0)      # old value != 0  <=> waiters announced
            pending_handoff[t] = 0
        elif loc == 901 and kind == 919:
            if t in pending_handoff:
                pending_handoff[t] += 1
        elif kind == 909:
            op = progs[t][opidx[t]][0]
            opidx[t] += 1
            if val == 7:
                return "critical-section write of thread %d was overwritten while it held the mutex" % t
            if op == UNLOCK and t in in_unlock:
                woke = pending_handoff.pop(t)
                contended = in_unlock.pop(t)
                if contended and woke != 1:
                    return "contended unlock by %d woke %d waiters" % (t, woke)
                if not contended and woke != 0:
                    return "uncontended unlock by %d woke %d waiters" % (t, woke)
    return None


def well_formed_prog(rng, pairs):
    p = []
    for _ in range(pairs):
        p.append((rng.choice([LOCK, LOCK, TRY]), 0))
        p.append((UNLOCK, 0))
    return p


def gen_cases(ctx, tier):
    rng = random.Random(ctx.seed * 7919 + 3)
    cases = []
    # covering family: the unlock lands after k steps of the contender's lock
    for k in range(0, 30):
        for j in range(0, 4):
            sched = [0] * 3 + [1] * 1 + [1] * k + [0] * (12 + 5 * j) + [1] * 30
            cases.append(core.fmt_case([400], [[(LOCK, 0), (UNLOCK, 0)], [(LOCK, 0), (UNLOCK, 0)]], sched))
            sched3 = [0] * 3 + [1] * (1 + k) + [2] * (1 + (k * 7 + j) % 25) + [0] * 40 + [1, 2] * 40
            cases.append(core.fmt_case([600], [[(LOCK, 0), (UNLOCK, 0)]] * 3, sched3))
    ncov = len(cases)
    nrand = 1500 if tier == "quick" else 40000
    for _ in range(nrand):
        nt = rng.choice([2, 2, 3, 3, 4])
        progs = [well_formed_prog(rng, rng.randint(1, 3)) for _ in range(nt)]
        length = rng.randint(5, 60 * nt)
        cases.append(core.fmt_case([1500], progs, core.random_sched(rng, nt, length, rng.randrange(3))))
    # single thread: sequential behaviour
    for _ in range(40):
        progs = [[(rng.choice([LOCK, TRY, UNLOCK]), 0) for _ in range(rng.randint(1, 8))]]
        cases.append(core.fmt_case([300], progs, []))
    ctx.coverage["case_distribution"] = {"covering_unlock_vs_enqueue": ncov, "random_programs": nrand,
                                         "sequential": 40, "total": len(cases)}
    return cases


def build(ctx):
    return core.build_harness(ctx, "h_mutex", "h_mutex.c", repo_sources=T1_SOURCES,
                              extra_flags=T1_FLAGS, rt_objs=("rt.c",), extra_rt=("t1.c",))


def corpus():
    p = os.path.join(core.VERIF, "corpus", "C03.txt")
    try:
        return [l.strip() for l in open(p) if l.strip() and not l.startswith("#")]
    except OSError:
        return []


def run(ctx):
    ctx.trusted = TRUSTED
    core.coq_property(ctx, "Properties_C03.v", THEOREMS)
    exe = build(ctx)
    if exe:
        cases = corpus() + gen_cases(ctx, ctx.tier)
        ok = core.correspond(ctx, "mutex", "mutex", exe, cases, monitor)
        st = ctx.stats["mutex"]
        ctx.coverage.update({"traces_validated_against_impl": st["cases"] - st["differ"],
                             "evaluations": st["cases"], "distinct_nontrivial": st["nontrivial"],
                             "rule": "case = (lock/trylock/unlock programs per fiber, schedule); non-trivial = a CAS failed "
                                     "or a call failed in the implementation trace"})
        if (not ok or ctx.failures) and not ctx.violations:
            search(ctx, exe)
    if exe and ctx.tier == "thorough":
        patience(ctx, exe)
    from vf.props import C01
    C01.runtime_layer(ctx, "mutex", "mutex on the whole runtime", [2, 2, 3, 3, 1, 6, 7], quick_n=120, seedoff=3)
    core.init_contract(ctx, ["fiber_mutex"])  # rt/h_init.c: real init on dirty memory
    core.finish(ctx, extra_assumptions=ASSUME)


def patience(ctx, exe):
    """'every waiter is eventually handed the mutex': the unlocker's wait for an announced, not yet enqueued waiter
    (fiber_manager_wake_from_mpsc_queue with a count: the spin-until loop shared by mutex, condition, rwlock and
    barrier) must last as long as the waiter is stalled.  Thorough tier only: the waiter is stopped right after its
    counter decrement for 5 million steps of the unlocker (1.25 million iterations of the loop, more than 2^20), then both run on;
    judged on the raw trace (the waiter's lock must return), not compared with the model."""
    bad = None
    n = 5000000     # 4 steps per loop iteration: 1.25 million iterations
    for pre1 in (2,):
        sched = [0] * 2 + [1] * pre1 + [0] * n
        c = core.fmt_case([4000], [[(LOCK, 0), (UNLOCK, 0)], [(LOCK, 0)]], sched)
        line = core.run_sharded([exe], [c], timeout=1500)[0]
        w = (line or "").split()
        tail = [int(x) for x in w[-4:]] if len(w) >= 4 else []
        if len(w) < 4 * n // 2:
            bad = "the unlocker did not keep waiting for the stalled waiter (trace has %d events for %d scheduled steps)" % (len(w) // 4, n)
        elif tail != [1, 1, 909, 1]:
            bad = "after a stall of %d unlocker steps the waiter's lock did not return (trace ends %s)" % (n, tail)
        if bad:
            core.report_violation(ctx, "mutex-patience", "programs: fiber 0 lock,unlock; fiber 1 lock; schedule: 0 0 1 1 then %d x 0 "
                                  "(replay re-runs it)" % n, "patience: " + bad, " ".join(w[-40:]))
            break
    ctx.coverage["patience_stall_steps"] = n
    ctx.oblige("patience(unlock waits out a waiter stalled for %d steps)" % n, bad is None, bad or "")


def search(ctx, exe):
    c2 = core.Ctx(ctx.pid, "thorough", ctx.seed + 1000)
    try:
        cases = gen_cases(c2, "thorough")[:20000]
    finally:
        c2.cleanup()
    # stall sweep: the contender stops k steps into its lock (announced, not yet queued), the holder then runs
    # exactly m steps of its unlock before the contender continues: every boundary of a bounded poll/retry loop
    sweep = []
    for k in range(1, 9):
        for m in range(0, 900):
            sched = [0] * 3 + [1] * k + [0] * m + [1] * 60 + [0, 1] * 200
            sweep.append(core.fmt_case([3000], [[(LOCK, 0), (UNLOCK, 0)], [(LOCK, 0), (UNLOCK, 0)]], sched))
    for k in range(1, 6):
        for m in range(0, 900, 1):
            sched = [0] * 3 + [1] * k + [2] * k + [0] * m + [1] * 60 + [2] * 60 + [0, 1, 2] * 200
            sweep.append(core.fmt_case([4000], [[(LOCK, 0), (UNLOCK, 0)]] * 3, sched))
    cases = sweep + cases
    # RT_CATCHALL: every byte of the mutex object is a scheduling point (fields the model does not know included)
    scases, impl = core.run_search(ctx, exe, cases)   # plain schedules first, then with every byte of the object a scheduling point
    for c, line in zip(scases, impl):
        why = core.safe_monitor(monitor, c, core.parse_trace(line) if line is not None else None, line)
        if why:
            core.report_violation(ctx, "mutex+catchall", c, why, line)
            if len(ctx.violations) >= 3:
                break


def replay(ctx, payload):
    if payload.get("harness") == "kernel":
        from vf.props import C01
        return C01.replay(ctx, payload)
    if payload.get("harness") == "h_init":
        return core.replay_init(ctx, payload)
    exe = build(ctx)
    if exe and payload.get("harness") == "mutex-patience":
        nv = len(ctx.violations)
        patience(ctx, exe)
        print("patience: %s" % ("VIOLATED again" if len(ctx.violations) > nv else "ok"))
        return 1 if len(ctx.violations) > nv else 0
    c = payload.get("case")
    if not exe or not c:
        print("nothing to replay (no concrete case in this file)")
        return 2
    if str(payload.get("harness", "")).endswith("+catchall"):
        impl = core.run_sharded(["env", "RT_CATCHALL=1", exe], [c])[0]
        why = core.safe_monitor(monitor, c, core.parse_trace(impl) if impl is not None else None, impl)
        print("case:  %s\nimpl (every byte of the object a scheduling point):  %s\nmonitor: %s" % (c, impl, why or "ok"))
        return 1 if why else 0
    impl = core.run_sharded([exe], [c])[0]
    mod = core.model_run("mutex", [c])[0]
    why = monitor(c, core.parse_trace(impl), impl)
    print("case:  %s\nimpl:  %s\nmodel: %s\nmonitor: %s\nlock-step: %s" %
          (c, impl, mod, why or "ok", "identical" if impl == mod else "DIFFER"))
    return 1 if (why or impl != mod) else 0


TRUSTED = [
    "Coq 8.16.1 kernel + vm_compute (no native_compute)",
    "Print Assumptions of each theorem (recorded under print_assumptions)",
    "extraction: ExtrOcamlBasic only; OCaml driver coq/extract/driver.ml",
    "rt/rt.c (TSan-hook baton scheduler) and rt/t1.c (T1 machine: real fiber_manager.c/fiber.c, one pthread per fiber; "
    "context switch, run queues and event layer replaced)",
    "hand-written models coq/T1K.v + coq/Mutex.v; tie = identical per-access traces",
    "SC interleaving; weak CAS = strong (x86); -O0 instrumented build",
]
ASSUME = ["given C01 and C02 (a fiber behaves as a sequential process that is resumed once per wake-up): the T1 cut of DESIGN.md 3.4",
          "programs unlock only a mutex they hold (the harness skips other unlocks)"]
