"""C18 ticket spinlock: Coq theorems (Properties_C18.v) + lock-step
correspondence of src/fiber_spinlock.c with coq/Spin.v + monitors."""
import os
import random

from vf import core

THEOREMS = ["spin_exclusion", "spin_fifo", "spin_fifo_history", "spin_trylock_no_steal",
            "spin_unlock_releases"]
LOCK, TRY, UNLOCK = 1, 2, 3
W = 1 << 32
# starts at every case split of the model: 0, the int32 sign boundary (sx32),
# the uint32 wrap (wrap), the two rt_canon thresholds of the 64-bit blob
# (users < 2^8  <=> blob < 2^40 ; users >= 2^32-2^8 <=> blob > 2^64-2^40)
STARTS = [0, 0, 5, (1 << 31) - 2, (1 << 31) - 1, W - 1, W - 2, W - 3, W - 1, W - 2,
          253, 254, 255, 256, W - 258, W - 257, W - 256, W - 255]


L_REST = 3900     # search mode: byte b of the fiber_spinlock_t = 3900 + b (bytes registered otherwise keep their locs)


def u32(v):
    return v % W


def parse_case(case):
    v = [int(x) for x in case.split()]
    params = v[1:1 + v[0]]
    nthreads = v[1 + v[0]]
    progs, i = [], 2 + v[0]
    for _ in range(nthreads):
        n = v[i]; i += 1
        progs.append([v[i + 2 * j] for j in range(n)])
        i += 2 * n
    return params, progs


def closed(prog):
    """every acquisition in the program is followed by an unlock-if-held"""
    need = False
    for o in prog:
        if o in (LOCK, TRY):
            need = True
        elif o == UNLOCK:
            need = False
    return not need


def monitor(case, tr, raw):
    """property oracle on an implementation trace (None = fine).  It keeps its
    own picture of the lock (who holds it, who queued in which order, how many
    unlocks happened) from the events alone and never consults the model."""
    if tr is None:
        return "implementation produced no trace: %s" % (raw or "")[:80]
    # search mode (RT_CATCHALL=1): accesses to bytes of the object(s) that have no location of their own are
    # scheduling points, not events of the protocol judged here
    tr = [e for e in tr if e[1] < L_REST or e[2] in (909, 919)]
    params, progs = parse_case(case)
    start = u32(params[0])
    nthreads = len(progs)
    # with a generous drain budget every thread must finish, provided that
    # every acquisition in every program is followed by an unlock
    all_closed = all(closed(p) for p in progs) and params[1] >= 400
    holder = None
    queue = []                      # threads that took a ticket with lock(), in fetch_add order
    myticket = {}                   # tid -> ticket taken by its pending lock()
    served = start                  # value the ticket half must have (start + completed unlocks)
    taken = start                   # value the users half must have (start + tickets handed out)
    opidx = [0] * nthreads          # calls finished (incl. skipped ones)
    nacc = [0] * nthreads           # accesses of the call in progress
    lastload = [None] * nthreads
    cas_ok = [False] * nthreads
    for (t, loc, kind, val) in tr:
        if kind == 919:
            if val in (7, 8):
                if all_closed:
                    return "thread %d never finished although every acquisition is released" % t
                continue
            continue
        if kind != 909:
            nacc[t] += 1
            if opidx[t] >= len(progs[t]):
                return "thread %d touched the lock outside any call" % t
            op = progs[t][opidx[t]]
        if kind // 10 == 5 and loc == 1:           # fetch_add users: a ticket is taken
            if op != LOCK:
                return "users advanced by a non-lock call"
            if u32(val) != taken:
                return "ticket handed out %d, expected %d" % (u32(val), taken)
            myticket[t] = u32(val)
            queue.append(t)
            taken = u32(taken + 1)
        elif kind // 10 == 2 and loc == 0 and op == TRY:
            pass                                   # trylock's 8-byte snapshot of the whole word
        elif kind // 10 == 2 and loc == 0:         # load of the ticket half
            lastload[t] = u32(val)
            if u32(val) != served:
                return "ticket half reads %d, expected %d" % (u32(val), served)
        elif kind // 10 == 7 and loc == 0:         # trylock CAS succeeded
            if op != TRY:
                return "blob CAS by a non-trylock call"
            if holder is not None:
                return "trylock succeeded while thread %d holds the lock" % holder
            if queue:
                return "trylock succeeded while threads %s are queued" % queue
            if served != taken:
                return "trylock succeeded with ticket=%d users=%d" % (served, taken)
            taken = u32(taken + 1)
            cas_ok[t] = True
        elif kind // 10 == 8 and loc == 0:
            cas_ok[t] = False
        elif kind // 10 == 3 and loc == 0:         # store to ticket: release
            if op != UNLOCK:
                return "ticket stored by a non-unlock call"
            if holder != t:
                return "unlock's store by thread %d while holder is %s" % (t, holder)
            if u32(val) != u32(served + 1):
                return "unlock stored ticket %d, expected %d" % (u32(val), u32(served + 1))
            served = u32(served + 1)
            holder = None
        elif kind == 909:
            if opidx[t] >= len(progs[t]):
                return "more returns than calls in thread %d" % t
            op = progs[t][opidx[t]]
            if val == 2:                           # skipped by the harness
                if nacc[t]:
                    return "skipped call made accesses"
            elif op == LOCK:
                if val != 1:
                    return "lock returned %d" % val
                if holder is not None:
                    return "lock acquired by %d while %d holds it" % (t, holder)
                if not queue or queue[0] != t:
                    return "lock acquired by %d out of ticket order (queue %s)" % (t, queue)
                if lastload[t] != myticket.get(t):
                    return "lock acquired with ticket=%s, own ticket %s" % (lastload[t], myticket.get(t))
                queue.pop(0)
                myticket.pop(t, None)
                holder = t
            elif op == TRY:
                if nacc[t] != 2:
                    return "trylock made %d accesses (must be exactly 2: it never spins)" % nacc[t]
                if val not in (0, 1):
                    return "trylock returned %d" % val
                if (val == 1) != cas_ok[t]:
                    return "trylock returned %d but its CAS %s" % (val, "succeeded" if cas_ok[t] else "failed")
                if val == 1:
                    if holder is not None:
                        return "trylock acquired while %d holds the lock" % holder
                    holder = t
                cas_ok[t] = False
            else:
                if val != 1:
                    return "unlock returned %d" % val
                if nacc[t] != 2:
                    return "unlock made %d accesses" % nacc[t]
                if holder == t:
                    return "unlock returned without releasing"
            nacc[t] = 0
            opidx[t] += 1
    return None


def prog_of(ops):
    return [(o, 0) for o in ops]


def rand_prog(rng, n):
    """random well-formed-ish program, always closed by an unlock-if-held"""
    ops = []
    for _ in range(n):
        r = rng.random()
        if r < 0.40:
            ops += [LOCK, UNLOCK]
        elif r < 0.75:
            ops += [TRY, UNLOCK]
        elif r < 0.85:
            ops += [rng.choice([LOCK, TRY])]       # held across following calls
        else:
            ops += [UNLOCK]
    ops.append(UNLOCK)
    return ops[:60]


def gen_cases(ctx, tier):
    rng = random.Random(ctx.seed * 7919 + 18)
    cases = []
    dmax = 600
    # (1) exhaustive: every pair of call sequences, every interleaving of the
    # first steps, from the free lock / a held lock / a held lock with a waiter,
    # at 0 and across the 2^32 wrap
    seqs = [[LOCK, UNLOCK], [TRY, UNLOCK], [LOCK, UNLOCK, TRY, UNLOCK], [TRY, UNLOCK, LOCK, UNLOCK],
            [TRY, TRY, UNLOCK], [LOCK, TRY, UNLOCK, UNLOCK]]
    for start in (0, W - 1, W - 2):
        for a in seqs:
            for b in seqs:
                na = min(6, 2 * len(a)); nb = min(6, 2 * len(b))
                for il in core.interleavings([na, nb]):
                    cases.append(core.fmt_case([start, dmax], [prog_of(a), prog_of(b)], il))
    # a third thread already holds / already queued when the pair races
    for start in (0, W - 1):
        for a in seqs[:4]:
            for b in seqs[:4]:
                for pre in ([2, 2], [2, 2, 0, 1], [2, 2, 1, 0]):
                    for il in core.interleavings([4, 4], limit=70):
                        # thread 2 acquires first, releases in the drain phase
                        cases.append(core.fmt_case([start, dmax],
                                                   [prog_of(a), prog_of(b), prog_of([LOCK, UNLOCK])],
                                                   pre + il))
    n_ex = len(cases)
    if tier == "quick":
        cases = rng.sample(cases, min(len(cases), 12000))
        n_ex = len(cases)
    # (2) seeded random programs x schedules
    nrand = 4000 if tier == "quick" else 60000
    for _ in range(nrand):
        nt = rng.choice([2, 2, 3, 3, 4, 5])
        progs = [prog_of(rand_prog(rng, rng.randint(1, 4))) for _ in range(nt)]
        length = rng.randint(4, 4 * sum(len(p) for p in progs) + 6)
        cases.append(core.fmt_case([rng.choice(STARTS), 1500], progs,
                                   core.random_sched(rng, nt, length, rng.randrange(3))))
    # many contenders queued at once, crossing the wrap
    for _ in range(200 if tier == "quick" else 2000):
        nt = rng.choice([6, 8, 12, 16])
        progs = [prog_of([LOCK, UNLOCK] * rng.randint(1, 2)) for _ in range(nt)]
        sched = list(range(nt)); rng.shuffle(sched)
        sched += core.random_sched(rng, nt, rng.randint(0, 60), rng.randrange(3))
        cases.append(core.fmt_case([rng.choice([W - 3, W - 2, W - 1, 0, (1 << 31) - 3]), 3000], progs, sched))
    # programs that end while holding the lock: waiters spin until the budget ends
    n_open = 150
    for _ in range(n_open):
        nt = rng.choice([2, 3])
        progs = [prog_of([rng.choice([LOCK, TRY])] + [rng.choice([LOCK, TRY, UNLOCK]) for _ in range(rng.randint(0, 3))])
                 for _ in range(nt)]
        cases.append(core.fmt_case([rng.choice(STARTS), rng.randint(5, 60)], progs,
                                   core.random_sched(rng, nt, rng.randint(0, 12), rng.randrange(3))))
    # (3) sequential programs (one thread), every start value
    n_seq = 0
    for start in sorted(set(STARTS)):
        for _ in range(12):
            ops = [rng.choice([LOCK, TRY, UNLOCK]) for _ in range(rng.randint(1, 14))]
            cases.append(core.fmt_case([start, 400], [prog_of(ops)], []))
            n_seq += 1
    # (4) boundaries: empty programs, zero threads' worth of work, budget 0
    cases.append(core.fmt_case([0, 100], [[], []], [0, 1]))
    cases.append(core.fmt_case([W - 1, 0], [prog_of([LOCK, UNLOCK]), prog_of([UNLOCK, UNLOCK])], [0, 1, 1, 0]))
    cases.append(core.fmt_case([W - 1, 100], [prog_of([UNLOCK]), prog_of([UNLOCK, TRY, TRY, LOCK, UNLOCK])], [1, 1, 0]))
    ctx.coverage["case_distribution"] = {"exhaustive_pair_interleavings": n_ex,
                                         "random_programs": nrand, "open_programs": n_open,
                                         "sequential": n_seq, "total": len(cases)}
    return cases


def build(ctx):
    return core.build_harness(ctx, "h_spin", "h_spin.c", repo_sources=["src/fiber_spinlock.c"])


def run(ctx):
    ctx.trusted = TRUSTED
    core.coq_property(ctx, "Properties_C18.v", THEOREMS)
    exe = build(ctx)
    if exe:
        cases = corpus(ctx) + gen_cases(ctx, ctx.tier)
        ok = core.correspond(ctx, "spin", "spin", exe, cases, monitor)
        st = ctx.stats["spin"]
        ctx.coverage.update({"traces_validated_against_impl": st["cases"] - st["differ"],
                             "evaluations": st["cases"], "distinct_nontrivial": st["nontrivial"],
                             "rule": "case = (initial counter value, programs of lock/trylock/unlock-if-held per thread, "
                                     "schedule); non-trivial = at least one failed trylock CAS in the implementation trace"})
        if not ok or ctx.failures:
            search(ctx, exe)
    core.init_contract(ctx, ["fiber_spinlock"])  # rt/h_init.c: real init on dirty memory
    core.finish(ctx, extra_assumptions=ASSUME)


def search(ctx, exe):
    """something stopped checking: look for a concrete property failure on the
    implementation with more schedules (monitor only)."""
    if ctx.violations:
        return
    rng_ctx = core.Ctx(ctx.pid, "thorough", ctx.seed + 1000)
    try:
        cases = gen_cases(rng_ctx, "thorough")
        random.Random(ctx.seed).shuffle(cases)
        cases = cases[:40000]
    finally:
        rng_ctx.cleanup()
    # RT_CATCHALL: every byte of the spinlock object is a scheduling point (fields the model does not know included)
    scases, impl = core.run_search(ctx, exe, cases)   # plain schedules first, then with every byte of the object a scheduling point
    for c, line in zip(scases, impl):
        why = core.safe_monitor(monitor, c, core.parse_trace(line) if line is not None else None, line)
        if why:
            core.report_violation(ctx, "spin+catchall", c, why, line)
            if len(ctx.violations) >= 3:
                break


def corpus(ctx):
    p = os.path.join(core.VERIF, "corpus", "C18.txt")
    try:
        return [l.strip() for l in open(p) if l.strip() and not l.startswith("#")]
    except OSError:
        return []


def replay(ctx, payload):
    if payload.get("harness") == "h_init":
        return core.replay_init(ctx, payload)
    exe = build(ctx)
    c = payload.get("case")
    if not exe or not c:
        print("nothing to replay (no concrete case in this file)")
        return 2
    if str(payload.get("harness", "")).endswith("+catchall"):
        impl = core.run_sharded(["env", "RT_CATCHALL=1", exe], [c])[0]
        why = core.safe_monitor(monitor, c, core.parse_trace(impl) if impl is not None else None, impl)
        print("case:  %s\nimpl (every byte of the object a scheduling point):  %s\nmonitor: %s" % (c, impl, why or "ok"))
        return 1 if why else 0
    impl = core.run_sharded([exe], [c])[0]
    mod = core.model_run("spin", [c])[0]
    why = monitor(c, core.parse_trace(impl), impl)
    print("case:  %s\nimpl:  %s\nmodel: %s\nmonitor: %s\nlock-step: %s" %
          (c, impl, mod, why or "ok", "identical" if impl == mod else "DIFFER"))
    return 1 if (why or impl != mod) else 0


TRUSTED = [
    "Coq 8.16.1 kernel + vm_compute (no native_compute)",
    "Print Assumptions of each theorem (recorded under print_assumptions)",
    "extraction: Require Extraction + ExtrOcamlBasic only (bool/option/unit/list/prod/sumbool); no Extract Constant",
    "OCaml driver coq/extract/driver.ml (int <-> Z conversion, line I/O)",
    "rt/rt.c: gcc -fsanitize=thread access hooks as the source of access events, baton scheduler",
    "rt/h_spin.c: dummy unregistered fiber_manager_t behind fiber_manager_get(); the harness keeps programs "
    "well formed (unlock only by the holder, no re-entrant lock) and the model mirrors that bookkeeping",
    "model of fiber_spinlock.c written by hand (coq/Spin.v); tie = identical per-access traces",
    "SC interleaving of accesses; weak CAS modelled as strong (x86 cmpxchg); -O0 instrumented build",
]
ASSUME = ["fewer than 2^32 threads contend (hypothesis length progs < 2^32 of every theorem)",
          "unlock is only called by the holder and lock/trylock never by the holder (harness-enforced)"]
