"""C13 MPMC FIFO over hazard pointers: Coq theorems (Properties_C13.v) + lock-step
correspondence of include/mpmc_fifo.h (+ hazard_pointer.h/.c) with coq/MpmcHp.v + monitors.

Harness rt/h_mpmc.c (src/hazard_pointer.c is #included there)."""
import random

from vf import core

THEOREMS = ["mpmc_exactly_once_fifo", "mpmc_pop_returns_oldest", "mpmc_empty_justified",
            "mpmc_no_deref_reclaimed", "mpmc_aba_safe", "mpmc_gen_counts_allocations", "mpmc_hp_safe"]
JOIN, PUSH, POP, SCAN = 1, 2, 3, 6
NODE = 1000
PUSH_STEPS, POP_STEPS, POP_EMPTY_STEPS = 9, 11, 5


L_REST = 13900     # search mode: byte b of the mpmc_fifo_t = 13900 + b (bytes registered otherwise keep their locs)


def parse_case(case):
    v = [int(x) for x in case.split()]
    np_ = v[0]
    params = v[1:1 + np_] + [0] * 4
    nthreads = v[1 + np_]
    progs, i = [], 2 + np_
    for _ in range(nthreads):
        n = v[i]; i += 1
        progs.append([(v[i + 2 * j], v[i + 2 * j + 1]) for j in range(n)])
        i += 2 * n
    return params, progs


def monitor(case, tr, raw):
    """property oracle on an implementation trace (None = fine)."""
    if tr is None:
        return "implementation produced no trace: %s" % (raw or "")[:80]
    # search mode (RT_CATCHALL=1): accesses to bytes of the object(s) that have no location of their own are
    # scheduling points, not events of the protocol judged here
    tr = [e for e in tr if e[1] < L_REST or e[2] in (909, 919)]
    if (raw or "").strip() == "-1":
        return None
    params, progs = parse_case(case)
    P, NN, M = params[0], params[1], params[3]
    nthreads = len(progs)
    pushed = [101 + i for i in range(M)]     # values in tail-CAS order
    linked = [True] * M                      # has the push executed tail->prev = new_node
    npop = 0                                 # head CASes so far
    qhead = NODE
    free = set(range(NODE + M + 1, NODE + NN))
    retired = {t: [] for t in range(nthreads)}
    validated, pending = {}, {}
    opidx = [0] * nthreads
    cas_idx = {}                             # tid -> index in pushed of the CASed, not yet linked push
    claim = {}                               # tid -> value claimed by this call's head CAS
    null_ok = {}                             # tid -> was the last prev == NULL read justified
    for (t, loc, kind, val) in tr:
        if kind == 919:
            return "thread %d never finished" % t
        k10 = kind // 10
        if kind == 909:
            while opidx[t] < len(progs[t]) and opidx[t] + 1 < loc:
                opidx[t] += 1
            op = progs[t][opidx[t]] if opidx[t] < len(progs[t]) else (0, 0)
            if op[0] == POP and val != -1:
                if t in claim:
                    want = claim.pop(t)
                    if val != want:
                        return "trypop returned %d, FIFO order (tail-CAS order of pushes) requires %d" % (val, want)
                elif val != 0:
                    return "trypop returned %d without a successful head CAS" % val
                else:
                    why = null_ok.pop(t, "no read of head->prev == NULL")
                    if why is not True:
                        return "trypop returned NULL unjustified: %s" % why
            if op[0] == PUSH and val == 1 and t in cas_idx:
                return "push returned before linking tail->prev"
            pending.pop(t, None)
            opidx[t] += 1
            continue
        if kind == 929:
            n = loc
            holders = [l for (l, m) in validated.items() if m == n]
            if holders:
                return "node %d reclaimed while slot %d holds a validated protection of it" % (n, holders[0])
            if n not in retired[t]:
                return "node %d passed to the gc callback but not retired by thread %d (or reclaimed twice)" % (n, t)
            retired[t].remove(n)
            free.add(n)
            continue
        if kind == 939:
            free.discard(loc)
            continue
        cur_op = progs[t][min(opidx[t], len(progs[t]) - 1)][0] if progs[t] else 0
        if loc >= 2000:
            node, f = NODE + (loc - 2000) // 3, (loc - 2000) % 3
            if node in free:
                return "thread %d accesses field %d of node %d which is reclaimed (in the free pool)" % (t, f, node)
            if f == 1 and k10 in (1, 3) and t in cas_idx:
                linked[cas_idx.pop(t)] = True
            if f == 1 and k10 in (0, 2) and cur_op == POP:
                if val == 0:
                    if npop == len(pushed) or not linked[npop]:
                        null_ok[t] = True
                    else:
                        null_ok[t] = ("%d pushes took effect, %d popped, the oldest unpopped one is linked"
                                      % (len(pushed), npop))
                else:
                    null_ok.pop(t, None)
            continue
        if loc == 2:                                        # fifo.tail
            if k10 == 7:
                if cur_op != PUSH:
                    return "tail advanced by a non-push"
                cas_idx[t] = len(pushed)
                pushed.append(progs[t][opidx[t]][1] + 1)
                linked.append(False)
            elif k10 == 2 and t in pending:
                sl, n = pending.pop(t)
                if val == n and n:
                    validated[sl] = n
            continue
        if loc == 1:                                        # fifo.head
            if k10 == 7:
                if cur_op != POP:
                    return "head advanced by a non-pop"
                if npop >= len(pushed):
                    return "head CAS succeeded on an empty queue"
                if not linked[npop]:
                    return "head CAS succeeded before the push was linked"
                claim[t] = pushed[npop]
                npop += 1
                retired[t].append(qhead)
                qhead = val
            elif k10 == 2 and t in pending:
                sl, n = pending.pop(t)
                if val == n and n:
                    validated[sl] = n
            continue
        if loc >= 100:
            r, off = divmod(loc, 100)
            if off >= 10 and k10 in (1, 3):
                validated.pop(loc, None)
                if r == t + 1 and cur_op in (PUSH, POP):
                    pending[t] = (loc, val)
    return None


TSO_ROBUST = ("which is reclaimed", "FIFO order", "without a successful head CAS", "reclaimed twice",
              "on an empty queue", "crashed", "never finished")


def monitor_tso(case, tr, raw):
    """x86-TSO search mode: the trace is sequentially consistent in the order in which stores reach memory, but a call
    may return before its last store is visible; only the verdicts that do not depend on that are kept (values
    returned, accesses to reclaimed nodes, double reclamation)"""
    why = monitor(case, tr, raw)
    if why and any(k in why for k in TSO_ROBUST):
        return why
    return None


def run_tso(ctx, exe, n):
    rng = random.Random(ctx.seed * 7919 + 713)
    c2 = core.Ctx(ctx.pid, "quick", ctx.seed + 17)
    try:
        cases = gen_cases(c2, "quick")
    finally:
        c2.cleanup()
    rng.shuffle(cases)
    return core.tso_search(ctx, "mpmc", exe, cases[:n], monitor_tso)


def tso_pass(ctx, exe):
    """every run: the queue over the real hazard_pointer.c on the x86-TSO store-buffer machine (rt/rt.c RT_TSO): the
    publish / fence / re-validate protocol of hazard_pointer_using is invisible to a sequentially consistent run"""
    n, bad = run_tso(ctx, exe, 12000 if ctx.tier == "quick" else 60000)
    ctx.oblige("monitor:mpmc-x86-tso(%d runs)" % n, bad == 0, "%d runs with delayed stores judged a violation" % bad)
    ctx.coverage["mpmc_tso_runs"] = n


def as_layer(ctx, why):
    """the MPMC queue over hazard pointers as a layer of another property (C06: the semaphore's waiter queue; the model
    of fiber_semaphore.c treats its operations as atomic): the queue's core theorems, its lock-step correspondence on the
    current sources and its store-buffer pass become obligations of the calling check."""
    core.coq_property(ctx, "Properties_C13.v", ["mpmc_exactly_once_fifo", "mpmc_pop_returns_oldest", "mpmc_empty_justified",
                                                "mpmc_no_deref_reclaimed", "mpmc_aba_safe"])
    exe = build(ctx)
    if not exe:
        return
    dist = ctx.coverage.get("case_distribution")
    nf = len(ctx.failures)
    cases = corpus(ctx) + gen_cases(ctx, ctx.tier)
    ctx.coverage["mpmc_layer"] = {"why": why, "cases": len(cases)}
    ctx.coverage["case_distribution"] = dist
    ok = core.correspond(ctx, "mpmc", "mpmchp", exe, cases, monitor)
    if (not ok or len(ctx.failures) > nf) and not ctx.violations:
        search(ctx, exe)
    tso_pass(ctx, exe)


def rand_prog(rng, n, joined):
    p = []
    for _ in range(n):
        x = rng.random()
        if not joined and x < 0.4:
            p.append((JOIN, 0)); joined = True
        elif x < 0.45:
            p.append((PUSH, rng.randint(0, 60)))
        elif x < 0.88:
            p.append((POP, 0))
        elif x < 0.97:
            p.append((SCAN, 0))
        else:
            p.append((rng.choice([JOIN, PUSH, 4, 7]), rng.choice([-1, 5])))
    return p


def block_scheds(na, nb):
    """a^i b^j a^(na-i) b^(nb-j): one thread stalls at every pc while the other runs"""
    out = []
    for i in range(na + 1):
        for j in range(nb + 1):
            out.append([0] * i + [1] * j + [0] * (na - i) + [1] * (nb - j))
    return out


def gen_cases(ctx, tier):
    rng = random.Random(ctx.seed * 7919 + 13)
    cases = []
    steps = {PUSH: PUSH_STEPS, POP: POP_STEPS}
    # pairs of calls from small prefilled states: all interleavings of the short pairs,
    # block schedules + random interleavings of the long ones; 3 nodes so that a popped
    # node is recycled by the very next push
    nsample = 150 if tier == "quick" else 4000
    for M in (0, 1, 2):
        for a in (PUSH, POP):
            for b in (PUSH, POP):
                for NN in (M + 2, M + 4):
                    params = [2, NN, 400, M]
                    p0, p1 = [(a, 7)], [(b, 8)]
                    na = steps[a] if not (a == POP and M == 0) else POP_EMPTY_STEPS
                    nb = steps[b] if not (b == POP and M == 0) else POP_EMPTY_STEPS
                    if na + nb <= 14:
                        scheds = core.interleavings([na, nb])
                    else:
                        scheds = block_scheds(na, nb)
                        for _ in range(nsample):
                            il = [0] * na + [1] * nb
                            rng.shuffle(il)
                            scheds.append(il)
                    for il in scheds:
                        cases.append(core.fmt_case(params, [p0, p1], il))
    # pop / scan / push chains that recycle the old head while another popper holds it
    for _ in range(nsample * 4):
        M = rng.choice([1, 2, 3])
        NN = M + rng.choice([1, 2])
        p0 = [(POP, 0)]
        p1 = [(POP, 0), (SCAN, 0), (PUSH, 9), (POP, 0), (SCAN, 0), (PUSH, 10)][:rng.randint(2, 6)]
        k = rng.randint(1, POP_STEPS - 1)
        n1 = 12 * len(p1)
        tail = [0] * (POP_STEPS + 2) + [1] * 6
        mid = [1] * rng.randint(n1 // 2, n1)
        cases.append(core.fmt_case([2, NN, 400, M], [p0, p1], [0] * k + mid + tail))
    n_ex = len(cases)
    nrand = 2500 if tier == "quick" else 50000
    for _ in range(nrand):
        nt = rng.choice([2, 2, 3, 3, 4, 5])
        P = rng.randint(1, nt) if rng.random() < 0.85 else 0
        NN = rng.choice([2, 3, 3, 4, 6, 10, 20])
        M = min(NN - 1, rng.choice([0, 0, 1, 2, 3, 5])) if P >= 1 else 0
        progs = [rand_prog(rng, rng.randint(1, 10), t < P) for t in range(nt)]
        length = rng.randint(5, 10 * sum(len(p) for p in progs) + 5)
        cases.append(core.fmt_case([P, NN, 800, M], progs,
                                   core.random_sched(rng, nt, length, rng.randrange(3))))
    for _ in range(200):
        NN = rng.choice([2, 3, 5, 12])
        cases.append(core.fmt_case([rng.choice([0, 1]), NN, 800, 0],
                                   [rand_prog(rng, rng.randint(1, 30), False)], []))
    # boundaries: full pool use, nothing joined, many records (threshold 4*N), scans with both slots set
    cases.append(core.fmt_case([1, 32, 2000, 31], [[(POP, 0)] * 32 + [(PUSH, 1)] * 8], []))
    cases.append(core.fmt_case([0, 4, 100, 0], [[(PUSH, 1), (POP, 0), (SCAN, 0)], [(POP, 0)]], [0, 1, 0, 1]))
    cases.append(core.fmt_case([1, 2, 400, 0], [[(PUSH, 1), (PUSH, 2), (POP, 0), (POP, 0), (SCAN, 0), (PUSH, 3)]], []))
    cases.append(core.fmt_case([6, 12, 3000, 6], [[(POP, 0)] * 6, [(POP, 0)] * 2, [(SCAN, 0)], [(PUSH, 3)], [], []],
                               [1] * 7 + [0] * 70 + [2] * 30 + [1] * 30))
    ctx.coverage["case_distribution"] = {"pairs_and_recycling_schedules": n_ex,
                                         "random_programs": nrand, "sequential": 200,
                                         "total": len(cases)}
    return cases


def build(ctx):
    return core.build_harness(ctx, "h_mpmc", "h_mpmc.c")


def run(ctx):
    ctx.trusted = TRUSTED
    core.coq_property(ctx, "Properties_C13.v", THEOREMS)
    exe = build(ctx)
    if exe:
        cases = corpus(ctx) + gen_cases(ctx, ctx.tier)
        ok = core.correspond(ctx, "mpmc", "mpmchp", exe, cases, monitor)
        st = ctx.stats["mpmc"]
        ctx.coverage.update({"traces_validated_against_impl": st["cases"] - st["differ"],
                             "evaluations": st["cases"], "distinct_nontrivial": st["nontrivial"],
                             "rule": "case = (pre-joined records, nodes, prefill, programs of join/push/trypop/scan "
                                     "per thread, schedule); non-trivial = a failed CAS or a trypop returning NULL "
                                     "in the implementation trace"})
        if not ok or ctx.failures:
            search(ctx, exe)
        tso_pass(ctx, exe)
    hazard_layer(ctx)
    core.init_contract(ctx, ["mpmc_fifo", "hazard_pointer"])  # rt/h_init.c: real init on dirty memory
    core.finish(ctx, extra_assumptions=ASSUME)


HAZARD_THEOREMS = ["hp_safe", "hp_validated", "hp_binary_search_correct", "hp_scan_partition", "hp_comparator_obligation"]


def hazard_layer(ctx):
    """'including node retirement and reuse (ABA)': the queue is ABA-safe only if the hazard-pointer layer below it never
    reclaims a protected node, for every address pattern.  C14's theorems and its correspondence (comparator differential
    on boundary address pairs, far-apart node layouts, scans racing with registration) are obligations of C13 too."""
    from vf.props import C14
    core.coq_property(ctx, "Properties_C14.v", HAZARD_THEOREMS)
    exe = C14.build(ctx)
    if not exe:
        return
    dist = ctx.coverage.get("case_distribution")
    nf = len(ctx.failures)
    cases = C14.corpus(ctx) + C14.gen_cases(ctx, ctx.tier)
    ctx.coverage["hazard_case_distribution"] = ctx.coverage.get("case_distribution")
    ctx.coverage["case_distribution"] = dist
    ok = core.correspond(ctx, "hazard", "hazard", exe, cases, C14.monitor)
    if (not ok or len(ctx.failures) > nf) and not ctx.violations:
        C14.search(ctx, exe)


def search(ctx, exe):
    if ctx.violations:
        return
    rng_ctx = core.Ctx(ctx.pid, "thorough", ctx.seed + 1000)
    try:
        cases = gen_cases(rng_ctx, "thorough")[:60000]
    finally:
        rng_ctx.cleanup()
    # RT_CATCHALL: every byte of the fifo object is a scheduling point (fields the model does not know included)
    scases, impl = core.run_search(ctx, exe, cases)   # plain schedules first, then with every byte of the object a scheduling point
    for c, line in zip(scases, impl):
        why = core.safe_monitor(monitor, c, core.parse_trace(line) if line else None, line)
        if why:
            core.report_violation(ctx, "mpmc+catchall", c, why, line)
            if len(ctx.violations) >= 3:
                break


def corpus(ctx):
    import os
    p = os.path.join(core.VERIF, "corpus", "C13.txt")
    try:
        return [l.strip() for l in open(p) if l.strip() and not l.startswith("#")]
    except OSError:
        return []


def replay(ctx, payload):
    if payload.get("harness") == "h_init":
        return core.replay_init(ctx, payload)
    if str(payload.get("harness", "")).endswith("+tso"):
        exe = build(ctx)
        c = payload.get("case")
        impl = core.run_sharded(core.TSO_CMD + [exe], [c])[0]
        why = core.safe_monitor(monitor_tso, c, core.parse_trace(impl) if impl is not None else None, impl)
        print("case:  %s\nimpl (x86-TSO store buffers; flush tokens 100+t in the schedule):  %s\nmonitor: %s" % (c, (impl or "")[:3000], why or "ok"))
        return 1 if why else 0
    if str(payload.get("harness", "")).split("+")[0] == "hazard":
        from vf.props import C14
        return C14.replay(ctx, payload)
    exe = build(ctx)
    c = payload.get("case")
    if not exe or not c:
        print("nothing to replay (no concrete case in this file)")
        return 2
    if str(payload.get("harness", "")).endswith("+catchall"):
        impl = core.run_sharded(["env", "RT_CATCHALL=1", exe], [c])[0]
        why = core.safe_monitor(monitor, c, core.parse_trace(impl) if impl is not None else None, impl)
        print("case:  %s\nimpl (every byte of the object a scheduling point):  %s\nmonitor: %s" % (c, impl, why or "ok"))
        return 1 if why else 0
    impl = core.run_sharded([exe], [c])[0]
    mod = core.model_run("mpmchp", [c])[0]
    why = monitor(c, core.parse_trace(impl), impl)
    print("case:  %s\nimpl:  %s\nmodel: %s\nmonitor: %s\nlock-step: %s" %
          (c, impl, mod, why or "ok", "identical" if impl == mod else "DIFFER"))
    return 1 if (why or impl != mod) else 0


TRUSTED = [
    "Coq 8.16.1 kernel + vm_compute (no native_compute)",
    "Print Assumptions of each theorem (recorded under print_assumptions)",
    "extraction: Require Extraction + ExtrOcamlBasic only; no Extract Constant",
    "OCaml driver coq/extract/driver.ml (int <-> Z conversion, line I/O)",
    "rt/rt.c: gcc -fsanitize=thread access hooks as the source of access events, baton scheduler",
    "rt/h_mpmc.c: op language, node pool (LIFO, eager reuse), record pool substituted for calloc, gc callback events",
    "model of mpmc_fifo.h + hazard_pointer.h/.c written by hand (coq/MpmcHp.v); tie = identical per-access traces",
    "SC interleaving of accesses (store_load_barrier is a no-op under SC; TSO is outside this check); "
    "weak CAS modelled as strong (x86 cmpxchg); -O0 instrumented build",
    "qsort: assumed to return a sorted permutation (premise of every theorem, discharged for insertion sort)",
]
ASSUME = ["pushed values are non-NULL (asserted by the C code); a node is pushed by one thread at a time",
          "a thread owns at most one hazard record; counters do not overflow size_t"]
