"""C10 fiber_yield fairness (and the scheduler half of C02): Coq theorems
(Properties_C10.v) + lock-step correspondence of src/fiber_scheduler_wsd.c with
coq/Sched.v + implementation-side monitors (bounded bypass, conservation)."""
import os
import random

from vf import core

THEOREMS = ["yield_bounded_bypass", "yield_poll_loop_progress", "sched_conservation_1thread",
            "yield_starvation_on_schedule_from", "sched_conservation", "sched_only_owner_adds",
            "yield_bounded_bypass_nthreads", "stolen_fiber_runs_on_thief",
            "yield_bounded_bypass_nthreads_no_allowance_refuted"]
SPAWN, YIELD, IDLE, BLOCK, WAKE, BAL, PARK, FLIP = 1, 2, 3, 4, 5, 6, 7, 8
SOURCES = ["src/fiber_scheduler_wsd.c", "src/work_stealing_deque.c"]
TARGET = 1      # 1: schedule() pushes on store_to (current code); 0: schedule_from


L_REST = 3900     # search mode: byte b of the scheduler struct of thread t = 3900 + 1000 t + b (bytes registered otherwise keep their locs)


def parse_case(case):
    v = [int(x) for x in case.split()]
    i = 1 + v[0]
    n = v[i]; i += 1
    progs = []
    for _ in range(n):
        k = v[i]; i += 1
        progs.append([(v[i + 2 * j], v[i + 2 * j + 1]) for j in range(k)])
        i += 2 * k
    return v[1:1 + v[0]], progs


def mt_bypass(progs, tr):
    """(c) N kernel threads, per-thread bypass bound under work stealing (theorem
    yield_bounded_bypass_nthreads), judged soundly from the trace alone.  owner[g] = the
    thread that last made g READY / SAVING (it then schedules g on its own deques) or last
    ran it.  maybe[g] = threads that called load_balance since then: g may have been
    stolen, the interval is not judged (a steal ends it).  While g certainly sits on its
    owner t: hand-outs of other fibers by t <= 2(n-1) + a, a = schedule_from reads of t
    inside its own load_balance calls meanwhile (>= fibers it stole and pushed in front),
    n = max number of fibers that were or may have been on t meanwhile."""
    n = len(progs)
    opidx = [0] * n
    state, armed, owner, maybe, fresh = {}, {}, {}, {}, {}
    bypass, allow, maxn = {}, {}, {}

    def counted(g):
        sv = state.get(g, 0)
        return sv in (1, 2, 5) or (sv == 3 and armed.get(g))

    def elig(g):
        sv = state.get(g, 0)
        return sv == 2 or (sv == 3 and armed.get(g))

    def pop_est(t):
        return sum(1 for g in state if counted(g) and (owner.get(g) == t or t in maybe.get(g, ())))

    def upd_max():
        for u in range(n):
            pu = None
            for g in state:
                if owner.get(g) == u and elig(g) and not maybe.get(g):
                    if pu is None:
                        pu = pop_est(u)
                    maxn[g] = max(maxn.get(g, 0), pu)

    for (t, loc, kind, val) in tr:
        if t < 0 or t >= n:
            continue
        opc = progs[t][opidx[t]][0] if opidx[t] < len(progs[t]) else 0
        if loc == 10 + 2 * t and kind == 9 and opc not in (1, 2, 4, 5, 7, 8):   # load_balance (also inside idle)
            for g in state:
                if owner.get(g) == t:
                    if elig(g):
                        allow[g] = allow.get(g, 0) + 1
                elif counted(g) and state.get(g) != 1:
                    maybe.setdefault(g, set()).add(t)
            upd_max()
        if 200 <= loc < 300 and kind == 19:
            f = loc - 200
            state[f] = val
            if val == 5:
                armed[f] = True
            if val in (2, 5):           # t is about to schedule f on its own store_to
                owner[f], maybe[f], fresh[f] = t, set(), t
                bypass[f], allow[f], maxn[f] = 0, 0, 0
            if val == 1:                # hand-out of f by t
                armed[f] = False
                for g in list(state):
                    if g != f and owner.get(g) == t and elig(g) and not maybe.get(g):
                        if fresh.get(g) == t:       # g was made READY by this very yield: not a bypass
                            fresh[g] = None
                            continue
                        bypass[g] = bypass.get(g, 0) + 1
                        bound = 2 * max(1, maxn.get(g, 0) - 1) + allow.get(g, 0)
                        if bypass[g] > bound:
                            return ("fiber %d sits on thread %d's run queues and was bypassed %d times by that "
                                    "thread (at most %d fibers on it, %d load_balance reads): bound 2(n-1)+a"
                                    % (g, t, bypass[g], maxn.get(g, 0), allow.get(g, 0)))
                owner[f], maybe[f] = t, set()
                bypass[f], allow[f], maxn[f] = 0, 0, 0
            upd_max()
        if kind == 909:
            opidx[t] += 1
            for g in fresh:
                if fresh[g] == t:
                    fresh[g] = None
    return None


def monitor(case, tr, raw):
    """(a) conservation: a fiber runs on at most one thread at a time and every
    run was preceded by its own schedule; a SAVING fiber is never made RUNNING;
    (b) single kernel thread: a fiber that next() may hand out (READY, or WAITING
    again after having been scheduled while SAVING) is bypassed at most 2(n-1)
    times, n = fibers that are running or sit in the run queues (RUNNING, READY,
    SAVING, or flipped back to WAITING while queued)."""
    if tr is None:
        return "implementation produced no trace: %s" % (raw or "")[:80]
    # search mode (RT_CATCHALL=1): accesses to bytes of the object(s) that have no location of their own are
    # scheduling points, not events of the protocol judged here
    tr = [e for e in tr if e[1] < L_REST or e[2] in (909, 919)]
    _, progs = parse_case(case)
    n = len(progs)
    opidx = [0] * n
    running = {}        # fiber -> thread
    state = {}
    armed = {}          # fiber was scheduled while SAVING and has not run since
    bypass = {}
    maxn = {}

    def counted(g):
        sv = state.get(g, 0)
        return sv in (1, 2, 5) or (sv == 3 and armed.get(g))

    def elig(g):
        sv = state.get(g, 0)
        return sv == 2 or (sv == 3 and armed.get(g))

    for (t, loc, kind, val) in tr:
        if kind == 919 and val in (7, 8):
            return "thread %d never finished" % t
        if 200 <= loc < 300 and kind == 19:
            f = loc - 200
            if val == 1 and state.get(f) == 5:
                return "fiber %d made RUNNING while SAVING_STATE_TO_WAIT" % f
            state[f] = val
            if val == 5:
                armed[f] = True
            if val == 1:        # RUNNING on thread t
                if f in running and running[f] != t:
                    return "fiber %d made RUNNING on thread %d while running on thread %d" % (f, t, running[f])
                running[f] = t
                armed[f] = False
            elif f in running and val in (2, 3):
                del running[f]
            if n == 1:
                nr = sum(1 for g in state if counted(g))
                for g in state:
                    if elig(g):
                        maxn[g] = max(maxn.get(g, 0), nr)
                if val == 1:
                    for g in state:
                        if g != f and elig(g):
                            bypass[g] = bypass.get(g, 0) + 1
                            if bypass[g] > 2 * max(1, maxn[g] - 1):
                                return ("fiber %d can be handed out and was bypassed %d times while at most %d "
                                        "fibers were running or queued (bound 2(n-1))" % (g, bypass[g], maxn[g]))
                    bypass[f] = 0
                    maxn[f] = 0
        if kind == 909:
            opidx[t] += 1
    if n > 1:
        return mt_bypass(progs, tr)
    return None


SAVING_PATTERNS = [
    # the only queued fiber is SAVING: next() moves it to store_to and returns NULL (twice), then the flip
    [(SPAWN, 1), (IDLE, 0), (BLOCK, 0), (PARK, 1), (IDLE, 0), (IDLE, 0), (FLIP, 1), (IDLE, 0), (YIELD, 0)],
    # a SAVING fiber among yielding ones, flipped later
    [(SPAWN, 1), (SPAWN, 2), (SPAWN, 3), (IDLE, 0), (BLOCK, 0), (PARK, 3)] + [(YIELD, 0)] * 5 +
    [(FLIP, 3)] + [(YIELD, 0)] * 6,
    # two SAVING fibers, one flipped; wake / park of a fiber that is already queued are refused
    [(SPAWN, 1), (SPAWN, 2), (SPAWN, 3), (SPAWN, 4), (IDLE, 0), (BLOCK, 0), (BLOCK, 0), (PARK, 4), (PARK, 3),
     (YIELD, 0), (YIELD, 0), (FLIP, 4), (WAKE, 4), (PARK, 4), (WAKE, 3), (YIELD, 0), (YIELD, 0), (YIELD, 0),
     (FLIP, 3), (YIELD, 0), (YIELD, 0), (YIELD, 0), (YIELD, 0)],
    # everything SAVING while a fiber keeps yielding (it must keep running), then flips
    [(SPAWN, 1), (SPAWN, 2), (SPAWN, 3), (IDLE, 0), (BLOCK, 0), (BLOCK, 0), (PARK, 3), (PARK, 2),
     (YIELD, 0), (YIELD, 0), (YIELD, 0), (FLIP, 2), (YIELD, 0), (YIELD, 0), (FLIP, 3), (YIELD, 0), (YIELD, 0),
     (YIELD, 0)],
    # fiber ids outside 1..32 are refused
    [(SPAWN, 0), (WAKE, 0), (PARK, 0), (FLIP, 0), (SPAWN, 33), (WAKE, 33), (PARK, 40), (FLIP, 99), (SPAWN, 1),
     (SPAWN, 32), (IDLE, 0), (YIELD, 0), (YIELD, 0)],
]


def gen_cases(ctx, tier):
    rng = random.Random(ctx.seed * 7919 + 10)
    cases = []
    # single kernel thread: n fibers, long yield patterns (the starvation scenario)
    for nf in range(2, 8):
        for rep in range(6 if tier == "quick" else 30):
            prog = [(SPAWN, f) for f in range(1, nf + 1)] + [(IDLE, 0)]
            for _ in range(rng.randint(5, 40)):
                prog.append((rng.choice([YIELD] * 8 + [BLOCK, WAKE, BAL]), rng.randint(1, nf)))
                if prog[-1][0] == BLOCK:
                    prog.append((IDLE, 0))
            prog = prog[:60]
            cases.append(core.fmt_case([3000, TARGET], [prog], []))
    n1 = len(cases)
    # single kernel thread with fibers scheduled while SAVING_STATE_TO_WAIT (park-saving / flip)
    for p in SAVING_PATTERNS:
        cases.append(core.fmt_case([3000, TARGET], [p], []))
    for nf in range(2, 7):
        for rep in range(12 if tier == "quick" else 60):
            prog = [(SPAWN, f) for f in range(1, nf + 1)] + [(IDLE, 0)]
            for _ in range(rng.randint(8, 45)):
                prog.append((rng.choice([YIELD] * 6 + [BLOCK] * 2 + [PARK] * 3 + [FLIP] * 3 + [WAKE, IDLE, BAL]),
                             rng.randint(1, nf)))
                if prog[-1][0] == BLOCK and rng.random() < 0.7:
                    prog.append((rng.choice([PARK, PARK, WAKE]), rng.randint(1, nf)))
            prog = prog[:60]
            cases.append(core.fmt_case([3000, TARGET], [prog], []))
    n2 = len(cases) - n1
    # several kernel threads, each yielding among its own fibers (per-thread bypass bound; occasional load_balance
    # by a running fiber = the stealing allowance; a steal ends the interval of the stolen fiber)
    for nt in (2, 3):
        for rep in range(25 if tier == "quick" else 150):
            progs = []
            per = rng.randint(2, 4)
            for t in range(nt):
                mine = [f for f in range(1, nt * per + 1) if f % nt == t]
                p = [(SPAWN, f) for f in mine] + [(IDLE, 0)]
                for _ in range(rng.randint(10, 40)):
                    p.append((rng.choice([YIELD] * 12 + [BAL, BLOCK, WAKE]), rng.choice(mine)))
                    if p[-1][0] == BLOCK and rng.random() < 0.5:
                        p.append((WAKE, rng.choice(mine)))
                progs.append(p[:60])
            length = rng.randint(50, 40 * sum(len(p) for p in progs))
            cases.append(core.fmt_case([4000, TARGET], progs, core.random_sched(rng, nt, length, rng.randrange(3))))
    n3 = len(cases) - n1 - n2
    nrand = 1200 if tier == "quick" else 30000
    for _ in range(nrand):
        nt = rng.choice([1, 2, 2, 3, 3, 4])
        nfib = rng.randint(2, 12)
        progs = []
        for t in range(nt):
            p = []
            mine = [f for f in range(1, nfib + 1) if f % nt == t]
            for f in mine:
                if rng.random() < 0.8:
                    p.append((SPAWN, f))
            for _ in range(rng.randint(2, 25)):
                p.append((rng.choice([YIELD] * 5 + [IDLE] * 4 + [BLOCK, WAKE, WAKE, BAL, PARK, FLIP]),
                          rng.randint(0 if rng.random() < 0.02 else 1, nfib)))
            progs.append(p[:60])
        length = rng.randint(5, 30 * sum(len(p) for p in progs))
        cases.append(core.fmt_case([4000, TARGET], progs, core.random_sched(rng, nt, length, rng.randrange(3))))
    ctx.coverage["case_distribution"] = {"single_thread_yield_patterns": n1, "single_thread_saving_patterns": n2,
                                         "multi_thread_yield_patterns": n3,
                                         "random_multi_thread": nrand, "total": len(cases)}
    return cases


# --------------------------------------------------------------------------
# monitor-only BIG cases: many more fibers than the model's 32 (harness ops 11 = spawn a further fibers, 12 = a yields
# in a row with one event `t 5001 919 id` per hand-out); judged by monitor_big only, never compared with the model
# --------------------------------------------------------------------------
BIG_SIZES = (40, 100, 130, 200, 300, 600, 1030)
SPAWN_MANY, YIELD_MANY = 11, 12


def big_cases():
    """N ready fibers on kernel thread 0, one scheduler-loop iteration, then 4N yields (whoever runs yields); once alone,
    once with a second kernel thread that has nothing to do.  N spans the sizes at which a length- or
    count-dependent shortcut in fiber_scheduler_next could switch on."""
    cases = []
    for n in BIG_SIZES:
        p0 = [(SPAWN_MANY, n), (IDLE, 0), (YIELD_MANY, 4 * n)]
        cases.append(core.fmt_case([100 * n + 1000, TARGET], [p0], []))
        cases.append(core.fmt_case([100 * n + 1000, TARGET], [p0, []], []))
    return cases


def monitor_big(case, tr, raw):
    """the C10 clause only: every ready fiber is handed out again within 2(n-1) hand-outs of other fibers (n = number
    of ready fibers), and conservation: only existing fibers are handed out, nobody twice without yielding in between"""
    if tr is None:
        return "implementation produced no trace: %s" % (raw or "")[:80]
    _, progs = parse_case(case)
    n = sum(a for (o, a) in progs[0] if o == SPAWN_MANY)
    ids = set(range(33, 33 + n))
    handed = []
    first = None
    opi = 0
    for (t, loc, kind, val) in tr:
        if kind == 919 and loc == 0 and val in (7, 8):
            return "thread %d never finished" % t
        if t != 0:
            continue
        if kind == 909:
            opi += 1
            if opi == 2:            # the scheduler-loop iteration returns the first fiber handed out
                first = val
        if loc == 5001 and kind == 919:
            handed.append(val)
    if first not in ids:
        return "the scheduler loop found no fiber to run although %d are ready (returned %r)" % (n, first)
    seq = [first] + handed
    expect = sum(a for (o, a) in progs[0] if o == YIELD_MANY)
    if len(handed) != expect:
        return "%d yields handed out only %d fibers although %d fibers are ready" % (expect, len(handed), n)
    bound = 2 * (n - 1)
    last = {}           # fiber -> position of its last hand-out; it is ready again from the following hand-out on
    m = len(seq) - 1
    for i, h in enumerate(seq):
        if h not in ids:
            return "next() handed out %r, which is not one of the %d fibers" % (h, n)
        if i and h == seq[i - 1]:
            return "fiber %d was handed out twice in a row (it was running, not queued)" % h
        byp = i - last[h] - 2 if h in last else i
        if byp > bound:
            return ("fiber %d was ready and was bypassed %d times before it ran again (n = %d ready fibers, "
                    "bound 2(n-1) = %d)" % (h, byp, n, bound))
        last[h] = i
    for g in sorted(ids):
        pend = m - last[g] - 1 if g in last else m + 1
        if pend > bound:
            return ("fiber %d is ready and has been bypassed %d times, fibers keep being handed out around it "
                    "(n = %d ready fibers, bound 2(n-1) = %d)" % (g, pend, n, bound))
    return None


def run_big(ctx, exe):
    cases = big_cases()
    impl = core.run_sharded([exe], cases, timeout=900)
    bad = 0
    for c, line in zip(cases, impl):
        why = core.safe_monitor(monitor_big, c, core.parse_trace(line) if line is not None else None, line)
        if why:
            bad += 1
            if bad <= 3:
                core.report_violation(ctx, "sched-big", c, why, (line or "")[:4000])
    return len(cases), bad


def build(ctx):
    return core.build_harness(ctx, "h_sched", "h_sched.c", repo_sources=SOURCES)


def corpus():
    p = os.path.join(core.VERIF, "corpus", "C10.txt")
    try:
        return [l.strip() for l in open(p) if l.strip() and not l.startswith("#")]
    except OSError:
        return []


def run(ctx):
    ctx.trusted = TRUSTED
    core.coq_property(ctx, "Properties_C10.v", THEOREMS)
    exe = build(ctx)
    if exe:
        cases = corpus() + gen_cases(ctx, ctx.tier)
        ok = core.correspond(ctx, "sched", "sched", exe, cases, monitor)
        st = ctx.stats["sched"]
        ctx.coverage.update({"traces_validated_against_impl": st["cases"] - st["differ"],
                             "evaluations": st["cases"], "distinct_nontrivial": len(set(cases)),
                             "rule": "case = (per kernel thread: spawn/yield/block/wake/idle/balance program, schedule); "
                                     "all generated cases are distinct programs with at least two fibers"})
        if (not ok or ctx.failures) and not ctx.violations:
            search(ctx, exe)
        elif not ctx.violations:
            nb, bad = run_big(ctx, exe)      # cheap (about 1 s): in both tiers
            ctx.oblige("monitor:sched-big(%d runs)" % nb, bad == 0,
                       "%d runs with 40..1030 ready fibers judged a violation" % bad)
            ctx.coverage["sched_big_runs"] = nb
    core.init_contract(ctx, ["fiber_scheduler_wsd"])
    runtime_layer(ctx)
    core.finish(ctx, extra_assumptions=ASSUME)


def search(ctx, exe):
    c2 = core.Ctx(ctx.pid, "thorough", ctx.seed + 1000)
    try:
        cases = gen_cases(c2, "thorough")[:20000]
    finally:
        c2.cleanup()
    # RT_CATCHALL: every byte of every scheduler struct is a scheduling point (fields the model does not know included)
    scases, impl = core.run_search(ctx, exe, cases)   # plain schedules first, then with every byte of the object a scheduling point
    for c, line in zip(scases, impl):
        why = core.safe_monitor(monitor, c, core.parse_trace(line) if line is not None else None, line)
        if why:
            core.report_violation(ctx, "sched+catchall", c, why, line)
            if len(ctx.violations) >= 3:
                break
    if not ctx.violations:
        run_big(ctx, exe)


def rt_bypass_monitor(case, tr, raw):
    """C10 on the whole real runtime with ONE kernel thread (no stealing to mask starvation): between the moment a fiber
    is queued as ready (schedule event) and the moment the run queue hands it out, at most 2(n-1) other hand-outs may
    happen, n = number of fibers that exist (the bound of yield_bounded_bypass)."""
    if tr is None:
        return "implementation produced no trace: %s" % (raw or "")[:80]
    nfib = 0
    waiting = {}      # queued fiber -> hand-outs of other fibers since it was queued
    for (t, loc, kind, val) in tr:
        if kind == -9:
            return "the runtime crashed (signal %d)" % val
        if kind != 919:
            continue
        if loc in (957, 958):
            nfib += 1
        elif loc == 951:
            waiting.setdefault(val, 0)
        elif loc == 952:
            waiting.pop(val, None)
            bound = 2 * max(nfib - 1, 1)
            for g in waiting:
                waiting[g] += 1
                if waiting[g] > bound:
                    return ("ready fiber %d was bypassed %d times by the run queue of its (only) kernel thread while %d fibers "
                            "exist (bound 2(n-1) = %d)" % (g, waiting[g], nfib, bound))
        elif loc == 956:
            nfib = max(nfib - 1, 1)
            waiting.pop(val, None)
    return None


def runtime_layer(ctx):
    """the scheduler as the runtime uses it (fiber_manager_yield, the wake-up paths of the blocking primitives, the
    deferred re-queue of a yielder), which rt/h_sched.c reproduces by hand: whole-runtime runs on ONE kernel thread with
    yield-pollers, a victim that yields once, and pairs of fibers that keep waking each other (two-party barrier, mutex
    and condition hand-offs), judged by the bypass oracle above and by the C01 monitor."""
    from vf.props import C01
    exe = C01.build(ctx)
    if not exe:
        return
    rng = random.Random(ctx.seed * 7919 + 1010)
    cases = []
    n = 60 if ctx.tier == "quick" else 1500
    for _ in range(n):
        k = rng.randint(4, 40)
        progs = [[(24, 0)] * k, [(24, 0)] * k]                       # the wake chain
        progs.append([(1, 0)] * rng.randint(1, 3))                    # the victim: yields, then is done
        for _f in range(rng.randint(0, 3)):                           # more yielders / lockers
            progs.append([(rng.choice([1, 1, 2, 3, 4, 5]), rng.randint(0, 1)) for _ in range(rng.randint(1, 6))])
        rng.shuffle(progs)
        cases.append(core.fmt_case([200000, 1], progs, []))
    n1 = len(cases)
    # N kernel threads: a fiber that unlocks a contended mutex and then polls a flag with fiber_yield() until the woken
    # waiter has run ("yield-based polling loops cannot starve the very fiber they wait for"), other fibers keeping the
    # other kernel threads busy; judged by the runtime oracle (a runnable fiber queued on a thread must be handed out
    # within a bounded number of that thread's yields)
    for _ in range(6 * n):
        nk = rng.choice([2, 2, 3])
        k = rng.randint(0, 4)
        progs = [[(2, 1)] + [(1, 0)] * k + [(3, 1), (27, 0)],            # U: lock, ..., unlock (wakes X), poll
                 [(2, 1), (28, 0), (3, 1)]]                              # X: lock (blocks), set the flag, unlock
        for _f in range(rng.choice([0, 0, 0, 1])):
            progs.append([(1, 0)] * rng.randint(10, 50))                 # sometimes a busy yielder
        rng.shuffle(progs)
        cases.append(core.fmt_case([200000, nk], progs,
                                   core.random_sched(rng, nk, rng.randint(50, 3000), rng.choice([0, 1, 2, 3, 3]))))
    # a fiber woken by another fiber's completion (join) that then yield-polls for a third fiber while busy yielders
    # share the runtime: the woken fiber must keep being re-queued by its own yields (more kernel threads than busy
    # fibers at times, so that an idle thread can take the woken fiber the instant it is queued)
    for i in range(10 * n):
        nk = rng.choice([3, 4, 4])
        waitop = [(10, rng.randint(0, 1))] * rng.randint(1, 3)
        if i % 2:
            progs = [waitop + [(27, 0)], [(1, 0)] * rng.randint(0, 6) + [(28, 0)]]
            for _f in range(rng.choice([0, 1, 1, 2])):
                progs.append([(1, 0)] * rng.randint(5, 40))
        else:
            progs = [waitop + [(1, 0)] * rng.randint(2, 10) for _ in range(rng.randint(1, 3))]
        rng.shuffle(progs)
        cases.append(core.fmt_case([200000, nk], progs,
                                   core.random_sched(rng, nk, rng.randint(50, 2500), rng.choice([0, 1, 1, 2, 3, 3]))))
    # stall sweep: the two kernel threads alternate for p steps, then ONE of them runs alone for a long stretch (the other
    # is pre-empted wherever it happens to be: e.g. between queueing itself on the mutex and completing its switch), then
    # they alternate again; every p, both choices of the running thread, both creation orders
    for order in (0, 1):
        for k in (0, 2):
            for p in range(0, 500, 2 if ctx.tier == "quick" else 1):
                for B in (0, 1):
                    progs = [[(2, 1)] + [(1, 0)] * k + [(3, 1), (27, 0)], [(2, 1), (28, 0), (3, 1)]]
                    if order:
                        progs.reverse()
                    cases.append(core.fmt_case([200000, 2], progs, [0, 1] * (p // 2) + [B] * 900 + [0, 1] * 300))
    impl = core.run_sharded([exe], cases, timeout=900)
    bad = 0
    for i, (c, line) in enumerate(zip(cases, impl)):
        tr = core.parse_trace(line) if line is not None else None
        why = (core.safe_monitor(rt_bypass_monitor, c, tr, line) if i < n1 else None) or core.safe_monitor(C01.monitor, c, tr, line)
        if why:
            bad += 1
            if bad <= 3:
                core.report_violation(ctx, "kernel", c, "whole-runtime fairness layer: " + why, line)
    ctx.coverage["runtime_fairness_layer_t2"] = {"runs": len(cases), "violations": bad}
    ctx.oblige("fairness-t2(%d runs)" % len(cases), bad == 0, "%d runs judged a violation" % bad)


def replay(ctx, payload):
    if payload.get("harness") == "kernel":
        from vf.props import C01
        exe = C01.build(ctx)
        c = payload.get("case")
        line = core.run_sharded([exe], [c], timeout=900)[0]
        tr = core.parse_trace(line) if line is not None else None
        why = core.safe_monitor(rt_bypass_monitor, c, tr, line) or core.safe_monitor(C01.monitor, c, tr, line)
        print("case: %s\nmonitor: %s" % (c[:300], why or "ok"))
        return 1 if why else 0
    if payload.get("harness") == "h_init":
        return core.replay_init(ctx, payload)
    exe = build(ctx)
    c = payload.get("case")
    if not exe or not c:
        print("nothing to replay (no concrete case in this file)")
        return 2
    if payload.get("harness") == "sched-big":
        impl = core.run_sharded([exe], [c], timeout=900)[0]
        why = core.safe_monitor(monitor_big, c, core.parse_trace(impl) if impl is not None else None, impl)
        print("case:  %s\nimpl (hand-out events only shown):  %s\nmonitor: %s" %
              (c, " ".join(str(e[3]) for e in (core.parse_trace(impl) or []) if e[1] == 5001)[:3000], why or "ok"))
        return 1 if why else 0
    if str(payload.get("harness", "")).endswith("+catchall"):
        impl = core.run_sharded(["env", "RT_CATCHALL=1", exe], [c])[0]
        why = core.safe_monitor(monitor, c, core.parse_trace(impl) if impl is not None else None, impl)
        print("case:  %s\nimpl (every byte of the object a scheduling point):  %s\nmonitor: %s" % (c, impl, why or "ok"))
        return 1 if why else 0
    impl = core.run_sharded([exe], [c])[0]
    mod = core.model_run("sched", [c])[0]
    why = monitor(c, core.parse_trace(impl), impl)
    print("case:  %s\nimpl:  %s\nmodel: %s\nmonitor: %s\nlock-step: %s" %
          (c, impl, mod, why or "ok", "identical" if impl == mod else "DIFFER"))
    return 1 if (why or impl != mod) else 0


TRUSTED = [
    "Coq 8.16.1 kernel + vm_compute (no native_compute)",
    "Print Assumptions of each theorem (recorded under print_assumptions)",
    "extraction: ExtrOcamlBasic only; OCaml driver",
    "rt/rt.c baton scheduler; rt/h_sched.c reproduces the scheduler-visible actions of fiber_manager_yield / "
    "switch_to / do_maintenance / thread_func by hand (the manager itself is checked on the T1 machine)",
    "deque operations atomic (C02 deque theorems); hand-written model coq/Sched.v; tie = identical traces",
]
ASSUME = ["deque operations are atomic (C02, deque half)",
          "the bypass bound is stated for one kernel thread plus the stealing allowance of DESIGN.md C10"]
