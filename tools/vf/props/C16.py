"""C16 lock-free ring buffer: Coq theorems (Properties_C16.v) + lock-step
correspondence of include/lockfree_ring_buffer.h with coq/Ring.v + monitors."""
import random

from vf import core

THEOREMS = ["ring_bounded", "ring_no_overwrite", "ring_exactly_once_fifo",
            "ring_pop_returns_oldest", "ring_failure_justified", "ring_shift_invariant"]
PUSH, POP = 1, 2
STEPS = 5  # accesses of a successful trypush / trypop


L_REST = 3900     # search mode: byte b of the ring buffer object = 3900 + b (bytes registered otherwise keep their locs)


def monitor(case, tr, raw):
    """property oracle on an implementation trace (None = fine)."""
    if tr is None:
        return "implementation produced no trace: %s" % (raw or "")[:80]
    # search mode (RT_CATCHALL=1): accesses to bytes of the object(s) that have no location of their own are
    # scheduling points, not events of the protocol judged here
    tr = [e for e in tr if e[1] < L_REST or e[2] in (909, 919)]
    v = [int(x) for x in case.split()]
    k, start = v[1], v[2]
    size = 1 << k
    nthreads = v[1 + v[0]]
    progs, i = [], 2 + v[0]
    for _ in range(nthreads):
        n = v[i]; i += 1
        progs.append([(v[i + 2 * j], v[i + 2 * j + 1]) for j in range(n)])
        i += 2 * n
    high = low = start
    buf = {}
    pushed, npop = [], 0
    opidx = [0] * nthreads          # completed calls
    inop = [False] * nthreads
    window_clean = [True] * nthreads  # no other thread mid-call during my call
    state_at_start = [None] * nthreads
    popclaim = {}
    for (t, loc, kind, val) in tr:
        if kind == 919:
            return "thread %d never finished" % t
        if kind != 909 and not inop[t]:
            inop[t] = True
            window_clean[t] = not any(inop[u] for u in range(nthreads) if u != t)
            state_at_start[t] = (high, low)
            for u in range(nthreads):
                if u != t and inop[u]:
                    window_clean[u] = False
        if kind == 73 and loc == 0:
            op = progs[t][opidx[t]]
            if op[0] != PUSH:
                return "high advanced by a non-push"
            pushed.append(op[1] + 1)
            high += 1
            if high - low > size:
                return "capacity exceeded: high-low=%d size=%d" % (high - low, size)
        elif kind == 72 and loc == 1:
            if npop >= len(pushed):
                return "pop claimed an index never pushed"
            popclaim[t] = pushed[npop]
            npop += 1
            low += 1
        elif kind == 19 and loc >= 10:
            cur = buf.get(loc, 0)
            if val != 0 and cur != 0:
                return "slot %d overwritten while holding %d" % (loc - 10, cur)
            if val == 0 and cur == 0:
                return "slot %d cleared twice" % (loc - 10)
            buf[loc] = val
        elif kind == 909:
            op = progs[t][opidx[t]]
            if op[0] == POP:
                if val != 0:
                    if popclaim.get(t) != val:
                        return "pop returned %d, FIFO order requires %s" % (val, popclaim.get(t))
                    popclaim.pop(t, None)
                elif t in popclaim:
                    return "pop claimed a slot but returned NULL"
            if val == 0 and window_clean[t]:
                h0, l0 = state_at_start[t]
                if op[0] == PUSH and h0 - l0 < size:
                    return "trypush failed alone on a non-full buffer"
                if op[0] == POP and h0 - l0 > 0:
                    return "trypop failed alone on a non-empty buffer"
            inop[t] = False
            opidx[t] += 1
    return None


def gen_cases(ctx, tier):
    rng = random.Random(ctx.seed * 7919 + 16)
    cases = []
    # exhaustive: 2 slots, prefill 0..2, every pair of calls, every interleaving
    for pre in (0, 1, 2):
        for a in (PUSH, POP):
            for b in (PUSH, POP):
                p0 = [(PUSH, 100 + j) for j in range(pre)] + [(a, 7)]
                p1 = [(b, 8)]
                for il in core.interleavings([STEPS, STEPS]):
                    cases.append(core.fmt_case([1, 0, 200], [p0, p1], [0] * (STEPS * pre) + il))
    n_ex = len(cases)
    nrand = 3000 if tier == "quick" else 60000
    for _ in range(nrand):
        k = rng.choice([1, 1, 2, 3])
        nt = rng.choice([2, 2, 3, 3, 4])
        progs = []
        for t in range(nt):
            n = rng.randint(1, 6)
            progs.append([(rng.choice([PUSH, PUSH, POP]), rng.randint(1, 50)) for _ in range(n)])
        length = rng.randint(5, STEPS * sum(len(p) for p in progs) + 5)
        cases.append(core.fmt_case([k, rng.choice([0, 0, 5, 1000]), 400], progs,
                                   core.random_sched(rng, nt, length, rng.randrange(3))))
    # counters that start just below a power-of-two boundary and cross it during the run: real start = B - d,
    # reported values debiased (rt_bias) so that the model run from the small start s = -d mod 2^k is the reference
    nwrap = 400 if tier == "quick" else 6000
    for i in range(nwrap):
        k = rng.choice([1, 1, 2, 3])
        B = rng.choice([1 << 32, 1 << 32, 1 << 31, 1 << 16, 1 << 33])   # < 2^40: larger values are reported as opaque pointers
        d = rng.randint(0, 5)
        s0 = (-d) % (1 << k)
        nt = rng.choice([1, 2, 2, 3])
        progs = []
        for t in range(nt):
            n = rng.randint(2, 8)
            progs.append([(rng.choice([PUSH, PUSH, POP, POP]), rng.randint(1, 50)) for _ in range(n)])
        length = rng.randint(5, STEPS * sum(len(p) for p in progs) + 5)
        cases.append(core.fmt_case([k, s0, 400, B - d - s0], progs,
                                   core.random_sched(rng, nt, length, rng.randrange(3)) if nt > 1 else []))
    # a claim stalled across a lap: thread 0 is stopped inside a call (after its CAS on low / high, before its slot
    # store), a runner takes the counters once round the ring with balanced push/pop pairs, then two (or three) threads
    # race on the slots next to and at the stalled one
    nlap = 600 if tier == "quick" else 12000
    for i in range(nlap):
        k = rng.choice([1, 2, 2, 2, 3])
        size = 1 << k
        stall_pop = rng.random() < 0.6
        p0 = [(PUSH, 41), (POP, 0)] if stall_pop else [(PUSH, 41)]
        done0 = STEPS if stall_pop else 0
        m = max(0, size - rng.choice([3, 2, 2, 2, 1, 0]))
        runner = []
        for j in range(m):
            runner += [(PUSH, 10 + j), (POP, 0)]
        if not stall_pop:
            runner = [(POP, 0)] * rng.choice([0, 1]) + runner
        nrace = rng.choice([2, 2, 3])
        racers = [[(rng.choice([PUSH, PUSH, PUSH, POP]), 30 + 3 * r + j) for j in range(rng.randint(1, 2))] for r in range(nrace)]
        progs = [p0, runner] + racers
        sched = [0] * (done0 + rng.randint(1, STEPS)) + [1] * (STEPS * len(runner) + 2)
        sched += [rng.randrange(2, 2 + nrace) for _ in range(STEPS * 2 * nrace + 4)]
        cases.append(core.fmt_case([k, rng.choice([0, 0, 3]), 400], progs, sched))
    # sequential programs (one thread): results must match the sequential queue
    for _ in range(200):
        progs = [[(rng.choice([PUSH, POP]), rng.randint(1, 9)) for _ in range(rng.randint(1, 12))]]
        cases.append(core.fmt_case([rng.choice([1, 2]), 0, 400], progs, []))
    if tier == "thorough":
        ils = core.interleavings([STEPS, STEPS, STEPS], limit=None)
        for il in rng.sample(ils, 40000):
            a, b, c = (rng.choice([PUSH, POP]) for _ in range(3))
            pre = rng.choice([0, 1, 2])
            p0 = [(PUSH, 100 + j) for j in range(pre)] + [(a, 7)]
            cases.append(core.fmt_case([1, 0, 300], [p0, [(b, 8)], [(c, 9)]], [0] * (STEPS * pre) + il))
    ctx.coverage["case_distribution"] = {"exhaustive_2thread_interleavings": n_ex,
                                         "random_programs": nrand, "sequential": 200, "counters_crossing_2^16/31/32/33": nwrap, "claim_stalled_across_a_lap": nlap,
                                         "total": len(cases)}
    return cases


def build(ctx):
    return core.build_harness(ctx, "h_ring", "h_ring.c")


def run(ctx):
    ctx.trusted = TRUSTED
    core.coq_property(ctx, "Properties_C16.v", THEOREMS)
    exe = build(ctx)
    if exe:
        cases = corpus(ctx) + gen_cases(ctx, ctx.tier)
        ok = core.correspond(ctx, "ring", "ring", exe, cases, monitor)
        st = ctx.stats["ring"]
        ctx.coverage.update({"traces_validated_against_impl": st["cases"] - st["differ"],
                             "evaluations": st["cases"], "distinct_nontrivial": st["nontrivial"],
                             "rule": "case = (capacity, programs of trypush/trypop per thread, schedule); "
                                     "non-trivial = at least one CAS failure or failed call in the implementation trace"})
        if not ok or ctx.failures:
            search(ctx, exe)
    core.init_contract(ctx, ["lockfree_ring_buffer"])  # rt/h_init.c: real init on dirty memory
    core.finish(ctx, extra_assumptions=ASSUME)


def search(ctx, exe):
    """something stopped checking: look for a concrete property failure on the
    implementation with more schedules (monitor only)."""
    if ctx.violations:
        return
    rng_ctx = core.Ctx(ctx.pid, "thorough", ctx.seed + 1000)
    try:
        cases = gen_cases(rng_ctx, "thorough")[:30000]
    finally:
        rng_ctx.cleanup()
    # RT_CATCHALL: every byte of the ring buffer object is a scheduling point (fields the model does not know included)
    scases, impl = core.run_search(ctx, exe, cases)   # plain schedules first, then with every byte of the object a scheduling point
    for c, line in zip(scases, impl):
        why = core.safe_monitor(monitor, c, core.parse_trace(line) if line is not None else None, line)
        if why:
            core.report_violation(ctx, "ring+catchall", c, why, line)
            if len(ctx.violations) >= 3:
                break


def corpus(ctx):
    import os
    p = os.path.join(core.VERIF, "corpus", "C16.txt")
    try:
        return [l.strip() for l in open(p) if l.strip() and not l.startswith("#")]
    except OSError:
        return []


def replay(ctx, payload):
    if payload.get("harness") == "h_init":
        return core.replay_init(ctx, payload)
    exe = build(ctx)
    c = payload.get("case")
    if not exe or not c:
        print("nothing to replay (no concrete case in this file)")
        return 2
    if str(payload.get("harness", "")).endswith("+catchall"):
        impl = core.run_sharded(["env", "RT_CATCHALL=1", exe], [c])[0]
        why = core.safe_monitor(monitor, c, core.parse_trace(impl) if impl is not None else None, impl)
        print("case:  %s\nimpl (every byte of the object a scheduling point):  %s\nmonitor: %s" % (c, impl, why or "ok"))
        return 1 if why else 0
    impl = core.run_sharded([exe], [c])[0]
    mod = core.model_run("ring", [c])[0]
    why = monitor(c, core.parse_trace(impl), impl)
    print("case:  %s\nimpl:  %s\nmodel: %s\nmonitor: %s\nlock-step: %s" %
          (c, impl, mod, why or "ok", "identical" if impl == mod else "DIFFER"))
    return 1 if (why or impl != mod) else 0


TRUSTED = [
    "Coq 8.16.1 kernel + vm_compute (no native_compute)",
    "Print Assumptions of each theorem (recorded under print_assumptions)",
    "extraction: Require Extraction + ExtrOcamlBasic only (bool/option/unit/list/prod/sumbool); no Extract Constant",
    "OCaml driver coq/extract/driver.ml (int <-> Z conversion, line I/O)",
    "rt/rt.c: gcc -fsanitize=thread access hooks as the source of access events, baton scheduler",
    "model of lockfree_ring_buffer.h written by hand (coq/Ring.v); tie = identical per-access traces",
    "SC interleaving of accesses; weak CAS modelled as strong (x86 cmpxchg); -O0 instrumented build",
]
ASSUME = ["counters high/low do not reach 2^64 (unbounded nat in the model)",
          "pushed pointers are non-NULL (asserted by the C code)"]
