"""C04 join / tryjoin / detach vs. completion of the target fiber: Coq theorems
(Properties_C04.v) + lock-step correspondence of the real src/fiber.c
(fiber_mark_completed, fiber_join, fiber_tryjoin, fiber_detach, body of
fiber_join_routine) and src/fiber_manager.c (set_and_wait, clear_or_wait,
done_fiber reclamation) on the T1 machine with coq/Join.v (client of coq/T1K.v)
+ implementation-side monitor (return-value oracle, reclaim oracle, quarantine
of the reclaimed fiber).

Known findings (known_findings.json, entries with property C04) are matched by the
*cause* the monitor derives from the implementation trace, never by property id."""
import json
import os
import random

from vf import core

THEOREMS = ["join_success_before_finish_prefix_refuted",
            "join_success_after_finish_with_value",
            "join_two_successes_refuted",
            "join_at_most_one_success_partial",
            "join_detached_fails",
            "reclaim_once_after_finish_and_release",
            "no_touch_after_reclaim_refuted",
            "no_touch_after_reclaim_partial",
            "join_detach_race_strands_target_refuted",
            "detach_steals_from_finishing_target_refuted"]
JOIN, TRY, DETACH, YIELD, FINISH = 1, 2, 3, 4, 5
OPNAME = {JOIN: "join", TRY: "tryjoin", DETACH: "detach", YIELD: "yield", FINISH: "finish"}
T1_SOURCES = ["src/fiber_manager.c", "src/fiber.c", "src/fiber_mutex.c", "src/fiber_spinlock.c",
              "src/hazard_pointer.c"]
T1_FLAGS = ["-Dpthread_create=t1_pthread_create", "-Dfree=h_join_free"]
L_DS, L_JI, L_RES, L_ST, L_RECL = 500, 501, 510, 200, 600
TARGET_FIELDS = (L_DS, L_JI, L_RES, L_ST)
L_REST, REST_BYTES = 3900, 4096     # search mode (RT_CATCHALL=1): byte b of the target fiber_t not registered otherwise = L_REST + b
FNAME = 1000


def parse_case(case):
    v = [int(x) for x in case.split()]
    i = 1 + v[0]
    params = v[1:i]
    n = v[i]; i += 1
    progs = []
    for _ in range(n):
        k = v[i]; i += 1
        progs.append([(v[i + 2 * j], v[i + 2 * j + 1]) for j in range(k)])
        i += 2 * k
    return params, progs


def analyse(case, tr):
    """Replays an implementation trace against the property.  Returns a list
    of (text, cause) - cause is the protocol-level reason the monitor can name:
      'detach-took-joiner'   a fiber_detach took a sleeping JOINER out of join_info (F-C04a before 4ff1f32; F-C04e)
      'join-took-joiner'     a fiber_join/fiber_tryjoin took a sleeping JOINER out of join_info (F-C04c)
      'overlap-release'      an operation that began before the handle was released ran on after
                             the release and touched / spun on the reclaimed fiber (F-C04b)
      'join-over-detach'     a fiber_join exchanged WAIT_TO_JOIN over DETACHED (F-C04d)
      None                   anything else."""
    params, progs = parse_case(case)
    n = len(progs)
    unguarded = len(params) > 1 and params[1] == 1
    out = []
    nret = [0] * n                 # calls returned (or skipped) so far per thread
    op_first = [None] * n          # trace index of the first access of the call in progress
    finished = None                # value of the target's result store
    finish_idx = None
    done_idx = None                # target wrote state = DONE
    yield_after_done = None
    reclaim_idx = None
    nreclaim = 0
    released_idx = None            # first exchange that joins or detaches the target
    detach_done = []               # trace indexes at which a detach returned SUCCESS
    handle_release_idx = None      # first SUCCESS of join/tryjoin/detach (handle given up)
    successes = []                 # (thread, call, value, idx)
    took_joiner_by = {}            # joiner tid -> (thread, op) that took it from join_info
    registered = None              # joiner whose exchange saw NONE and that has not returned
    ds_shadow = 0
    join_over_detach = None
    touched = []
    last_ev = {}

    def cur_op(t):
        k = nret[t]
        return progs[t][k][0] if k < len(progs[t]) else None

    misuse_idx = None              # first access of a handle call issued after the handle was given up
    for idx, (t, loc, kind, val) in enumerate(tr):
        if kind == 919 and loc == 0 and val in (7, 8):
            continue
        if (kind not in (909, 919) and op_first[t] is None and handle_release_idx is not None
                and cur_op(t) in (JOIN, TRY, DETACH)):
            # only possible in unguarded mode: the caller uses a handle it has given up (API misuse);
            # what happens from here on is outside the property
            misuse_idx = idx
            break
        if kind == 909:
            k = loc - 1
            op = progs[t][k][0] if 0 <= k < len(progs[t]) else None
            nret[t] = k + 1
            first = op_first[t]
            op_first[t] = None
            if val == -1:
                continue
            if op in (JOIN, TRY) and val >= 100:
                res = val - 100
                successes.append((t, k + 1, res, idx))
                cause = None
                if t in took_joiner_by:
                    cause = "detach-took-joiner" if took_joiner_by[t][1] == DETACH else "join-took-joiner"
                    how = " [joiner %d had been taken from join_info by the %s of thread %d while it was registered]" % (
                        t, OPNAME[took_joiner_by[t][1]], took_joiner_by[t][0])
                else:
                    how = ""
                if finished is None:
                    out.append(("join returned SUCCESS before the target finished: thread %d call %d (%s) result %d%s"
                                % (t, k + 1, OPNAME[op], res, how), cause))
                elif res != finished:
                    out.append(("join returned SUCCESS with result %d but the target finished with %d: thread %d call %d (%s)%s"
                                % (res, finished, t, k + 1, OPNAME[op], how), cause))
                if len(successes) == 2:
                    a, b = successes
                    c2 = None
                    for (tt, _, _, _) in successes:
                        if tt in took_joiner_by and took_joiner_by[tt][1] in (JOIN, TRY):
                            c2 = "join-took-joiner"
                    out.append(("two joins returned SUCCESS: thread %d call %d and thread %d call %d%s"
                                % (a[0], a[1], b[0], b[1],
                                   " [a sleeping joiner was taken from join_info by another join/tryjoin]" if c2 else ""), c2))
                if first is not None and any(d < first for d in detach_done):
                    out.append(("a %s that started after a completed detach returned SUCCESS: thread %d call %d"
                                % (OPNAME[op], t, k + 1), None))
            if op == DETACH and val == 100:
                detach_done.append(idx)
            if op in (JOIN, TRY, DETACH) and val >= 100 and handle_release_idx is None:
                handle_release_idx = idx
            if registered == t:
                registered = None
            continue
        if kind == 919:
            if loc == L_RECL:
                nreclaim += 1
                if nreclaim > 1:
                    out.append(("the target fiber was reclaimed twice", None))
                reclaim_idx = idx
                if done_idx is None:
                    out.append(("the target fiber was reclaimed before its state became DONE", None))
                elif yield_after_done is None:
                    out.append(("the target fiber was reclaimed before it switched away", None))
                if released_idx is None:
                    out.append(("the target fiber was reclaimed although it was neither joined nor detached", None))
            continue
        # a real access
        if L_REST <= loc < L_REST + REST_BYTES:
            # a byte of the target that the model does not know (search mode only): not part of the protocol replayed
            # here, but touching it after the reclaim is a use-after-free like any other
            if reclaim_idx is not None:
                touched.append((t, cur_op(t), loc, handle_release_idx is None or
                                (op_first[t] is not None and op_first[t] < handle_release_idx)))
            continue
        if op_first[t] is None:
            op_first[t] = idx
        op = cur_op(t)
        last_ev.setdefault(t, []).append((loc, kind, val))
        if reclaim_idx is not None and loc in TARGET_FIELDS:
            began_before_release = handle_release_idx is None or (op_first[t] is not None and op_first[t] < handle_release_idx)
            touched.append((t, op, loc, began_before_release))
        if t == 0 and loc == L_RES and kind == 33:
            finished, finish_idx = val, idx
        if t == 0 and loc == L_ST and kind == 19 and val == 4:
            done_idx = idx
        if t == 0 and loc == 900 and done_idx is not None and yield_after_done is None:
            yield_after_done = idx
        if loc == L_DS and kind == 45:
            new = {FINISH: 1, JOIN: 2, TRY: 2, DETACH: 3}.get(op)
            if op == DETACH or (op in (JOIN, TRY) and val in (0, 1)):
                if released_idx is None:
                    released_idx = idx
            if op == JOIN and val == 0:
                registered = t
            if op == JOIN and val == 3 and join_over_detach is None:
                join_over_detach = (t, nret[t] + 1)
            ds_shadow = new
        if loc == L_JI and kind == 45 and val >= FNAME:
            j = val - FNAME
            if j != 0 and t != 0:
                took_joiner_by[j] = (t, op)

    # stuck threads
    for (t, loc, kind, val) in ([] if misuse_idx is not None else tr):
        if kind == 919 and loc == 0 and val in (7, 8):
            evs = last_ev.get(t, [])
            spinning_cw = val == 8 and len([e for e in evs[-12:] if e[0] == L_JI and e[1] == 45 and e[2] == 0]) >= 2
            op = cur_op(t)
            if spinning_cw:
                cause = None
                stolen = [j for j in took_joiner_by]
                if join_over_detach is not None and t == 0:
                    cause = "join-over-detach"
                elif stolen:
                    cause = "detach-took-joiner" if any(took_joiner_by[j][1] == DETACH for j in stolen) else "join-took-joiner"
                elif t != 0 and handle_release_idx is not None and not unguarded:
                    cause = "overlap-release"
                elif t != 0 and unguarded:
                    cause = "overlap-release"
                who = "the target" if t == 0 else "thread %d (%s)" % (t, OPNAME.get(op, "?"))
                extra = ""
                if cause == "join-over-detach":
                    extra = " [the join of thread %d call %d exchanged WAIT_TO_JOIN over DETACHED]" % join_over_detach
                elif cause in ("detach-took-joiner", "join-took-joiner"):
                    j = stolen[0]
                    extra = " [joiner %d had been taken from join_info by the %s of thread %d]" % (
                        j, OPNAME[took_joiner_by[j][1]], took_joiner_by[j][0])
                out.append(("%s spins forever in clear_or_wait on an empty join_info%s%s"
                            % (who, " of the reclaimed fiber" if reclaim_idx is not None and t != 0 else "", extra), cause))
            elif val == 7 and t == 0 and finished is not None and (detach_done or successes):
                out.append(("the finished target stays blocked forever although it was %s: it is never reclaimed"
                            % ("detached" if detach_done else "joined"), None))
            elif val == 7 and t != 0 and reclaim_idx is not None:
                out.append(("thread %d stays blocked in %s although the target was reclaimed" % (t, OPNAME.get(op, "?")), None))
    for (t, op, loc, began) in touched[:1]:
        cause = "overlap-release"
        out.append(("thread %d (%s) accessed field %d of the target after the fiber was reclaimed%s"
                    % (t, OPNAME.get(op, "?"), loc,
                       " [the call had started before the handle was released]" if began else
                       " [call issued after the handle was released]"), cause if began else None))
    return out


def monitor(case, tr, raw):
    if tr is None:
        return "implementation produced no trace: %s" % (raw or "")[:80]
    if (raw or "").strip() == "-1":
        return None
    aux = [e for e in tr if e[2] == 979]
    tr = [e for e in tr if e[2] != 979]
    res = analyse(case, tr)
    # "memory and stack are reclaimed exactly once": fiber_destroy releases the stack (fiber_context_destroy), the
    # fiber's queue node and the control block; the first two are monitor-only observations of the T1 machine
    if any(loc == 600 and kind == 919 for (_, loc, kind, _) in tr):
        nstack = sum(1 for (_, loc, _, val) in aux if loc == 960 and val == 1000)
        nnode = sum(1 for (_, loc, _, val) in aux if loc == 961)
        if nstack != 1:
            res = list(res or []) + [("the target's control block was reclaimed but its stack was released %d times" % nstack, None)]
        if nnode != 1:
            res = list(res or []) + [("the target's control block was reclaimed but its queue node was released %d times" % nnode, None)]
    if not res:
        return None
    # unknown causes first, so that a new violation is never hidden behind a known one
    res.sort(key=lambda r: r[1] is not None)
    text, cause = res[0]
    return "%s {cause=%s}" % (text, cause or "unknown")


# --------------------------------------------------------------------------
# known findings (committed file; matched by cause + text shape + API history)
# --------------------------------------------------------------------------
def _has(case, op, min_threads=1):
    _, progs = parse_case(case)
    return sum(1 for p in progs[1:] if any(o == op for (o, _) in p)) >= min_threads


def _clients_with_handle_ops(case):
    _, progs = parse_case(case)
    return sum(1 for p in progs[1:] if any(o in (JOIN, TRY, DETACH) for (o, _) in p))


def _m_e(label, case, why):
    # what is left of F-C04a after 4ff1f32: only the hang of the loser of the race for join_info;
    # a join that returns SUCCESS early / with NULL after a detach took it is NOT known any more
    return ("{cause=detach-took-joiner}" in why and _has(case, DETACH) and _has(case, JOIN) and
            "spins forever in clear_or_wait" in why and not why.startswith("join returned SUCCESS"))


def _m_c(label, case, why):
    return ("{cause=join-took-joiner}" in why and _has(case, JOIN) and _clients_with_handle_ops(case) >= 2 and
            (why.startswith("two joins returned SUCCESS") or
             why.startswith("join returned SUCCESS with result 0 but the target finished") or
             "spins forever in clear_or_wait" in why))


def _m_b(label, case, why):
    return ("{cause=overlap-release}" in why and _clients_with_handle_ops(case) >= 2 and
            ("after the fiber was reclaimed" in why or "spins forever in clear_or_wait on an empty join_info of the reclaimed fiber" in why
             or "spins forever in clear_or_wait" in why))


def _m_d(label, case, why):
    return ("{cause=join-over-detach}" in why and _has(case, DETACH) and _has(case, JOIN) and
            why.startswith("the target spins forever in clear_or_wait"))


MATCH = {"F-C04b": _m_b, "F-C04c": _m_c, "F-C04d": _m_d, "F-C04e": _m_e}


def known():
    """known findings of this property from the shared, committed known_findings.json"""
    res = []
    for f in core.load_known().get("findings", []):
        if isinstance(f, dict) and f.get("property") == "C04" and f.get("id") in MATCH:
            res.append({"id": f["id"], "what": "%s %s" % (f["id"], f["what"]), "match": MATCH[f["id"]]})
    return res


def code_is_fixed():
    """does the tree under test contain the F-C04a repair (commit 4ff1f32)?  Selects the model variant."""
    try:
        return 1 if "FIBER_JOIN_DETACHED" in open(os.path.join(core.REPO, "src", "fiber.c")).read() else 0
    except OSError:
        return 1


def set_fix(case, fx):
    """params[2] of a case = 1: model of the repaired fiber_detach/fiber_join, 0: the code before 4ff1f32"""
    v = case.split()
    n = int(v[0])
    params = (v[1:1 + n] + ["0", "0", "0"])[:max(n, 3)]
    params[2] = str(fx)
    return " ".join([str(len(params))] + params + v[1 + n:])


# --------------------------------------------------------------------------
# cases
# --------------------------------------------------------------------------
def client_prog(rng, maxlen=3):
    return [(rng.choice([JOIN, JOIN, TRY, TRY, DETACH, YIELD]), 0) for _ in range(rng.randint(1, maxlen))]


def target_prog(rng, finish=True):
    p = [(YIELD, 0)] * rng.randint(0, 2)
    if finish:
        p.append((FINISH, rng.randint(1, 99)))
    return p


def gen_cases(ctx, tier):
    rng = random.Random(ctx.seed * 7919 + 4)
    cases = []
    DM = 400
    fin = [(FINISH, 7)]
    # (1) covering family, one client: the client's call lands after k steps of the finishing target and vice versa
    for op in (JOIN, TRY, DETACH):
        for k in range(0, 26):
            for prog1 in ([(op, 0)], [(op, 0), (TRY, 0)], [(TRY, 0), (op, 0)]):
                cases.append(core.fmt_case([DM, 0], [fin, prog1], [0] * k + [1] * 40 + [0] * 40))
                cases.append(core.fmt_case([DM, 0], [fin, prog1], [1] * k + [0] * 40 + [1] * 40))
    for a in range(0, 14):
        for b in range(0, 14):
            cases.append(core.fmt_case([DM, 0], [fin, [(JOIN, 0)]], [1] * a + [0] * b + [1] * 30 + [0] * 30))
            cases.append(core.fmt_case([DM, 0], [fin, [(TRY, 0), (TRY, 0), (JOIN, 0)]], [0] * a + [1] * b + [0] * 30))
    n1 = len(cases)
    # (2) two clients: every pair of calls, placed around the target's completion
    pairs = [(a, b) for a in (JOIN, TRY, DETACH) for b in (JOIN, TRY, DETACH)]
    for (a, b) in pairs:
        for g in (0, 1):
            for _ in range(6 if tier == "quick" else 60):
                x, y, z = rng.randint(0, 14), rng.randint(0, 14), rng.randint(0, 14)
                order = rng.choice([[1, 2, 0], [1, 0, 2], [0, 1, 2], [2, 1, 0], [2, 0, 1], [0, 2, 1]])
                cnt = {order[0]: x, order[1]: y, order[2]: z}
                sched = [order[0]] * cnt[order[0]] + [order[1]] * cnt[order[1]] + [order[2]] * cnt[order[2]]
                sched += core.random_sched(rng, 3, rng.randint(0, 40), rng.randrange(3))
                cases.append(core.fmt_case([DM, g], [target_prog(rng), [(a, 0)], [(b, 0)]], sched))
    n2 = len(cases) - n1
    # (3) random programs x schedules, guarded and unguarded, 2..5 fibers
    nrand = 1200 if tier == "quick" else 40000
    for _ in range(nrand):
        nt = rng.choice([2, 2, 3, 3, 3, 4, 5])
        progs = [target_prog(rng, rng.random() < 0.9)] + [client_prog(rng) for _ in range(nt - 1)]
        g = 1 if rng.random() < 0.3 else 0
        cases.append(core.fmt_case([600, g], progs, core.random_sched(rng, nt, rng.randint(0, 50 * nt), rng.randrange(3))))
    # (4) one client only (the usage under which everything is proved), long programs
    nseq = 150 if tier == "quick" else 3000
    for _ in range(nseq):
        progs = [target_prog(rng, rng.random() < 0.9), client_prog(rng, 6)]
        cases.append(core.fmt_case([600, 0], progs, core.random_sched(rng, 2, rng.randint(0, 120), rng.randrange(3))))
    # (5) degenerate inputs: no client, no finish, ops on the wrong thread
    cases.append(core.fmt_case([100, 0], [fin], []))
    cases.append(core.fmt_case([100, 0], [[(YIELD, 0)], [(JOIN, 0)]], []))
    cases.append(core.fmt_case([100, 0], [[(JOIN, 0), (FINISH, 200)], [(FINISH, 3), (TRY, 0)]], []))
    cases.append(core.fmt_case([100, 1], [[], []], [0, 1]))
    ctx.coverage["case_distribution"] = {"covering_one_client": n1, "pairs_two_clients": n2, "random_programs": nrand,
                                         "single_client_long": nseq, "degenerate": 4, "total": len(cases)}
    return cases


def build(ctx):
    return core.build_harness(ctx, "h_join", "h_join.c", repo_sources=T1_SOURCES,
                              extra_flags=T1_FLAGS, rt_objs=("rt.c",), extra_rt=("t1.c",))


def corpus():
    p = os.path.join(core.VERIF, "corpus", "C04.txt")
    try:
        return [l.strip() for l in open(p) if l.strip() and not l.startswith("#")]
    except OSError:
        return []


def run(ctx):
    ctx.trusted = TRUSTED
    core.coq_property(ctx, "Properties_C04.v", THEOREMS)
    exe = build(ctx)
    if exe:
        fx = code_is_fixed()
        cases = [set_fix(c, fx) for c in corpus() + gen_cases(ctx, ctx.tier)]
        ctx.coverage["model_variant"] = "repaired detach/join (4ff1f32)" if fx else "pre-fix detach/join"
        ok = core.correspond(ctx, "join", "join", exe, cases, monitor, known(), aux=True)
        st = ctx.stats["join"]
        ctx.coverage.update({"traces_validated_against_impl": st["cases"] - st["differ"],
                             "evaluations": st["cases"], "distinct_nontrivial": st["nontrivial"],
                             "rule": "case = (mode, program of the target fiber, join/tryjoin/detach/yield programs of the "
                                     "client fibers, schedule); non-trivial = a call failed in the implementation trace"})
        if ctx.failures and not ctx.violations:
            search(ctx, exe)
    reclaim_layer(ctx)
    core.finish(ctx, extra_assumptions=ASSUME)


def reclaim_layer(ctx):
    """the second half of C04 (reclaimed exactly once, after finish + join/detach, untouched afterwards) on the WHOLE
    real runtime (T2 machine of C01: real context switches, done_fiber slots, work stealing): join/detach-heavy
    programs, judged by the reclaim oracle (destroy events, quarantined + poisoned control blocks, join results)."""
    from vf.props import C01
    C01.lint_obligation(ctx)
    exe = C01.build(ctx)
    if not exe:
        return
    rng = random.Random(ctx.seed * 7919 + 44)
    cases = []
    n = 200 if ctx.tier == "quick" else 5000
    for _ in range(n):
        nk = rng.choice([2, 2, 3, 3, 4])
        nf = rng.randint(1, 5)
        progs = [[(rng.choice([10, 10, 10, 11, 11, 23, 23, 1, 3, 12, 18]), rng.randint(0, 1)) for _ in range(rng.randint(1, 6))]
                 for _f in range(nf)]
        cases.append(core.fmt_case([60000, nk], progs, core.random_sched(rng, nk, rng.randint(50, 2500), rng.randrange(3))))
    impl = core.run_sharded([exe], cases, timeout=900)
    bad = 0
    for c, line in zip(cases, impl):
        tr = core.parse_trace(line) if line is not None else None
        why = core.safe_monitor(C01.monitor, c, tr, line)
        if not why and tr:
            for (t, loc, kind, val) in tr:
                if kind == 909 and 1000 <= loc < 1100 and val == 7:
                    why = "a join in fiber %d did not deliver the child's return value" % (loc - 1000)
                    break
        if why:
            bad += 1
            if bad <= 3:
                core.report_violation(ctx, "kernel", c, "whole-runtime reclaim layer: " + why, line)
    ctx.coverage["reclaim_layer_t2"] = {"runs": len(cases), "violations": bad,
                                        "what": "join/detach-heavy programs on the whole real runtime, 2-4 kernel threads"}
    ctx.oblige("reclaim-t2(%d runs)" % len(cases), bad == 0, "%d runs judged a violation" % bad)


def search(ctx, exe):
    c2 = core.Ctx(ctx.pid, "thorough", ctx.seed + 1000)
    try:
        cases = [set_fix(c, code_is_fixed()) for c in gen_cases(c2, "thorough")[:20000]]
    finally:
        c2.cleanup()
    # RT_CATCHALL: every byte of the target fiber_t is a scheduling point (fields the model does not know included)
    impl = core.run_sharded(["env", "RT_CATCHALL=1", exe], cases)
    kn = known()
    for c, line in zip(cases, impl):
        why = core.safe_monitor(monitor, c, core.parse_trace(line) if line else None, line)
        if why:
            core.report_violation(ctx, "join+catchall", c, why, line, kn)
            if len(ctx.violations) >= 3:
                break


def replay(ctx, payload):
    if payload.get("harness") == "kernel":
        from vf.props import C01
        return C01.replay(ctx, payload)
    exe = build(ctx)
    c = payload.get("case")
    if not exe or not c:
        print("nothing to replay (no concrete case in this file)")
        return 2
    if str(payload.get("harness", "")).endswith("+catchall"):
        impl = core.run_sharded(["env", "RT_CATCHALL=1", exe], [c])[0]
        why = core.safe_monitor(monitor, c, core.parse_trace(impl) if impl is not None else None, impl)
        print("case:  %s\nimpl (every byte of the object a scheduling point):  %s\nmonitor: %s" % (c, impl, why or "ok"))
        return 1 if why else 0
    impl = core.run_sharded([exe], [c])[0]
    mod = core.model_run("join", [c])[0]
    why = monitor(c, core.parse_trace(impl), impl)
    print("case:  %s\nimpl:  %s\nmodel: %s\nmonitor: %s\nlock-step: %s" %
          (c, impl, mod, why or "ok", "identical" if core.strip_aux(impl) == mod else "DIFFER"))
    return 1 if (why or core.strip_aux(impl) != mod) else 0


TRUSTED = [
    "Coq 8.16.1 kernel + vm_compute (no native_compute)",
    "Print Assumptions of each theorem (recorded under print_assumptions)",
    "extraction: ExtrOcamlBasic only; OCaml driver coq/extract/driver.ml",
    "rt/rt.c (TSan-hook baton scheduler) and rt/t1.c (T1 machine: real fiber_manager.c/fiber.c, one pthread per fiber; "
    "context switch, run queues and event layer replaced; the DONE fiber performs its successor's do_maintenance, "
    "which destroys it)",
    "rt/h_join.c: free() of the target fiber replaced by an event + quarantine (-Dfree=h_join_free)",
    "hand-written models coq/T1K.v + coq/Join.v; tie = identical per-access traces",
    "SC interleaving; -O0 instrumented build",
    "reclaim layer: rt/t2.c whole-runtime machine + the reclaim oracle of tools/vf/props/C01.py (a monitor, not a theorem)",
]
ASSUME = ["given C01 and C02 (a fiber behaves as a sequential process that is resumed once per wake-up): the T1 cut of DESIGN.md 3.4",
          "thread 0's program ends with the body of fiber_join_routine (static in fiber.c), reproduced textually in rt/h_join.c",
          "known findings F-C04b..e (known_findings.json, property C04): the hypotheses of the theorems exclude exactly those histories; F-C04a is repaired (4ff1f32) and kept as a regression (model parameter, corpus line 1)"]
