"""C19 context switch (x86-64 assembly back-end), by the TRANSLATOR route:

  (a) tools/gen/gen_ctx.py regenerates coq/gen/CtxGen.v from
      $VERIF_REPO/src/fiber_context.c (asm template of fiber_context_swap, its
      constraints/clobbers, the frame fiber_context_init builds);
  (b) the theorems of Properties_C19.v are re-proved against that file;
  (c) the REAL compiled fiber_context_init/swap/destroy run in the differential
      harness rt/h_ctx.c (+ rt/h_ctx_tramp.S) for each stack strategy
      (malloc, mmap, split) at -O0 and -O2 (and the ucontext back-end, oracle
      only - it is outside the Coq model): an oracle of the property itself
      (registers/rsp/stack checksum on resumption = what was planted at
      switch-out, entry alignment, param in rdi, allocation balance), and the
      extracted generated model (coq/Ctx.v) is run on the same inputs and must
      predict the same resumed register files (model <-> compiled code);
  (d) if anything stopped checking, a search over many more random chains
      looks for a concrete failing input (implementation first, then the
      generated model).
"""
import os
import random

from vf import core

THEOREMS = ["swap_roundtrip", "swap_sequence", "swap_fresh", "init_builds_frame",
            "swap_clobbers_declared", "swap_prologue_unconditional", "stack_calls_shape"]
STRATEGIES = ["MALLOC", "MMAP", "SPLIT"]
OPTS = ["-O0", "-O2"]
REGS = ["rbx", "rbp", "r12", "r13", "r14", "r15"]
REC = 18
BIG = 9216      # depth code: switch out from inside a 72 KB frame (new split-stack segment)
BIGSTACK = 262144
GEN = os.path.join(core.VERIF, "tools", "gen", "gen_ctx.py")
M32 = (1 << 32) - 1


def hl(v):
    return [v >> 32, v & M32]


# --------------------------------------------------------------------------
# cases
# --------------------------------------------------------------------------
SPECIAL = [0, 1, (1 << 64) - 1, 1 << 63, 0x7fffffffffffffff, 0xdeadbeefcafef00d, 1 << 32, M32]


def gen_case(rng, maxlen):
    """a case = dict(N, sizes, params, mx, steps[(to, depth, plant[6])])"""
    n = rng.choice([2, 2, 3, 3, 4, 5])
    sizes = [0] + [rng.choice([rng.randint(12000, 70000), rng.randint(12000, 70000) & ~15,
                               16384, 65536, 12345, 20008]) for _ in range(n - 1)]
    params = [0] + [rng.choice(SPECIAL + [rng.getrandbits(64)]) for _ in range(n - 1)]
    k = rng.randint(1, maxlen)
    cur, steps = 0, []
    for i in range(k):
        if i == k - 1:
            if cur == 0:
                break
            to = 0
        else:
            to = rng.choice([c for c in range(n) if c != cur])
        plant = [rng.choice(SPECIAL) if rng.random() < 0.15 else rng.getrandbits(64) for _ in range(6)]
        steps.append((to, rng.randint(0, 6), plant))
        cur = to
    if cur != 0:
        steps.append((0, 0, [rng.getrandbits(64) for _ in range(6)]))
    return {"N": n, "sizes": sizes, "params": params, "mx": 1 if rng.random() < 0.2 else 0,
            "steps": steps}


def fmt_steps(c):
    out = [len(c["steps"])]
    for (to, depth, plant) in c["steps"]:
        out += [to, depth]
        for p in plant:
            out += hl(p)
    return out


def impl_line(c):
    v = [c["N"]] + c["sizes"]
    for p in c["params"]:
        v += hl(p)
    v += [c["mx"]] + fmt_steps(c)
    return " ".join(str(x) for x in v)


def parse_impl_line(line):
    v = [int(x) for x in line.split()]
    n = v[0]
    sizes = v[1:1 + n]
    i = 1 + n
    params = [(v[i + 2 * j] << 32) | v[i + 2 * j + 1] for j in range(n)]
    i += 2 * n
    mx, k = v[i], v[i + 1]
    i += 2
    steps = []
    for _ in range(k):
        to, depth = v[i], v[i + 1]
        plant = [(v[i + 2 + 2 * j] << 32) | v[i + 3 + 2 * j] for j in range(6)]
        steps.append((to, depth, plant))
        i += 14
    return {"N": n, "sizes": sizes, "params": params, "mx": mx, "steps": steps}


def model_line(c, geo):
    """geo = [(base mod 4096, ctx_stack_size)] as the implementation reported it"""
    v = [1, c["N"]]
    for i in range(c["N"]):
        if i == 0:
            base, size = 1 << 40, 65536
        else:
            base, size = ((i + 1) << 40) + geo[i][0], geo[i][1]
        v += hl(base) + [size]
    for p in c["params"]:
        v += hl(p)
    v += fmt_steps(c)
    return " ".join(str(x) for x in v)


def gen_cases(ctx, tier, salt=0):
    rng = random.Random(ctx.seed * 104729 + 19 + salt)
    n = 250 if tier == "quick" else 4000
    cases = []
    # systematic small ones first: A->B->A, chains through every new context
    for nctx in (2, 3, 4, 5):
        steps, cur = [], 0
        order = list(range(1, nctx)) + [0] + list(range(nctx - 1, 0, -1)) + [0]
        for to in order:
            if to != cur:
                steps.append((to, len(steps) % 3, [0x1111111111111111 * (len(steps) + 1) + j for j in range(6)]))
                cur = to
        cases.append({"N": nctx, "sizes": [0] + [16384 + 8 * i for i in range(1, nctx)],
                      "params": [0] + [0xabcd0000 + i for i in range(1, nctx)], "mx": 0, "steps": steps})
    cases += big_frame_cases()
    for _ in range(n):
        c = gen_case(rng, 40 if tier == "quick" else 200)
        if rng.random() < 0.2:      # some chains switch out from 72 KB frames
            c["sizes"] = [0] + [BIGSTACK + 16 * rng.randint(0, 64) for _ in range(c["N"] - 1)]
            c["steps"] = [(to, BIG if rng.random() < 0.25 else d, pl) for (to, d, pl) in c["steps"]]
        cases.append(c)
    return cases


def big_frame_cases():
    """a context is switched out once from a shallow frame, later from inside a
    function with a 72 KB frame (with split stacks: from a different stack
    segment), is resumed there and returns through that function: (a) the
    thread context, (b) a created context, (c) both, (d) twice in a row."""
    def pl(k):
        return [0x0101010101010101 * (k + 1) + j for j in range(6)]

    def mk(n, seq):
        return {"N": n, "sizes": [0] + [BIGSTACK] * (n - 1), "params": [0] + [0x7700 + i for i in range(1, n)],
                "mx": 0, "steps": [(to, d, pl(k)) for k, (to, d) in enumerate(seq)]}
    return [
        mk(2, [(1, 0), (0, 1), (1, BIG), (0, 0), (1, 2), (0, 0)]),                 # thread from big frame
        mk(2, [(1, 0), (0, 0), (1, 1), (0, BIG), (1, 0), (0, 2)]),                 # created ctx from big frame
        mk(3, [(1, 0), (2, 0), (0, 1), (1, BIG), (2, BIG), (0, 0), (2, BIG), (0, BIG), (1, 0), (0, 0)]),
        mk(2, [(1, 1), (0, 0), (1, BIG), (0, BIG), (1, BIG), (0, 0)]),
        mk(2, [(1, BIG), (0, 0), (1, 0), (0, 0)]),                                # first switch-out already big
    ]


# --------------------------------------------------------------------------
# reading outputs
# --------------------------------------------------------------------------
def split_impl(line):
    """-> (geo, records, trailer dict | None, crash | None)"""
    try:
        v = [int(x) for x in (line or "").split()]
    except ValueError:
        return None, [], None, "unparsable output"
    if not v or v[0] < 2 or len(v) < 1 + 2 * v[0]:
        return None, [], None, "no geometry in output: %s" % (line or "")[:60]
    n = v[0]
    geo = [(v[1 + 2 * i], v[2 + 2 * i]) for i in range(n)]
    i = 1 + 2 * n
    recs, trailer, crash = [], None, None
    while i < len(v):
        if v[i] in (0, 1) and i + REC <= len(v):
            recs.append(v[i:i + REC])
            i += REC
        elif v[i] == -7 and i + 8 <= len(v):
            trailer = dict(zip(["allocs", "releases", "bad", "mxcsr_diffs", "x87_diffs",
                                "all_allocs", "all_releases"], v[i + 1:i + 8]))
            i += 8
        elif v[i] == -9:
            crash = "crashed (signal/exit %s)" % (v[i + 1] if i + 1 < len(v) else "?")
            break
        elif v[i] == -6:
            crash = "chain ended in a fiber"
            break
        else:
            crash = "malformed output at token %d" % i
            break
    return geo, recs, trailer, crash


def split_model(line):
    try:
        v = [int(x) for x in (line or "").split()]
    except ValueError:
        return [], "unparsable"
    recs, i, stop = [], 0, None
    while i < len(v):
        if v[i] in (0, 1) and i + REC <= len(v):
            recs.append(v[i:i + REC])
            i += REC
        else:
            stop = "model stopped: %s" % " ".join(str(x) for x in v[i:i + 2])
            break
    return recs, stop


def rec_regs(r):
    return [(r[2 + 2 * j] << 32) | r[3 + 2 * j] for j in range(6)]


def oracle_at(c, geo, recs, trailer, crash):
    """the property itself, on what the implementation reported:
    (message, index of the offending switch) or (None, None)."""
    cur, started, out_plant = 0, {0}, {}
    for k, (to, depth, plant) in enumerate(c["steps"]):
        if k >= len(recs):
            return "switch %d (context %d -> %d): %s" % (k, cur, to, crash or "no record (run stopped)"), k
        r = recs[k]
        kind, who, regs, d = r[0], r[1], rec_regs(r), r[14]
        e, f = (r[15] << 32) | r[16], r[17]
        if who != to:
            return "switch %d: control arrived in context %d, expected %d" % (k, who, to), k
        if to not in started:
            if kind != 1:
                return "switch %d: new context %d did not start at its run function" % (k, to), k
            if e != c["params"][to]:
                return "switch %d: new context %d got rdi=%#x, param is %#x" % (k, to, e, c["params"][to]), k
            rsp_mod = (geo[to][0] + geo[to][1] - d) % 16
            if rsp_mod != 8:
                return ("switch %d: new context %d entered with rsp = %d (mod 16), the ABI requires 8 "
                        "(as after a call)" % (k, to, rsp_mod)), k
            if not (8 <= d <= geo[to][1]):
                return "switch %d: new context %d entered with rsp outside its stack (top-rsp=%d)" % (k, to, d), k
            started.add(to)
        else:
            if kind != 0:
                return "switch %d: context %d restarted its run function instead of resuming" % (k, to), k
            want = out_plant[to]
            for j in range(6):
                if regs[j] != want[j]:
                    return ("switch %d: context %d resumed with %s=%#x, it had %#x when it was switched out"
                            % (k, to, REGS[j], regs[j], want[j])), k
            if d != 0:
                return "switch %d: context %d resumed with rsp off by %d bytes" % (k, to, d), k
            if f != 0:
                return "switch %d: context %d resumed with its live stack contents changed" % (k, to), k
        out_plant[cur] = plant
        cur = to
    if crash:
        return crash, None
    if trailer is None:
        return "no allocation report (run did not finish)", None
    want = c["N"] - 1
    if trailer["bad"] or trailer["allocs"] != want or trailer["releases"] != want:
        return ("stack allocation/release: %d stacks allocated, %d released for %d new contexts, "
                "%d create/destroy calls with an unexpected count or pointer"
                % (trailer["allocs"], trailer["releases"], want, trailer["bad"])), None
    return None, None


def oracle(c, geo, recs, trailer, crash):
    return oracle_at(c, geo, recs, trailer, crash)[0]



def model_oracle(c, recs, stop):
    """the same property on the generated model's prediction (geometry is the model's own)."""
    geo = [(0, 65536)] + [(0, c["sizes"][i]) for i in range(1, c["N"])]
    fake = {"allocs": c["N"] - 1, "releases": c["N"] - 1, "bad": 0}
    return oracle(c, geo, recs, fake, stop)


# --------------------------------------------------------------------------
# building
# --------------------------------------------------------------------------
def build_harness(ctx, strat, opt):
    """opt = -O0 / -O2: assembly back-end; opt = ucontext: the portable back-end (-O2)."""
    name = "h_ctx_%s_%s" % (strat, opt.strip("-"))
    d = ctx.scratch
    flags = ["-g", "-DNDEBUG", "-DFIBER_STACK_" + strat, "-D_GNU_SOURCE",
             "-I" + os.path.join(core.REPO, "include")]
    if opt == "ucontext":
        opt = "-O2"
    else:
        flags.append("-DFIBER_FAST_SWITCHING")
    extra = ["-fsplit-stack"] if strat == "SPLIT" else []
    wraps = ["malloc", "free", "mmap", "munmap"]
    if strat == "SPLIT":
        wraps += ["__splitstack_makecontext", "__splitstack_releasecontext"]
    objs = []
    for (src, o, fl) in [(os.path.join(core.RT, "h_ctx.c"), name + "_h.o", ["-O1"] + flags + extra),
                         (os.path.join(core.REPO, "src", "fiber_context.c"), name + "_c.o", [opt] + flags + extra),
                         (os.path.join(core.RT, "h_ctx_tramp.S"), name + "_t.o", [])]:
        obj = os.path.join(d, o)
        rc, out = core.sh(["gcc"] + fl + ["-c", src, "-o", obj], timeout=120)
        if rc != 0:
            ctx.oblige("build:%s:%s" % (name, os.path.basename(src)), False, out)
            return None
        objs.append(obj)
    exe = os.path.join(d, name)
    rc, out = core.sh(["gcc"] + extra + objs + ["-Wl," + ",".join("--wrap=" + w for w in wraps), "-o", exe],
                      timeout=120)
    if rc != 0:
        ctx.oblige("link:%s" % name, False, out)
        return None
    return exe


def run_translator(ctx):
    rc, out = core.sh(["python3", GEN], timeout=60, env={"VERIF_REPO": core.REPO})
    ctx.oblige("translator:gen_ctx(src/fiber_context.c -> coq/gen/CtxGen.v)", rc == 0, out)
    if rc != 0:
        return None
    rc, enc = core.sh(["python3", GEN, "--encoding"], timeout=60, env={"VERIF_REPO": core.REPO})
    return enc.strip().split("\n")[-1].strip() if rc == 0 else None


def model_driver(ctx, fingerprint):
    """a driver whose `ctx` model was extracted from the CURRENT CtxGen.v."""
    rc, out = core.coq_make(ctx, ["Ctx.vo"])
    ctx.oblige("coq:make Ctx.vo (executable model over the generated code)", rc == 0, out)
    if rc != 0:
        return None

    def fp(drv):
        if not os.path.exists(drv):
            return None
        rc2, o = core.sh([drv, "ctx"], input=b"0\n", timeout=60)
        return o.strip() if rc2 == 0 else None
    drv = core.DRIVER
    if fp(drv) != fingerprint:
        d = os.path.join(ctx.scratch, "drv")
        rc, out = core.sh([os.path.join(core.VERIF, "tools", "mkdriver.sh"), d, "Ctx"], timeout=900)
        drv = os.path.join(d, "driver")
        if rc != 0 or fp(drv) != fingerprint:
            ctx.oblige("driver:ctx model extracted from the regenerated CtxGen.v", False,
                       out + "\nfingerprint of driver: %s\nfingerprint of translator: %s" % (fp(drv), fingerprint))
            return None
        ctx.stats["driver"] = "private (rebuilt: CtxGen.v differs from the one in build/driver)"
    else:
        ctx.stats["driver"] = "build/driver (fingerprint of generated model matches)"
    ctx.oblige("driver:ctx model extracted from the regenerated CtxGen.v", True)
    return drv


# --------------------------------------------------------------------------
# differential run
# --------------------------------------------------------------------------
def differential(ctx, label, exe, drv, cases, report=True):
    lines = [impl_line(c) for c in cases]
    impl = core.run_sharded([exe], lines)
    parsed = [split_impl(x) for x in impl]
    nviol, ndiff, nrec, mx, cw = 0, 0, 0, 0, 0
    mlines, midx, bad_at = [], [], {}
    for i, c in enumerate(cases):
        geo, recs, trailer, crash = parsed[i]
        nrec += len(recs)
        if trailer:
            mx += trailer["mxcsr_diffs"]
            cw += trailer["x87_diffs"]
        why, at = oracle_at(c, geo, recs, trailer, crash) if geo else ((crash or "no output"), None)
        bad_at[i] = at
        if why:
            nviol += 1
            if report:
                core.report_violation(ctx, label, lines[i], why, impl[i])
        if drv and geo:
            mlines.append(model_line(c, geo))
            midx.append(i)
    if drv:
        mod = core.run_sharded([drv, "ctx"], mlines)
        for j, i in enumerate(midx):
            geo, recs, trailer, crash = parsed[i]
            mrecs, mstop = split_model(mod[j])
            if bad_at.get(i) is not None:
                # once a switch has violated the property the C code of the harness runs on a
                # corrupted context (not modelled): compare up to and including that switch
                k1 = bad_at[i] + 1
                same = mrecs[:k1] == recs[:k1]
            else:
                same = (mrecs == recs) and (bool(mstop) == bool(crash))
            if not same:
                ndiff += 1
                if ndiff <= 3:
                    k = 0
                    while k < min(len(recs), len(mrecs)) and recs[k] == mrecs[k]:
                        k += 1
                    ctx.failures.append({"kind": "correspondence", "label": label, "case": lines[i],
                                         "model_case": mlines[j], "impl": (impl[i] or "")[:3000],
                                         "model": (mod[j] or "")[:3000], "first_diff_switch": k})
        ctx.oblige("correspondence:%s(generated model vs compiled code, %d cases)" % (label, len(midx)),
                   ndiff == 0, "%d of %d resumed-register-file traces differ" % (ndiff, len(midx)))
    ctx.oblige("differential:%s(property oracle, %d cases)" % (label, len(cases)), nviol == 0,
               "%d of %d cases violate the property" % (nviol, len(cases)))
    ctx.stats[label] = {"cases": len(cases), "switches_observed": nrec, "oracle_violations": nviol,
                        "model_differs": ndiff, "mxcsr_differs_across_switch(report only)": mx,
                        "x87cw_differs_across_switch(report only)": cw}
    if cases:
        ctx.samples.append({"harness": label, "case": lines[len(lines) // 2][:300],
                            "impl_trace_head": (impl[len(lines) // 2] or "")[:300]})
    return nviol == 0 and ndiff == 0


def search(ctx, exes, drv):
    """something stopped checking and no concrete failure yet: more and longer
    random chains on every build; then the generated model on its own."""
    if ctx.violations:
        return
    for salt in (1, 2):
        cases = gen_cases(ctx, "thorough", salt=salt)[:1200]
        lines = [impl_line(c) for c in cases]
        for label, exe in exes:
            impl = core.run_sharded([exe], lines)
            for c, line, o in zip(cases, lines, impl):
                geo, recs, trailer, crash = split_impl(o)
                why = oracle(c, geo, recs, trailer, crash) if geo else (crash or "no output")
                if why:
                    core.report_violation(ctx, label, line, why, o)
                    if len(ctx.violations) >= 3:
                        return
        if ctx.violations:
            return
    if drv:
        cases = gen_cases(ctx, "thorough", salt=9)[:2000]
        geo = lambda c: [(0, 65536)] + [(0, c["sizes"][i]) for i in range(1, c["N"])]
        mlines = [model_line(c, geo(c)) for c in cases]
        mod = core.run_sharded([drv, "ctx"], mlines)
        for c, ml, o in zip(cases, mlines, mod):
            mrecs, mstop = split_model(o)
            why = model_oracle(c, mrecs, mstop)
            if why:
                core.report_violation(ctx, "ctx-generated-model",
                                      impl_line(c), "in the model generated from the source "
                                      "(coq/gen/CtxGen.v run by coq/Ctx.v): " + why, o)
                return


def run(ctx):
    ctx.trusted = TRUSTED
    fingerprint = run_translator(ctx)
    core.coq_property(ctx, "Properties_C19.v", THEOREMS)
    drv = model_driver(ctx, fingerprint) if fingerprint else None
    cases = corpus(ctx) + gen_cases(ctx, ctx.tier)
    exes = []
    for strat in STRATEGIES:
        for opt in OPTS:
            exe = build_harness(ctx, strat, opt)
            if exe:
                label = "ctx:%s:%s" % (strat, opt)
                exes.append((label, exe))
                differential(ctx, label, exe, drv, cases)
    # the ucontext back-end is outside the Coq model: property oracle only
    for strat in STRATEGIES:
        exe = build_harness(ctx, strat, "ucontext")
        if exe:
            label = "ctx:%s:ucontext" % strat
            exes.append((label, exe))
            differential(ctx, label, exe, None, cases)
    tot = sum(ctx.stats[l]["cases"] for (l, _) in exes)
    ctx.coverage.update({
        "evaluations": tot,
        "switches_observed": sum(ctx.stats[l]["switches_observed"] for (l, _) in exes),
        "builds": [l for (l, _) in exes],
        "rule": "case = (2-5 contexts, stack sizes, params, chain of switches with planted rbx/rbp/r12-r15 "
                "and call depth); every build (3 stack strategies x {asm -O0, asm -O2, ucontext}) runs every "
                "case; the property oracle is checked on every switch, the generated model on every switch "
                "of the assembly builds",
        "stack_released_once": "checked by the harness only (allocator/mmap/splitstack balance per "
                               "create/destroy), not a Coq theorem",
        "case_distribution": {"systematic": 4, "big_frame_scenarios": 5, "random": len(cases) - 9},
    })
    if ctx.failures and not ctx.violations:
        search(ctx, exes, drv)
    runtime_layer(ctx)
    core.finish(ctx, level="proof", extra_assumptions=ASSUME,
                checker_cmd="python3 tools/gen/gen_ctx.py ; cd /verif/coq && coqc -Q . LF gen/CtxGen.v CtxProofs.v "
                            "Properties_C19.v (coqc 8.16.1, full .vo)")


def corpus(ctx):
    p = os.path.join(core.VERIF, "corpus", "C19.txt")
    try:
        return [parse_impl_line(l) for l in open(p) if l.strip() and not l.startswith("#")]
    except (OSError, ValueError, IndexError):
        return []


def progs_of(case):
    v = [int(x) for x in case.split()]
    i = 1 + v[0]
    n = v[i]; i += 1
    out = []
    for _ in range(n):
        k = v[i]; i += 1
        out.append([(v[i + 2 * j], v[i + 2 * j + 1]) for j in range(k)])
        i += 2 * k
    return out


def runtime_layer(ctx):
    """'a fiber observes on resumption exactly the ... stack pointer and stack contents it had when it was switched out
    ... switching on behalf of another thread': the swap itself is proved (Ctx*.v); that the RUNTIME only ever swaps
    into a context whose saving swap has completed is judged here on the whole real runtime (T2 machine of C01): every
    switch target must be a saved context, never one that is still live on another kernel thread."""
    import random
    from vf.props import C01
    exe = C01.build(ctx)
    if not exe:
        return
    rng = random.Random(ctx.seed * 7919 + 191)
    n = 200 if ctx.tier == "quick" else 4000
    cases = []
    for _ in range(n):
        nk = rng.choice([2, 2, 3, 3, 4])
        progs = [[(rng.choice([10, 10, 10, 11, 23, 25, 25, 1, 3, 2, 9, 14, 18]), rng.randint(0, 1)) for _ in range(rng.randint(1, 5))]
                 for _f in range(rng.randint(1, 4))]
        cases.append(core.fmt_case([60000, nk], progs,
                                   core.random_sched(rng, nk, rng.randint(30, 2000), rng.choice([0, 1, 2, 3, 3]))))
    # one kind of suspension directly after another in the same fiber (descriptor wait ended by close, channel and
    # signal waits, multi-signal waits, sleeps, joins): whatever one wait leaves behind in the fiber (scratch word,
    # queue node, state) is what the next one starts from
    for _ in range(2 * n):
        nk = rng.choice([2, 3, 3, 4])
        progs = [[(rng.choice([12, 12, 12, 13, 14, 13, 14, 19, 20, 19, 20, 26, 18, 10, 9, 1]), rng.randint(0, 1))
                  for _ in range(rng.randint(2, 6))] for _f in range(rng.randint(2, 5))]
        cases.append(core.fmt_case([60000, nk], progs,
                                   core.random_sched(rng, nk, rng.randint(30, 2500), rng.choice([0, 1, 2, 3, 3]))))
    impl = core.run_sharded([exe], cases, timeout=900)
    bad = 0
    for c, line in zip(cases, impl):
        why = core.safe_monitor(C01.monitor, c, core.parse_trace(line) if line is not None else None, line)
        if why and "never finished" in why and any(o == 25 for p in progs_of(c) for (o, _) in p):
            why = None      # op 25 = join racing with detach: stranding there is C04's known findings F-C04d/e, not C19's clause
        if why:
            bad += 1
            if bad <= 3:
                core.report_violation(ctx, "kernel", c, "whole-runtime layer: " + why, line)
    ctx.coverage["runtime_switch_layer_t2"] = {"runs": len(cases), "violations": bad}
    ctx.oblige("switch-target-saved-t2(%d runs)" % len(cases), bad == 0, "%d runs judged a violation" % bad)


def replay(ctx, payload):
    if payload.get("harness") == "kernel":
        from vf.props import C01
        return C01.replay(ctx, payload)
    c = payload.get("case")
    label = payload.get("harness", "")
    if not c:
        print("nothing to replay (no concrete case in this file)")
        return 2
    case = parse_impl_line(c)
    if label.startswith("ctx:"):
        _, strat, opt = label.split(":")
        builds = [(strat, opt)]
    else:
        builds = [(s, o) for s in STRATEGIES for o in OPTS + ["ucontext"]]
    rc = 0
    fingerprint = run_translator(ctx)
    drv = model_driver(ctx, fingerprint) if fingerprint else None
    for (strat, opt) in builds:
        exe = build_harness(ctx, strat, opt)
        if not exe:
            print("build failed for %s %s" % (strat, opt))
            rc = 1
            continue
        o = core.run_sharded([exe], [c])[0]
        geo, recs, trailer, crash = split_impl(o)
        why = oracle(case, geo, recs, trailer, crash) if geo else (crash or "no output")
        print("build: %s %s\ncase:  %s\nimpl:  %s\noracle: %s" % (strat, opt, c, o, why or "ok"))
        if drv and geo and opt != "ucontext":
            ml = model_line(case, geo)
            mo = core.run_sharded([drv, "ctx"], [ml])[0]
            mrecs, mstop = split_model(mo)
            print("model: %s\nmodel vs impl: %s" % (mo, "identical" if mrecs == recs else "DIFFER"))
            mwhy = model_oracle(case, mrecs, mstop)
            print("oracle on the generated model: %s" % (mwhy or "ok"))
            if mrecs != recs or mwhy:
                rc = 1
        if why:
            rc = 1
    return rc


TRUSTED = [
    "Coq 8.16.1 kernel + vm_compute (no native_compute)",
    "Print Assumptions of each theorem (recorded under print_assumptions)",
    "tools/gen/gen_ctx.py: parsing of the asm template / constraints / init statements (aborts on anything "
    "unrecognised); its output coq/gen/CtxGen.v IS the model",
    "coq/CtxIsa.v: semantics of the 9 instruction forms (unbounded integers, aligned 8-byte cells, no flags)",
    "gcc honours the \"D\"/\"S\" constraints and emits the template verbatim",
    "extraction: Require Extraction + ExtrOcamlBasic only; OCaml driver coq/extract/driver.ml",
    "rt/h_ctx.c + rt/h_ctx_tramp.S: planting/recording of registers around the real fiber_context_swap; "
    "ld --wrap for malloc/free/mmap/munmap/__splitstack_*",
]
ASSUME = [
    "fiber_context_swap is out of line and the asm is its last statement (the template overwrites rax, rcx and "
    "the input rdi without declaring them); last-statement is checked syntactically, out-of-line is assumed",
    "no address arithmetic wraps at 2^64; contexts' stacks and ctx_stack_pointer fields are pairwise disjoint; "
    "a running context does not write the saved part of another context's stack",
    "MXCSR and the x87 control word are not saved by the switch (callee-saved in the ABI): reported, not required",
    "outside the model: ucontext back-end, i386, split-stack runtime internals",
    "stack_released_once: differential harness only (allocation balance), not proved",
]
