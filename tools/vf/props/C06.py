"""C06 fiber semaphore: Coq theorems (Properties_C06.v) + lock-step correspondence of the
real src/fiber_semaphore.c + src/fiber_manager.c (wait_in_mpmc_queue / wake_from_mpmc_queue /
maintenance) on the T1 machine with coq/Sem.v (client of coq/T1K.v) + implementation-side monitor."""
import os
import random

from vf import core

THEOREMS = ["sem_no_over_admission", "sem_counter_inv", "sem_trywait", "sem_no_lost_post",
            "sem_no_lost_post_quiescent", "sem_value_at_quiescence"]
WAIT, TRY, POST = 1, 2, 3
T1_SOURCES = ["src/fiber_manager.c", "src/fiber.c", "src/fiber_semaphore.c", "src/fiber_mutex.c",
              "src/fiber_spinlock.c", "src/hazard_pointer.c"]
T1_FLAGS = ["-Dpthread_create=t1_pthread_create"]
CTR = 300          # trace loc of semaphore->counter


L_REST = 3900     # search mode: byte b of the fiber_semaphore_t = 3900 + b (bytes registered otherwise keep their locs)


def parse_case(case):
    v = [int(x) for x in case.split()]
    i = 1 + v[0]
    n = v[i]; i += 1
    progs = []
    for _ in range(n):
        k = v[i]; i += 1
        progs.append([(v[i + 2 * j], v[i + 2 * j + 1]) for j in range(k)])
        i += 2 * k
    return v[1:1 + v[0]], progs


def monitor(case, tr, raw):
    """oracle of the property itself on an implementation trace (None = fine)."""
    if tr is None:
        return "implementation produced no trace: %s" % (raw or "")[:80]
    # search mode (RT_CATCHALL=1): accesses to bytes of the object(s) that have no location of their own are
    # scheduling points, not events of the protocol judged here
    tr = [e for e in tr if e[1] < L_REST or e[2] in (909, 919)]
    params, progs = parse_case(case)
    init = params[1] if len(params) > 1 else 0
    n = len(progs)
    opidx = [0] * n           # completed calls of thread t
    alive = [False] * n       # thread performed its first access
    posts_started = 0
    posts_effective = 0       # posts whose fetch_add / CAS happened
    succeeded = 0             # fast waits + successful trywaits + fibers made READY by a post
    decrements = 0            # fetch_subs of wait + successful trywait CASes
    slow = [False] * n        # in a wait that announced itself (counter was <= 0)
    readied = [False] * n
    last = [None] * n         # previous event of thread t inside its current call
    counter = init
    spinning, blocked = [], []

    def cur(t):
        return progs[t][opidx[t]][0] if opidx[t] < len(progs[t]) else None

    for (t, loc, kind, val) in tr:
        if t < 0 or t >= n:
            return "event of unknown thread %d" % t
        if kind == 919 and loc == 0 and val in (7, 8):
            (blocked if val == 7 else spinning).append(t)
            continue
        if not alive[t]:
            alive[t] = True
            if cur(t) == POST:
                posts_started += 1
            if loc == 200 + t and kind == 19:
                continue          # t1_enter: self->state = RUNNING, then the first call begins
        op = cur(t)
        if loc == CTR:
            if op is None:
                return "thread %d touched the counter outside any call" % t
            if kind == 65:
                if op != WAIT:
                    return "fetch_sub by thread %d outside wait" % t
                if val != counter:
                    return "counter bookkeeping: fetch_sub saw %d, expected %d" % (val, counter)
                counter = val - 1
                decrements += 1
                if val >= 1:
                    succeeded += 1
                else:
                    slow[t] = True
                    readied[t] = False
            elif kind == 55:
                if op != POST:
                    return "fetch_add by thread %d outside post" % t
                if val != counter:
                    return "counter bookkeeping: fetch_add saw %d, expected %d" % (val, counter)
                if not (last[t] and last[t][0] == 901):
                    return "post by %d incremented the counter by fetch_add without having woken a waiter" % t
                counter = val + 1
                posts_effective += 1
            elif kind == 73:
                if op == TRY:
                    if val != counter - 1 or val < 0:
                        return "trywait by %d succeeded from a non-positive counter (%d -> %d)" % (t, counter, val)
                    succeeded += 1
                    decrements += 1
                elif op == POST:
                    if val != counter + 1:
                        return "post by %d: CAS %d -> %d is not an increment" % (t, counter, val)
                    if counter < 0:
                        return "post by %d incremented a negative counter (%d) without waking a waiter" % (t, counter)
                    posts_effective += 1
                else:
                    return "CAS on the counter by thread %d inside wait" % t
                counter = val
            elif kind in (22, 83):
                if val != counter:
                    return "counter bookkeeping: thread %d observed %d, expected %d" % (t, val, counter)
            else:
                return "unexpected access kind %d on the counter by thread %d" % (kind, t)
        elif loc == 901 and kind == 919:
            if op != POST:
                return "thread %d scheduled fiber %d outside a post" % (t, val)
            if not (0 <= val < n) or not slow[val] or readied[val]:
                return "post by %d made fiber %d READY, which is not an announced waiter" % (t, val)
            if last[t] != (200 + val, 19, 2):
                return "post by %d scheduled fiber %d without setting its state to READY" % (t, val)
            readied[val] = True
            succeeded += 1
        elif kind == 909:
            if op is None:
                return "thread %d returned from a call it never made" % t
            if op == WAIT:
                if val != 1:
                    return "wait of thread %d returned %d" % (t, val)
                if slow[t] and not readied[t]:
                    return "wait of thread %d returned although no post made it READY" % t
                slow[t] = False
            elif op == TRY:
                if val == 1:
                    if not (last[t] and last[t][0] == CTR and last[t][1] == 73):
                        return "trywait of thread %d returned 1 without its own successful CAS" % t
                elif val == 0:
                    if not (last[t] and last[t][0] == CTR and last[t][1] == 22 and last[t][2] <= 0):
                        return "trywait of thread %d returned 0 without having seen a non-positive counter" % t
                else:
                    return "trywait of thread %d returned %d" % (t, val)
            else:
                if val != 1:
                    return "post of thread %d returned %d" % (t, val)
            opidx[t] += 1
            last[t] = None
            if cur(t) == POST:
                posts_started += 1
            if succeeded > init + posts_started:
                return "over-admission: %d waits succeeded with initial value %d and %d posts begun" % (
                    succeeded, init, posts_started)
            continue
        else:
            if op == TRY:
                return "trywait of thread %d touched loc %d (kind %d): it must only load / CAS the counter" % (t, loc, kind)
        last[t] = (loc, kind, val)
        if succeeded > init + posts_started:
            return "over-admission: %d waits succeeded with initial value %d and %d posts begun" % (
                succeeded, init, posts_started)
        if counter != init + posts_effective - decrements:
            return "counter %d != initial %d + %d effective posts - %d decrements" % (
                counter, init, posts_effective, decrements)
    # end of run
    nops = sum(len(p) for p in progs)
    if spinning and params[0] >= 100 + 60 * nops:
        t = spinning[0]
        return "thread %d is still running its call %d (op %s) after a fair drain of %d steps: the call does not terminate (counter %d)" % (
            t, opidx[t] + 1, cur(t), params[0], counter)
    for t in blocked:
        if cur(t) != WAIT:
            return "thread %d is blocked outside fiber_semaphore_wait" % t
        if counter >= 0:
            return "lost post: thread %d is blocked in wait while the counter is %d" % (t, counter)
        if readied[t]:
            return "thread %d was made READY by a post but never ran again" % t
    if not spinning:
        # quiescent: everybody returned or sleeps
        for t in range(n):
            if t not in blocked and opidx[t] != len(progs[t]):
                return "thread %d neither finished nor is blocked at the end" % t
        if blocked:
            if counter != -len(blocked):
                return "at quiescence %d fibers are blocked but the counter is %d" % (len(blocked), counter)
            if init + posts_started != succeeded:
                return "lost post: %d fibers blocked at quiescence although initial %d + %d posts > %d successful waits" % (
                    len(blocked), init, posts_started, succeeded)
        if counter != init + posts_started - succeeded - len(blocked):
            return "value at quiescence %d != initial %d + posts %d - successful waits %d - blocked %d" % (
                counter, init, posts_started, succeeded, len(blocked))
    return None


# number of scheduling points of a call (after the thread's Start access)
SLOW_WAIT = 7      # fetch_sub, state=WAITING, yield read, next, 3 reads in switch/maintenance -> asleep
POST_WAKE = 5      # load, state=READY, fetch_add, yield read, next


def rand_prog(rng, n, bias):
    return [(rng.choice(bias), 0) for _ in range(n)]


def gen_cases(ctx, tier):
    rng = random.Random(ctx.seed * 7919 + 6)
    cases = []
    quick = tier == "quick"
    # (1) exhaustive interleavings of pairs of calls from small prefilled states
    pairs = [([(WAIT, 0)], [(POST, 0)]), ([(TRY, 0)], [(POST, 0)]), ([(WAIT, 0)], [(TRY, 0)]),
             ([(POST, 0)], [(POST, 0)]), ([(TRY, 0)], [(TRY, 0)]), ([(WAIT, 0)], [(WAIT, 0)])]
    nex = 0
    # every interleaving of (Start + a whole slow wait up to the sleep) with (Start + a whole waking post);
    # what is left runs in the round-robin drain.  quick: a seeded sample of them.
    allsch = core.interleavings([1 + SLOW_WAIT, 1 + POST_WAKE])
    for init in (0, 1, 2):
        for (a, b) in pairs:
            pick = allsch if not quick else rng.sample(allsch, 1000)
            for sch in pick:
                cases.append(core.fmt_case([300, init], [a, b], sch))
                nex += 1
    # three fibers: random interleavings of the same windows (two posts racing for one waiter, two
    # waiters and one post, a trywait racing with the hand-over)
    triples = [([(WAIT, 0)], [(POST, 0)], [(POST, 0)]), ([(WAIT, 0)], [(WAIT, 0)], [(POST, 0), (POST, 0)]),
               ([(WAIT, 0)], [(TRY, 0)], [(POST, 0)]), ([(WAIT, 0), (POST, 0)], [(WAIT, 0)], [(POST, 0)]),
               ([(TRY, 0), (WAIT, 0)], [(POST, 0)], [(WAIT, 0), (POST, 0)])]
    ntri = 0
    for _ in range(1500 if quick else 80000):
        tr3 = rng.choice(triples)
        sch = [0] * (1 + SLOW_WAIT) + [1] * (1 + SLOW_WAIT) + [2] * (2 + 2 * POST_WAKE)
        rng.shuffle(sch)
        cases.append(core.fmt_case([500, rng.choice([0, 0, 1])], list(tr3), sch))
        ntri += 1
    # a waiter, a poster and a third call racing with the wake-up (post vs half-enqueued waiter)
    third = [[(POST, 0)], [(TRY, 0)], [(WAIT, 0), (POST, 0)], [(POST, 0), (WAIT, 0)]]
    ncov = 0
    for k in range(0, 10):
        for j in range(0, 8):
            for th in third:
                sched = [0] * (1 + k) + [1] * (1 + j) + [2] * ((3 * k + j) % 7) + [0] * 3 + [1] * 4 + [2, 1, 0] * 6
                cases.append(core.fmt_case([400, 0], [[(WAIT, 0)], [(POST, 0)], th], sched))
                ncov += 1
    # (2) seeded random programs x schedules (three styles)
    nrand = 4000 if quick else 150000
    for i in range(nrand):
        nt = rng.choice([2, 2, 3, 3, 4, 5])
        init = rng.choice([0, 0, 0, 1, 1, 2, 3])
        bias = rng.choice([[WAIT, POST], [WAIT, POST, TRY], [WAIT, WAIT, POST, TRY], [WAIT, POST, POST, TRY]])
        progs = [rand_prog(rng, rng.randint(1, 4), bias) for _ in range(nt)]
        length = rng.randint(5, 40 * nt)
        cases.append(core.fmt_case([1200, init], progs, core.random_sched(rng, nt, length, rng.randrange(3))))
    # balanced producer / consumer programs: every run must complete
    nbal = 500 if quick else 6000
    for i in range(nbal):
        nt = rng.choice([2, 3, 4])
        k = rng.randint(1, 3)
        progs = []
        for t in range(nt):
            progs.append([(POST, 0)] * k if t % 2 else [(rng.choice([WAIT, WAIT, TRY]), 0) for _ in range(k)])
        if nt % 2:      # odd: the last consumer has no producer: give it the initial units
            init = k
        else:
            init = 0
        length = rng.randint(5, 40 * nt)
        cases.append(core.fmt_case([2000, init], progs, core.random_sched(rng, nt, length, rng.randrange(3))))
    # (3) sequential programs, (4) boundaries: initial 0 / 1 / 2, counter crossing 0 in both directions
    nseq = 0
    for init in (0, 1, 2, 5):
        for _ in range(12):
            prog = [(rng.choice([TRY, POST, POST, WAIT]), 0) for _ in range(rng.randint(1, 8))]
            # a lone fiber must not wait on an empty semaphore more often than units exist: it would block
            cases.append(core.fmt_case([300, init], [prog], []))
            nseq += 1
    for init in (0, 1, 2):
        for prog in ([(TRY, 0)] * 3, [(WAIT, 0)] * 3, [(POST, 0), (WAIT, 0), (TRY, 0)], [(POST, 0)] * 2 + [(TRY, 0)] * 3):
            cases.append(core.fmt_case([300, init], [prog], []))
            cases.append(core.fmt_case([300, init], [prog, [(POST, 0)] * 3], [0] * 12 + [1] * 40 + [0] * 20))
            nseq += 2
    ctx.coverage["case_distribution"] = {"exhaustive_pairs": nex, "random_triples": ntri, "covering_wake_vs_enqueue": ncov,
                                         "random_programs": nrand, "balanced": nbal, "sequential_boundary": nseq,
                                         "total": len(cases)}
    return cases


def build(ctx):
    return core.build_harness(ctx, "h_sem", "h_sem.c", repo_sources=T1_SOURCES,
                              extra_flags=T1_FLAGS, rt_objs=("rt.c",), extra_rt=("t1.c",))


def corpus():
    p = os.path.join(core.VERIF, "corpus", "C06.txt")
    try:
        return [l.strip() for l in open(p) if l.strip() and not l.startswith("#")]
    except OSError:
        return []


def run(ctx):
    ctx.trusted = TRUSTED
    core.coq_property(ctx, "Properties_C06.v", THEOREMS)
    exe = build(ctx)
    if exe:
        cases = corpus() + gen_cases(ctx, ctx.tier)
        ok = core.correspond(ctx, "sem", "sem", exe, cases, monitor)
        st = ctx.stats["sem"]
        ctx.coverage.update({"traces_validated_against_impl": st["cases"] - st["differ"],
                             "evaluations": st["cases"], "distinct_nontrivial": st["nontrivial"],
                             "rule": "case = (wait/trywait/post programs per fiber, initial value, schedule); non-trivial = "
                                     "a CAS failed or a trywait failed in the implementation trace"})
        if (not ok or ctx.failures) and not ctx.violations:
            search(ctx, exe)
    from vf.props import C13
    C13.as_layer(ctx, "the semaphore's waiter queue (include/mpmc_fifo.h is an anchor of C06)")
    from vf.props import C01
    C01.runtime_layer(ctx, "sem", "semaphore on the whole runtime", [4, 4, 5, 5, 1, 18], quick_n=120, seedoff=6)
    core.init_contract(ctx, ["fiber_semaphore"])  # rt/h_init.c: real init on dirty memory
    core.finish(ctx, extra_assumptions=ASSUME)


def search(ctx, exe):
    c2 = core.Ctx(ctx.pid, "thorough", ctx.seed + 1000)
    try:
        cases = gen_cases(c2, "thorough")[:20000]
    finally:
        c2.cleanup()
    # RT_CATCHALL: every byte of the semaphore object is a scheduling point (unknown fields; also the waiter queue head/tail)
    scases, impl = core.run_search(ctx, exe, cases)   # plain schedules first, then with every byte of the object a scheduling point
    for c, line in zip(scases, impl):
        why = core.safe_monitor(monitor, c, core.parse_trace(line) if line is not None else None, line)
        if why:
            core.report_violation(ctx, "sem+catchall", c, why, line)
            if len(ctx.violations) >= 3:
                break


def replay(ctx, payload):
    if payload.get("harness") == "kernel":
        from vf.props import C01
        return C01.replay(ctx, payload)
    if str(payload.get("harness", "")).split("+")[0] == "mpmc":
        from vf.props import C13
        return C13.replay(ctx, payload)
    if payload.get("harness") == "h_init":
        return core.replay_init(ctx, payload)
    exe = build(ctx)
    c = payload.get("case")
    if not exe or not c:
        print("nothing to replay (no concrete case in this file)")
        return 2
    if str(payload.get("harness", "")).endswith("+catchall"):
        impl = core.run_sharded(["env", "RT_CATCHALL=1", exe], [c])[0]
        why = core.safe_monitor(monitor, c, core.parse_trace(impl) if impl is not None else None, impl)
        print("case:  %s\nimpl (every byte of the object a scheduling point):  %s\nmonitor: %s" % (c, impl, why or "ok"))
        return 1 if why else 0
    impl = core.run_sharded([exe], [c])[0]
    mod = core.model_run("sem", [c])[0]
    why = monitor(c, core.parse_trace(impl), impl)
    print("case:  %s\nimpl:  %s\nmodel: %s\nmonitor: %s\nlock-step: %s" %
          (c, impl, mod, why or "ok", "identical" if impl == mod else "DIFFER"))
    return 1 if (why or impl != mod) else 0


TRUSTED = [
    "Coq 8.16.1 kernel + vm_compute (no native_compute)",
    "Print Assumptions of each theorem (recorded under print_assumptions)",
    "extraction: ExtrOcamlBasic only; OCaml driver coq/extract/driver.ml",
    "rt/rt.c (TSan-hook baton scheduler) and rt/t1.c (T1 machine: real fiber_manager.c/fiber.c, one pthread per fiber; "
    "context switch, run queues and event layer replaced)",
    "hand-written models coq/T1K.v + coq/Sem.v; tie = identical per-access traces",
    "the MPMC waiter queue (include/mpmc_fifo.h) is not registered: push / trypop are atomic (property C13)",
    "SC interleaving; weak CAS = strong (x86); -O0 instrumented build",
]
ASSUME = ["given C01 and C02 (a fiber behaves as a sequential process that is resumed once per wake-up): the T1 cut of DESIGN.md 3.4",
          "given C13 (mpmc_fifo push / trypop are linearizable): the waiter queue is an atomic FIFO",
          "the counter stays inside the int range (no 2^31 outstanding waits or units)"]
