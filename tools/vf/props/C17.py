"""C17 work queue: Coq theorems (Properties_C17.v) + lock-step correspondence of
src/work_queue.c (with the inlined include/mpsc_fifo.h push/trypop) with
coq/WorkQueue.v + implementation-side monitor.

case = params [drain budget], per thread a list of (1, item) pushes / (2, item)
pushes marked "fast-forward", items distinct and in 2..1100, schedule.  The
harness thread follows the documented protocol: a push that returns
START_WORKING is followed by get_work calls until EMPTY.  Trace: locs 0 head,
1 tail, 2 in_count, 3 out_count, 98+2n node n data, 99+2n node n next; push ret
at loc k+1, get_work ret at loc 100+k+1 (value = item handed out, 0 = EMPTY).

Fast-forward: a marked push that returns START_WORKING is followed by one extra
step of the fresh worker (event  tid 2 919 FFAMT) which adds FFAMT = 2^k - 3
(op (10 + j, item): k = FF_K[j]; op (2, item) = (10, item): k = 32)
to both in_count and out_count -- the state FFAMT rounds of "push one more, get
one" by that worker reach through the public API -- so that sessions in which
in_count passes 2^32 are exercised (family fast_forward of gen_cases)."""
import random

from vf import core

THEOREMS = ["wq_one_worker", "wq_each_item_once", "wq_empty_means_drained",
            "wq_no_stranded_item", "wq_mpsc_single_consumer"]
PUSH = 1
PUSH_FF = 2        # push; if told START_WORKING: both counters += FFAMT before the first get_work
FFAMT = 2 ** 32 - 3
FF_K = (32, 20, 16, 31, 24, 8, 12, 36)     # table entry j adds 2^FF_K[j] - 3 (ffamt in coq/WorkQueue.v, rt/h_wq.c)


def ffop(j):
    return 10 + j


def rand_mark(rng, p=0.2):
    """op code of a random push: marked with probability p (half of them the old code 2)"""
    if rng.random() >= p:
        return PUSH
    return PUSH_FF if rng.random() < 0.5 else ffop(rng.randrange(len(FF_K)))
FF_STEPS = 1
LOC_IN = 2
PUSH_STEPS = 4     # add_and_fetch, next := NULL, exchange tail, link
TAKE_STEPS = 7     # head, next, head :=, data, data :=, out_count read, write
RETIRE_STEPS = 7   # head, next (NULL), out, in, out, out := 0, sub_and_fetch
DMAX = 3000


L_REST = 3900     # search mode: byte b of the work_queue_t = 3900 + b (bytes registered otherwise keep their locs)


def parse_case(case):
    v = [int(x) for x in case.split()]
    nthreads = v[1 + v[0]]
    progs, i = [], 2 + v[0]
    for _ in range(nthreads):
        n = v[i]; i += 1
        progs.append([v[i + 2 * j + 1] for j in range(n)])
        i += 2 * n
    return progs


def monitor(case, tr, raw):
    """property oracle on an implementation trace (None = fine).  Uses only the
    add_and_fetch events on in_count (an item is announced), which push call an
    access belongs to (the push has started) and the return events of push /
    get_work."""
    if tr is None:
        return "implementation produced no trace: %s" % (raw or "")[:80]
    # search mode (RT_CATCHALL=1): accesses to bytes of the object(s) that have no location of their own are
    # scheduling points, not events of the protocol judged here
    tr = [e for e in tr if e[1] < L_REST or e[2] in (909, 919)]
    progs = parse_case(case)
    nthreads = len(progs)
    allitems = [a for p in progs for a in p]
    npush = [0] * nthreads        # pushes returned
    nann = [0] * nthreads         # add_and_fetch executed
    worker = [False] * nthreads   # between START_WORKING and EMPTY
    announced, handed = [], set()
    started = set()               # items whose push call has performed an access
    stuck = False
    for (t, loc, kind, val) in tr:
        if kind == 919:
            if loc == LOC_IN:     # fast-forward of the harness: neutral (counter values are never judged)
                continue
            stuck = True
            continue
        if kind != 909 and not worker[t] and npush[t] < len(progs[t]):
            started.add(progs[t][npush[t]])
        if kind // 10 == 5 and loc == LOC_IN:      # fetch_add on in_count
            if nann[t] >= len(progs[t]):
                return "thread %d announced more items than it pushes" % t
            announced.append(progs[t][nann[t]])
            nann[t] += 1
        elif kind == 909 and loc <= 100:           # push returned
            npush[t] += 1
            if val == 1:
                others = [u for u in range(nthreads) if worker[u]]
                if others:
                    return "thread %d told START_WORKING while thread %d is still the worker" % (t, others[0])
                worker[t] = True
            elif val != 0:
                return "push returned %d" % val
        elif kind == 909:                          # get_work returned
            if not worker[t]:
                return "get_work result for thread %d which is not the worker" % t
            others = [u for u in range(nthreads) if worker[u] and u != t]
            if others:
                return "two workers at once: threads %d and %d" % (t, others[0])
            if val == 0:
                out = [a for a in announced if a not in handed]
                if out:
                    return "get_work returned EMPTY while announced item %d had not been handed out" % out[0]
                worker[t] = False
            else:
                if val in handed:
                    return "item %d handed out twice" % val
                if val not in allitems:
                    return "item %d handed out but never pushed" % val
                if val not in started:
                    return "item %d handed out before its push started" % val
                handed.add(val)
    if stuck:
        return "run did not complete within the drain budget (a thread is stuck): handed %d of %d items" % (
            len(handed), len(allitems))
    missing = [a for a in allitems if a not in handed]
    if missing:
        return "run completed but item %d was never handed out (stranded)" % missing[0]
    if any(worker):
        return "run completed with a worker still active"
    return None


def ff_sched(order, overlap, W, place):
    """schedule for: thread 0 = worker whose marked push fast-forwards; order = pusher thread of each further
    push.  overlap k in 1..3: a push by another thread than its predecessor starts (add_and_fetch) after k steps of the
    predecessor; 0: pushes one after the other.  W[k-1] = number of worker steps granted before the k-th further
    add_and_fetch (k = 1..3; the 3rd one is the push that lands on 2^32 + 1).  place: where the extra worker steps go
    between two adds (0 right after the previous add, 1 right before the next, 2 spread)."""
    keyed = []
    for j, u in enumerate(order):
        for i in range(PUSH_STEPS):
            key = 4.0 * j + i
            if i == 0 and overlap and j > 0 and order[j - 1] != u:
                key = 4.0 * (j - 1) + overlap - 0.5
            keyed.append((key, j, u))
    G = [u for (_, _, u) in sorted(keyed)]
    seen, adds = {}, []          # indices in G of the add_and_fetch steps
    for idx, u in enumerate(G):
        if seen.get(u, 0) % PUSH_STEPS == 0:
            adds.append(idx)
        seen[u] = seen.get(u, 0) + 1
    sched, done, lo = [], 0, 0
    for k, w in enumerate(W):
        if k >= len(adds):
            break
        seg, extra = G[lo:adds[k]], max(0, w - done)
        if seg:                       # seg[0] is the previous add_and_fetch
            sched.append(seg[0])
            seg = seg[1:]
        if k == 0 or place == 0:
            sched += [0] * extra + seg
        elif place == 1 or not seg:
            sched += seg + [0] * extra
        else:
            per, r = divmod(extra, len(seg))
            for i, g in enumerate(seg):
                sched += [g] + [0] * (per + (1 if i < r else 0))
        done += extra
        lo = adds[k]
    return sched + G[lo:]


def ff_family(rng, tier):
    """the worker (thread 0, one marked push) fast-forwards; then 2..6 further pushes by 1-3 other threads while the
    worker is active.  in_count after the fast-forward is 2^32 - 2: the 3rd further push lands on 2^32 + 1.  The
    worker must not see out_count == in_count before that (it would rebase the counters): with k items taken its
    earliest comparison is its step 5 + 7k + 4, so W[k-1] <= 8 + 7k keeps it one announced item behind."""
    cases = []
    orders = [[1, 1], [1, 2], [1, 1, 1], [1, 2, 1], [1, 2, 2], [2, 1, 2], [1, 1, 2], [1, 2, 3], [3, 2, 1],
              [1, 1, 1, 1], [1, 2, 1, 2], [2, 2, 1, 1], [1, 2, 3, 1], [1, 1, 1, 2, 2], [1, 2, 1, 2, 1],
              [1, 2, 3, 3, 2], [1, 1, 1, 1, 1, 1], [1, 2, 1, 2, 1, 2], [2, 1, 1, 2, 3, 3]]
    lim = [8 + 7 * k for k in (1, 2, 3)]

    def emit(order, overlap, W, place, tail0, j=None):
        nt = max(order) + 1
        items = iter(range(3, 60))
        progs = [[(PUSH_FF if j is None else ffop(j), 2)] + [(rand_mark(rng, 0.5), 40 + i) for i in range(tail0)]]
        for u in range(1, nt):
            progs.append([(rand_mark(rng), next(items)) for _ in order if _ == u])
        cases.append(core.fmt_case([DMAX], progs, ff_sched(order, overlap, W, place)))

    # sweep: which thread performs the crossing push (order[2]) x where the worker is at that moment (W3 = 5..29)
    for order in ([1, 1, 1], [1, 2, 1], [1, 2, 2], [2, 1, 2], [1, 2, 3], [1, 1, 1, 1], [1, 2, 2, 1], [1, 2, 3, 3, 2, 1]):
        for w3 in range(PUSH_STEPS + FF_STEPS, lim[2] + 1):
            for place in (0, 1, 2):
                W = [min(w3, lim[0] - (place == 2)), min(w3, lim[1]), w3]
                emit(order, (w3 + place) % 4, W, place, 1 if w3 % 5 == 0 else 0)
    # the same for the other table entries (in_count passes 2^k with the worker active, at every worker position)
    for j in range(1, len(FF_K)):
        for oi, order in enumerate(([1, 1, 1], [1, 2, 1], [1, 2, 3, 3])):
            for w3 in range(PUSH_STEPS + FF_STEPS, lim[2] + 1):
                place = (w3 + oi) % 3
                W = [min(w3, lim[0] - (place == 2)), min(w3, lim[1]), w3]
                emit(order, (w3 + j) % 4, W, place, 0, j)
    n_sweep = len(cases)
    # random triples on every order (the fast-forward may also come after the first further pushes: W1 < 5)
    per = 6 if tier == "quick" else 60
    for order in orders:
        for _ in range(per):
            w1 = rng.randint(1, lim[0])
            w2 = rng.randint(w1, lim[1])
            w3 = rng.randint(max(w2, PUSH_STEPS + FF_STEPS), lim[2])
            emit(order, rng.randrange(4), [w1, w2, w3], rng.randrange(3), rng.randrange(2),
                 rng.choice([None] + list(range(len(FF_K)))))
    return cases, n_sweep


def pingpong_family():
    """no backlog: the worker (thread 0, marked push with table entry j) takes its own item, then m - 1 times (another
    thread pushes one item; the worker takes it): after the 3rd item out_count == in_count == 2^k exactly, after the
    4th .. 6th 2^k + 1 .. 2^k + 3, with the worker between two get_work calls.  Then e more worker steps (0 = still
    between the calls; 4 = it has compared the counters; up to 10 so that code with a few extra accesses per
    get_work is also met at every point) and one more push, alone or with the worker moving after its add_and_fetch.
    Correct code tells that push QUEUED unless the worker already retired."""
    cases = []
    pre = PUSH_STEPS + FF_STEPS + TAKE_STEPS
    for j in range(len(FF_K)):
        for m in range(3, 7):
            for alt in (0, 1):
                who = [1 + (i % 2 if alt else 0) for i in range(m)]        # pusher of further push i; last = final
                nt = 3 if alt else 2
                items = iter(range(3, 60))
                progs = [[(ffop(j), 2)]] + [[(PUSH, next(items)) for w in who if w == u] for u in range(1, nt)]
                body = [0] * pre
                for u in who[:-1]:
                    body += [u] * PUSH_STEPS + [0] * TAKE_STEPS
                f = who[-1]
                for e in range(0, 11):
                    for tail in ([f] * PUSH_STEPS, [f] + [0] * 3 + [f] * (PUSH_STEPS - 1)):
                        cases.append(core.fmt_case([DMAX], progs, body + [0] * e + tail))
    return cases


def gen_cases(ctx, tier):
    rng = random.Random(ctx.seed * 7919 + 17)
    cases = []
    # (1) exhaustive: thread 0 pushes item 2 (becomes the worker) and has run
    # `pre` steps alone; then every interleaving of its next steps with the 4
    # accesses of thread 1's push.  pre covers: nothing yet, push done, mid-take,
    # take done, inside the retire sequence.
    full0 = PUSH_STEPS + TAKE_STEPS + RETIRE_STEPS
    for pre in (0, 2, 4, 8, 11, 13, 14, 15, 16, 17):
        rest = min(full0 - pre, 14)
        for il in core.interleavings([rest, PUSH_STEPS]):
            cases.append(core.fmt_case([DMAX], [[(PUSH, 2)], [(PUSH, 3)]], [0] * pre + il))
    # the same with thread 1 pushing twice (the second push may find the worker
    # retired and become the worker itself)
    for pre in (11, 13, 15, 16, 17):
        ils = core.interleavings([min(full0 - pre, 6 if tier == "quick" else 8), 2 * PUSH_STEPS])
        for il in ils:
            cases.append(core.fmt_case([DMAX], [[(PUSH, 2)], [(PUSH, 3), (PUSH, 4)]], [0] * pre + il))
    n_ex = len(cases)
    # (4) boundary inputs for the case splits of the proof
    b0 = len(cases)
    t0_to_cmp = PUSH_STEPS + TAKE_STEPS + 4     # thread 0 has read out_count == in_count
    for k in range(0, 4):                        # announce lands before/inside read-zero-sub
        sch = [0] * (t0_to_cmp + k) + [1] + [0] * (3 - k) + [0] * 8 + [1] * 3
        cases.append(core.fmt_case([DMAX], [[(PUSH, 2)], [(PUSH, 3)]], sch))
    for k in range(1, 4):                        # pusher stalls after k of its 4 accesses: worker spins
        sch = [0] * PUSH_STEPS + [1] * k + [0] * 40 + [1] * 4
        cases.append(core.fmt_case([DMAX], [[(PUSH, 2)], [(PUSH, 3)]], sch))
    for k in range(1, 4):                        # two pushers, out of order linking
        sch = [1] * k + [2] * 4 + [0] * 30 + [1] * 4
        cases.append(core.fmt_case([DMAX], [[(PUSH, 2)], [(PUSH, 3)], [(PUSH, 4)]], sch))
    cases.append(core.fmt_case([DMAX], [[]], []))
    cases.append(core.fmt_case([DMAX], [[], [(PUSH, 2)]], [1, 1, 0, 1]))
    n_b = len(cases) - b0
    # (5) fast-forward: sessions in which in_count passes 2^32 while the worker is active
    ff, n_ff_sweep = ff_family(rng, tier)
    pp = pingpong_family()
    cases += ff + pp
    ctx.ff_cases = ff + pp
    # (2) random programs x schedules (three styles)
    nrand = 4000 if tier == "quick" else 60000
    for _ in range(nrand):
        nt = rng.choice([2, 2, 3, 3, 4, 5])
        items = list(range(2, 60))
        rng.shuffle(items)
        progs = []
        for t in range(nt):
            n = rng.randint(0 if nt > 2 else 1, 5)
            progs.append([(rand_mark(rng), items.pop()) for _ in range(n)])
        total = sum(len(p) for p in progs)
        length = rng.randint(4, (PUSH_STEPS + TAKE_STEPS + 6) * total + 8)
        cases.append(core.fmt_case([DMAX], progs, core.random_sched(rng, nt, length, rng.randrange(3))))
    # (3) sequential programs
    nseq = 100
    for _ in range(nseq):
        n = rng.randint(1, 12)
        items = rng.sample(range(2, 1100), n)
        cases.append(core.fmt_case([DMAX], [[(rand_mark(rng, 0.35), a) for a in items]], []))
    n3 = 0
    if tier == "thorough":
        # three threads: worker + two pushers, sampled interleavings
        ils = core.interleavings([10, PUSH_STEPS, PUSH_STEPS], limit=None)
        n3 = 40000
        for il in rng.sample(ils, n3):
            pre = rng.choice([4, 8, 11, 13, 15, 16, 17])
            p1 = [(PUSH, 3)] + ([(PUSH, 5)] if rng.random() < 0.3 else [])
            cases.append(core.fmt_case([DMAX], [[(PUSH, 2)], p1, [(PUSH, 4)]], [0] * pre + il))
    ctx.coverage["case_distribution"] = {"exhaustive_2thread_interleavings": n_ex, "boundary": n_b,
                                         "fast_forward_sweep": n_ff_sweep, "fast_forward_random": len(ff) - n_ff_sweep,
                                         "fast_forward_no_backlog": len(pp),
                                         "random_programs": nrand, "sequential": nseq,
                                         "sampled_3thread_interleavings": n3, "total": len(cases)}
    return cases


def build(ctx):
    return core.build_harness(ctx, "h_wq", "h_wq.c", repo_sources=["src/work_queue.c"])


def run(ctx):
    ctx.trusted = TRUSTED
    core.coq_property(ctx, "Properties_C17.v", THEOREMS)
    exe = build(ctx)
    if exe:
        cases = corpus(ctx) + gen_cases(ctx, ctx.tier)
        ok = core.correspond(ctx, "wq", "workqueue", exe, cases, monitor)
        st = ctx.stats["wq"]
        ffm = core.model_run("workqueue", ctx.ff_cases)
        ctx.coverage["fast_forward"] = {
            "rule": "cases of the fast_forward families; in_crossing[k] = the trace has an add_and_fetch on in_count "
                    "that reads 2^k (that push is number 2^k + 1 of its session, with the first worker still active); "
                    "out_exact[k] = the worker's out_count += 1 writes exactly 2^k",
            "cases": len(ffm),
            "in_crossing": {str(k): sum(1 for l in ffm if l and (" 2 55 %d " % 2 ** k) in " " + l + " ") for k in FF_K},
            "out_exact": {str(k): sum(1 for l in ffm if l and (" 3 19 %d " % 2 ** k) in " " + l + " ") for k in FF_K}}
        ctx.coverage.update({"traces_validated_against_impl": st["cases"] - st["differ"],
                             "evaluations": st["cases"], "distinct_nontrivial": st["nontrivial"],
                             "rule": "case = (push lists per thread, schedule); non-trivial = at least one "
                                     "push returned QUEUED or a worker was told EMPTY in the implementation trace"})
        if not ok or ctx.failures:
            search(ctx, exe)
    core.init_contract(ctx, ["work_queue"])  # rt/h_init.c: real init on dirty memory
    core.finish(ctx, extra_assumptions=ASSUME)


def search(ctx, exe):
    """something stopped checking: look for a concrete property failure on the
    implementation with more schedules (monitor only)."""
    if ctx.violations:
        return
    rng_ctx = core.Ctx(ctx.pid, "thorough", ctx.seed + 1000)
    try:
        cases = gen_cases(rng_ctx, "thorough")[:40000]
    finally:
        rng_ctx.cleanup()
    # RT_CATCHALL: every byte of the work_queue_t is a scheduling point (fields the model does not know included)
    scases, impl = core.run_search(ctx, exe, cases)   # plain schedules first, then with every byte of the object a scheduling point
    for c, line in zip(scases, impl):
        why = core.safe_monitor(monitor, c, core.parse_trace(line) if line is not None else None, line)
        if why:
            core.report_violation(ctx, "wq+catchall", c, why, line)
            if len(ctx.violations) >= 3:
                break


def corpus(ctx):
    import os
    p = os.path.join(core.VERIF, "corpus", "C17.txt")
    try:
        return [l.strip() for l in open(p) if l.strip() and not l.startswith("#")]
    except OSError:
        return []


def replay(ctx, payload):
    if payload.get("harness") == "h_init":
        return core.replay_init(ctx, payload)
    exe = build(ctx)
    c = payload.get("case")
    if not exe or not c:
        print("nothing to replay (no concrete case in this file)")
        return 2
    if str(payload.get("harness", "")).endswith("+catchall"):
        impl = core.run_sharded(["env", "RT_CATCHALL=1", exe], [c])[0]
        why = core.safe_monitor(monitor, c, core.parse_trace(impl) if impl is not None else None, impl)
        print("case:  %s\nimpl (every byte of the object a scheduling point):  %s\nmonitor: %s" % (c, impl, why or "ok"))
        return 1 if why else 0
    impl = core.run_sharded([exe], [c])[0]
    mod = core.model_run("workqueue", [c])[0]
    why = monitor(c, core.parse_trace(impl), impl)
    print("case:  %s\nimpl:  %s\nmodel: %s\nmonitor: %s\nlock-step: %s" %
          (c, impl, mod, why or "ok", "identical" if impl == mod else "DIFFER"))
    return 1 if (why or impl != mod) else 0


TRUSTED = [
    "Coq 8.16.1 kernel + vm_compute (no native_compute)",
    "Print Assumptions of each theorem (recorded under print_assumptions)",
    "extraction: Require Extraction + ExtrOcamlBasic only (bool/option/unit/list/prod/sumbool); no Extract Constant",
    "OCaml driver coq/extract/driver.ml (int <-> Z conversion, line I/O)",
    "rt/rt.c: gcc -fsanitize=thread access hooks as the source of access events, baton scheduler",
    "model of work_queue.c + the inlined mpsc_fifo.h push/trypop written by hand (coq/WorkQueue.v); "
    "tie = identical per-access traces",
    "SC interleaving of accesses (x86 locked RMW for add/sub/exchange); -O0 instrumented build",
    "callers follow the documented protocol (START_WORKING -> get_work until EMPTY), as rt/h_wq.c does",
    "fast-forward (rt/h_wq.c h_wq_ffwd, pc GFfwd of the model): the fresh worker adds 2^32 - 3 to in_count and "
    "out_count in one step before its first get_work -- white-box shortcut for 2^32 - 3 rounds of (push one more item; "
    "get one item) by that worker through the public API (same counters, same number of queued items)",
]
ASSUME = ["in_count/out_count stay below 2^63 (Z in the model)",
          "pushed items are distinct nodes, none NULL or the fifo's stub, and an item is not pushed again "
          "(the queue owns an item after push): hypothesis wf_progs of every theorem"]
