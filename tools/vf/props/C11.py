"""C11 channels and signals: Coq theorems (Properties_C11.v) + lock-step correspondence of
include/fiber_signal.h, include/fiber_channel.h (unbounded MPSC, bounded) and
include/fiber_multi_channel.h (all header-only, compiled into the harnesses; also the single-producer channel over
include/spsc_fifo.h, coq/SpChan.v, lock-step + monitor only; the channel
mutex and the wait/wake/maintenance protocol are the real src/fiber_mutex.c,
src/fiber_manager.c) on the T1 machine with coq/Signal.v, coq/UChan.v, coq/BChan.v
(clients of coq/T1K.v via coq/ChanK.v) and coq/MChan.v, + implementation-side monitors."""
import os
import random

from vf import core

THEOREMS = [
    "signal_word_domain", "signal_no_lost_raise", "signal_wake_after_sleep",
    "chan_exactly_once_in_sender_order", "chan_receiver_not_stranded",
    "bounded_capacity", "bounded_exactly_once_in_order", "bounded_receiver_not_stranded",
    "multichan_no_stranded_one_list_refuted", "multichan_capacity_partial",
    "multichan_exactly_once_in_order_partial", "multichan_no_stranded_partial",
]
T1_SOURCES = ["src/fiber_manager.c", "src/fiber.c", "src/fiber_mutex.c", "src/fiber_spinlock.c",
              "src/hazard_pointer.c"]
T1_FLAGS = ["-Dpthread_create=t1_pthread_create"]

WAIT, RAISE, USEND, URECV, BSEND, BRECV, UTRY, BTRY = 1, 2, 3, 4, 5, 6, 7, 8
MSEND, MRECV = 1, 2
L_WAITER, L_HEAD, L_TAIL, L_HIGH, L_LOW = 503, 507, 511, 515, 519

PAIRS = [  # label = model = lowercase Coq file name, harness
    ("signal", "h_signal.c"), ("uchan", "h_uchan.c"), ("bchan", "h_bchan.c"), ("mchan", "h_mchan.c"),
    ("spchan", "h_spchan.c")]


def l_scr(t):
    return 502 + 4 * t


def is_buf(loc):
    return loc >= 501 and loc % 4 == 1


def is_scr(loc):
    return loc >= 502 and loc % 4 == 2


def parse_case(case):
    v = [int(x) for x in case.split()]
    i = 1 + v[0]
    n = v[i]; i += 1
    progs = []
    for _ in range(n):
        k = v[i]; i += 1
        progs.append([(v[i + 2 * j], v[i + 2 * j + 1]) for j in range(k)])
        i += 2 * k
    return v[1:1 + v[0]], progs


# --------------------------------------------------------------------------
# monitors: oracles of the PROPERTY on the implementation trace
# --------------------------------------------------------------------------
class SignalWatch:
    """the signal protocol as seen on a trace (shared by the signal and channel monitors)."""

    def __init__(self):
        self.registered = None     # fiber whose CAS succeeded and that has not been scheduled since
        self.marker = {}           # fiber -> its maintenance has set READY_TO_WAKE for the current wait
        self.xchg_after_cas = 0    # raises that exchanged since the last successful CAS
        self.xchg_since_clear = 0  # raises that exchanged since the waiter's last final clear
        self.claimed = {}          # raiser -> fiber it took out of the word
        self.asleep_since_cas = False

    def event(self, t, loc, kind, val, waiter_final_store):
        if loc == L_WAITER and kind // 10 == 7:          # waiter registered itself
            if val != 1000 + t:
                return "thread %d registered %d in the signal" % (t, val)
            if self.registered is not None:
                return "second waiter %d registered while %d is registered" % (t, self.registered)
            self.registered = t
            self.marker[t] = False
            self.xchg_after_cas = 0
        elif loc == L_WAITER and kind // 10 == 4:        # a raise
            self.xchg_after_cas += 1
            self.xchg_since_clear += 1
            if val >= 1000:
                f = val - 1000
                if f != self.registered:
                    return "raise by %d took fiber %d out of the signal but %s is registered" % (t, f, self.registered)
                if f in self.claimed.values():
                    return "fiber %d taken out of the signal twice" % f
                self.claimed[t] = f
        elif is_scr(loc) and kind == 19 and val == -1:
            f = (loc - 502) // 4
            if f != t:
                return "thread %d set the ready-to-wake marker of fiber %d" % (t, f)
            self.marker[f] = True
        elif 200 <= loc < 300 and kind == 19 and val == 2 and t in self.claimed:
            f = loc - 200
            if f != self.claimed[t]:
                return "raiser %d made fiber %d READY but had claimed %d" % (t, f, self.claimed[t])
            if not self.marker.get(f):
                return "raiser %d made fiber %d READY before its maintenance set the marker (woken before asleep)" % (t, f)
        elif loc == 901 and kind == 919:
            f = val
            if self.claimed.get(t) != f:
                return "thread %d scheduled fiber %d without having claimed it from the signal" % (t, f)
            if not self.marker.get(f):
                return "fiber %d scheduled before its maintenance set the marker (woken before asleep)" % f
            if self.registered != f:
                return "fiber %d scheduled although it is not registered (double wake-up)" % f
            del self.claimed[t]
            self.registered = None
        elif loc == L_WAITER and kind // 10 == 3 and waiter_final_store:
            if self.xchg_since_clear == 0:
                return "wait of thread %d returns although no raise happened since its previous return" % t
            self.xchg_since_clear = 0
        return None

    def at_end(self, blocked):
        if self.registered is not None and self.registered in blocked and self.xchg_after_cas > 0:
            return ("lost raise: fiber %d sleeps on the signal although %d raise(s) exchanged the word after it "
                    "registered" % (self.registered, self.xchg_after_cas))
        return None


def stuck_threads(tr):
    blocked, spinning = [], []
    for (t, loc, kind, val) in tr:
        if kind == 919 and loc == 0 and val == 7:
            blocked.append(t)
        elif kind == 919 and loc == 0 and val == 8:
            spinning.append(t)
    return blocked, spinning


def mon_signal(case, tr, raw):
    if tr is None:
        return "implementation produced no trace: %s" % (raw or "")[:80]
    _, progs = parse_case(case)
    n = len(progs)
    opidx = [0] * n
    sw = SignalWatch()
    for (t, loc, kind, val) in tr:
        if kind == 919 and loc == 0 and val in (7, 8):
            continue
        cur = progs[t][opidx[t]][0] if opidx[t] < len(progs[t]) else None
        why = sw.event(t, loc, kind, val, cur == WAIT)
        if why:
            return why
        if kind == 909:
            if cur == RAISE and val not in (0, 1):
                return "raise returned %d" % val
            opidx[t] += 1
    blocked, spinning = stuck_threads(tr)
    if spinning:
        return "thread(s) %s still spinning at the end (raiser never saw the ready-to-wake marker)" % spinning
    return sw.at_end(blocked)


def mon_uchan(case, tr, raw, tail_kind=4):
    if tr is None:
        return "implementation produced no trace: %s" % (raw or "")[:80]
    _, progs = parse_case(case)
    n = len(progs)
    opidx = [0] * n
    sw = SignalWatch()
    order = []                      # messages in the order of the tail exchanges
    received = []
    sent_done = 0
    last_from = {}
    sender_of = {}
    for t, p in enumerate(progs):
        for j, (o, a) in enumerate(p):
            if o == USEND:
                sender_of[a % 1000] = (t, j)
    for (t, loc, kind, val) in tr:
        if kind == 919 and loc == 0 and val in (7, 8):
            continue
        cur = progs[t][opidx[t]] if opidx[t] < len(progs[t]) else (None, 0)
        why = sw.event(t, loc, kind, val, cur[0] == URECV)
        if why:
            return why
        if loc == L_TAIL and kind // 10 == tail_kind:
            if cur[0] != USEND:
                return "tail exchanged by a non-sender"
            order.append(cur[1] % 1000)
        elif kind == 909:
            if cur[0] == USEND:
                sent_done += 1
            elif cur[0] in (URECV, UTRY):
                if val != 0:
                    if val not in sender_of:
                        return "received %d which nobody sent" % val
                    if val in received:
                        return "message %d received twice" % val
                    if len(received) >= len(order) or order[len(received)] != val:
                        return "received %d out of order (tail-exchange order %s, already received %s)" % (val, order, received)
                    s, j = sender_of[val]
                    if last_from.get(s, -1) >= j:
                        return "messages of sender %d received out of order" % s
                    last_from[s] = j
                    received.append(val)
                elif cur[0] == URECV:
                    return "blocking receive returned NULL"
            opidx[t] += 1
    blocked, spinning = stuck_threads(tr)
    if spinning:
        return "thread(s) %s still spinning at the end" % spinning
    why = sw.at_end(blocked)
    if why:
        return why
    if blocked and sent_done > len(received):
        return "stranded receiver: thread(s) %s blocked although %d sent messages are unreceived" % (
            blocked, sent_done - len(received))
    return None


def mon_bchan(case, tr, raw):
    if tr is None:
        return "implementation produced no trace: %s" % (raw or "")[:80]
    params, progs = parse_case(case)
    size = 1 << params[1]
    n = len(progs)
    opidx = [0] * n
    sw = SignalWatch()
    order, received = [], []
    nhigh = nlow = 0
    sent_done = 0
    buf = {}
    last_from = {}
    sender_of = {}
    for t, p in enumerate(progs):
        for j, (o, a) in enumerate(p):
            if o == BSEND:
                sender_of[a] = (t, j)
    for (t, loc, kind, val) in tr:
        if kind == 919 and loc == 0 and val in (7, 8):
            continue
        cur = progs[t][opidx[t]] if opidx[t] < len(progs[t]) else (None, 0)
        why = sw.event(t, loc, kind, val, cur[0] == BRECV)
        if why:
            return why
        if loc == L_HIGH and kind // 10 == 7:
            if cur[0] != BSEND:
                return "high advanced by a non-sender"
            nhigh += 1
            if val != nhigh:
                return "high jumped to %d after %d claims" % (val, nhigh)
            order.append(cur[1])
            if nhigh - nlow > size:
                return "capacity exceeded: %d outstanding, size %d" % (nhigh - nlow, size)
        elif loc == L_LOW and kind // 10 == 3:
            nlow += 1
            if val != nlow:
                return "low stored %d after %d receives" % (val, nlow)
            if nlow > nhigh:
                return "low passed high"
        elif is_buf(loc) and kind == 19:
            old = buf.get(loc, 0)
            if val != 0 and old != 0:
                return "slot %d overwritten while holding unreceived message %d" % ((loc - 501) // 4, old)
            if val == 0 and old == 0:
                return "slot %d cleared twice" % ((loc - 501) // 4)
            buf[loc] = val
        elif kind == 909:
            if cur[0] == BSEND:
                sent_done += 1
            elif cur[0] in (BRECV, BTRY):
                if val != 0:
                    if val not in sender_of:
                        return "received %d which nobody sent" % val
                    if val in received:
                        return "message %d received twice" % val
                    if len(received) >= len(order) or order[len(received)] != val:
                        return "received %d out of order (claim order %s, already received %s)" % (val, order, received)
                    s, j = sender_of[val]
                    if last_from.get(s, -1) >= j:
                        return "messages of sender %d received out of order" % s
                    last_from[s] = j
                    received.append(val)
                elif cur[0] == BRECV:
                    return "blocking receive returned NULL"
            opidx[t] += 1
    blocked, spinning = stuck_threads(tr)
    why = sw.at_end(blocked)
    if why:
        return why
    if blocked and sent_done > len(received):
        return "stranded receiver: thread(s) %s blocked although %d sent messages are unreceived" % (
            blocked, sent_done - len(received))
    for t in spinning:
        cur = progs[t][opidx[t]] if opidx[t] < len(progs[t]) else (None, 0)
        if cur[0] != BSEND:
            return "thread %d still spinning at the end outside a send" % t
        if nhigh - nlow < size and not blocked and all(
                u == t or u in spinning for u in range(n) if opidx[u] < len(progs[u])):
            # every live thread is a spinning sender and the buffer has room
            return "sender %d spins although the buffer has room" % t
    return None


def mon_mchan(case, tr, raw):
    if tr is None:
        return "implementation produced no trace: %s" % (raw or "")[:80]
    params, progs = parse_case(case)
    size = 1 << params[1]
    n = len(progs)
    opidx = [0] * n
    order, received = [], []
    high = low = 0
    buf = {}
    last_from = {}
    sender_of = {}
    taken = {}
    for t, p in enumerate(progs):
        for j, (o, a) in enumerate(p):
            if o == MSEND:
                sender_of[a] = (t, j)
    for (t, loc, kind, val) in tr:
        if kind == 919 and loc == 0 and val in (7, 8):
            continue
        cur = progs[t][opidx[t]] if opidx[t] < len(progs[t]) else (None, 0)
        if loc == L_HIGH and kind == 19:
            if cur[0] != MSEND or val != high + 1:
                return "high written %d (was %d) by thread %d" % (val, high, t)
            high = val
            order.append(cur[1])
            if high - low > size:
                return "capacity exceeded: %d outstanding, size %d" % (high - low, size)
        elif loc == L_LOW and kind == 19:
            if cur[0] != MRECV or val != low + 1:
                return "low written %d (was %d) by thread %d" % (val, low, t)
            low = val
            if low > high:
                return "low passed high"
            m = taken.get(t)
            if m not in sender_of:
                return "received %s which nobody sent" % m
            if m in received:
                return "message %d received twice" % m
            if len(received) >= len(order) or order[len(received)] != m:
                return "received %d out of order (send order %s, already received %s)" % (m, order, received)
            s, j = sender_of[m]
            if last_from.get(s, -1) >= j:
                return "messages of sender %d received out of order" % s
            last_from[s] = j
            received.append(m)
        elif is_buf(loc) and kind == 9 and cur[0] == MRECV:
            taken[t] = val
        elif is_buf(loc) and kind == 19:
            old = buf.get(loc, 0)
            if val != 0 and old != 0:
                return "slot %d overwritten while holding unreceived message %d" % ((loc - 501) // 4, old)
            buf[loc] = val
        elif kind == 909:
            if cur[0] == MRECV and val != taken.get(t):
                return "receive by %d returned %d but took %s out of the buffer" % (t, val, taken.get(t))
            opidx[t] += 1
    blocked, spinning = stuck_threads(tr)
    if spinning:
        return "thread(s) %s still running at the end (drain too short or livelock)" % spinning
    if blocked:
        bs = [t for t in blocked if opidx[t] < len(progs[t]) and progs[t][opidx[t]][0] == MSEND]
        br = [t for t in blocked if opidx[t] < len(progs[t]) and progs[t][opidx[t]][0] == MRECV]
        kinds = "blocked senders %s, blocked receivers %s" % (bs, br)
        if bs and high - low < size:
            return "stranded sender: thread(s) %s blocked forever although the buffer has room (%d of %d), nobody runnable; %s" % (
                bs, high - low, size, kinds)
        if br and high - low > 0:
            return "stranded receiver: thread(s) %s blocked forever although %d message(s) are buffered, nobody runnable; %s" % (
                br, high - low, kinds)
    return None


def mon_spchan(case, tr, raw):
    """single-producer channel: same oracle as the MPSC channel; the queue order is the order of
    the producer's tail stores"""
    return mon_uchan(case, tr, raw, tail_kind=3)


L_REST = 13900     # search mode (RT_CATCHALL=1): byte b of the signal = 13900 + b, of the channel object = 14900 + b,
#                    for every byte that has no location above (node locations of h_uchan/h_spchan end at 8508)


def _known_locs_only(mon):
    """the monitors read the locations of the model; accesses to other bytes of the objects (search mode only) are
    scheduling points, not events of the protocol: they are dropped here, never mistaken for buffer / scratch cells"""
    def m(case, tr, raw):
        if tr is not None:
            tr = [e for e in tr if e[1] < L_REST]
        return mon(case, tr, raw)
    return m


MONITORS = {"signal": mon_signal, "uchan": mon_uchan, "bchan": mon_bchan, "mchan": mon_mchan,
            "spchan": mon_spchan}
MONITORS = {k: _known_locs_only(v) for (k, v) in MONITORS.items()}


# --------------------------------------------------------------------------
# cases
# --------------------------------------------------------------------------
def gen_signal(rng, tier):
    cases = []
    # covering: a raise lands after k steps of the waiter's wait; second raiser j steps later
    for k in range(0, 22):
        for j in range(0, 6):
            sched = [0] * (1 + k) + [1] * (2 + j) + [2] * 9 + [0] * 6 + [1] * 12
            cases.append(core.fmt_case([800], [[(WAIT, 0)] * 2, [(RAISE, 0)], [(RAISE, 0)]], sched))
            sched = [0] * (1 + k) + [1] * (3 + j) + [0] * 25 + [1] * 10
            cases.append(core.fmt_case([800], [[(WAIT, 0)] * 2, [(RAISE, 0)] * 2], sched))
    for il in core.interleavings([4, 4, 4], limit=600):
        cases.append(core.fmt_case([800], [[(WAIT, 0)], [(RAISE, 0)], [(RAISE, 0)]], [0, 1, 2] + il))
    ncov = len(cases)
    nrand = 1200 if tier == "quick" else 30000
    for _ in range(nrand):
        nt = rng.choice([2, 2, 3, 4])
        nw = rng.randint(1, 3)
        progs = [[(WAIT, 0)] * nw] + [[(RAISE, 0)] * rng.randint(1, 3) for _ in range(nt - 1)]
        cases.append(core.fmt_case([1000], progs, core.random_sched(rng, nt, rng.randint(5, 70 * nt), rng.randrange(3))))
    for _ in range(20):
        progs = [[(RAISE, 0)] * rng.randint(1, 3) + [(WAIT, 0)] + [(RAISE, 0)] * rng.randint(0, 2)]
        cases.append(core.fmt_case([300], progs, []))
    return cases, {"covering_raise_vs_wait": ncov, "random_programs": nrand, "sequential": 20}


def uchan_progs(rng, nt, maxmsg, tries=True):
    node, progs, tot = 2, [], 0
    for t in range(1, nt):
        p = []
        for j in range(rng.randint(1, maxmsg)):
            p.append((USEND, node * 1000 + 100 * t + j + 1)); node += 1; tot += 1
        progs.append(p)
    nrecv = rng.randint(max(0, tot - 1), tot)
    kinds = [URECV, URECV, URECV, UTRY] if tries else [URECV]
    return [[(rng.choice(kinds), 0) for _ in range(nrecv)]] + progs


def gen_uchan(rng, tier):
    cases = []
    # covering: the send (data, next, xchg, link, raise) lands after k steps of the receiver's
    # trypop + wait; a second sender j steps later
    for k in range(0, 26):
        for j in range(0, 5):
            progs = [[(URECV, 0)] * 2, [(USEND, 2101)], [(USEND, 3201)]]
            sched = [0] * (1 + k) + [1] * (2 + j) + [2] * 4 + [1] * 8 + [0] * 8 + [2] * 12
            cases.append(core.fmt_case([1200], progs, sched))
            progs = [[(URECV, 0)] * 2, [(USEND, 2101), (USEND, 3102)]]
            sched = [0] * (1 + k) + [1] * (3 + j) + [0] * 30 + [1] * 12
            cases.append(core.fmt_case([1200], progs, sched))
    ncov = len(cases)
    nrand = 1200 if tier == "quick" else 30000
    for _ in range(nrand):
        nt = rng.choice([2, 3, 3, 4])
        progs = uchan_progs(rng, nt, 3)
        cases.append(core.fmt_case([1500], progs, core.random_sched(rng, nt, rng.randint(5, 80 * nt), rng.randrange(3))))
    for _ in range(20):
        k = rng.randint(1, 5)
        progs = [[(USEND, (2 + i) * 1000 + 10 + i) for i in range(k)] + [(rng.choice([URECV, UTRY]), 0)] * k + [(UTRY, 0)]]
        cases.append(core.fmt_case([400], progs, []))
    return cases, {"covering_send_vs_receive": ncov, "random_programs": nrand, "sequential": 20}


def gen_bchan(rng, tier):
    cases = []
    for k in range(0, 24):
        for j in range(0, 4):
            progs = [[(BRECV, 0)] * 3, [(BSEND, 101), (BSEND, 102)], [(BSEND, 201)]]
            sched = [0] * (1 + k) + [1] * (2 + j) + [2] * 5 + [1] * 9 + [0] * 9 + [2] * 12
            cases.append(core.fmt_case([1500, 1], progs, sched))
            # full buffer: three sends into two slots, the receiver frees one after k steps
            progs = [[(BRECV, 0)] * 3, [(BSEND, 101), (BSEND, 102), (BSEND, 103)]]
            sched = [1] * (14 + j) + [0] * (1 + k) + [1] * 9 + [0] * 20
            cases.append(core.fmt_case([1500, 1], progs, sched))
    ncov = len(cases)
    nrand = 1200 if tier == "quick" else 30000
    for _ in range(nrand):
        nt = rng.choice([2, 3, 3, 4])
        progs, tot = [], 0
        for t in range(1, nt):
            k = rng.randint(1, 4); tot += k
            progs.append([(BSEND, 100 * t + j + 1) for j in range(k)])
        nrecv = rng.randint(max(0, tot - 1), tot)
        progs = [[(rng.choice([BRECV, BRECV, BRECV, BTRY]), 0) for _ in range(nrecv)]] + progs
        cases.append(core.fmt_case([2000, rng.choice([1, 1, 2])], progs,
                                   core.random_sched(rng, nt, rng.randint(5, 80 * nt), rng.randrange(3))))
    for _ in range(20):
        k = rng.randint(1, 4)
        progs = [[(BSEND, 10 + i) for i in range(k)] + [(rng.choice([BRECV, BTRY]), 0)] * k + [(BTRY, 0)]]
        cases.append(core.fmt_case([400, 2], progs, []))
    return cases, {"covering_send_vs_receive": ncov, "random_programs": nrand, "sequential": 20}


def mchan_progs(rng, ns, nr, maxmsg):
    progs, tot = [], 0
    for t in range(ns):
        k = rng.randint(1, maxmsg); tot += k
        progs.append([(MSEND, 100 * (t + 1) + j + 1) for j in range(k)])
    rem = tot
    for r in range(nr):
        k = rem if r == nr - 1 else rng.randint(0, rem)
        rem -= k
        progs.append([(MRECV, 0)] * k)
    return progs


def gen_mchan(rng, tier):
    cases = []
    for k in range(0, 30):
        for j in range(0, 4):
            progs = [[(MSEND, 101), (MSEND, 102), (MSEND, 103)], [(MRECV, 0)] * 3]
            sched = [0] * (1 + k) + [1] * (2 + 3 * j) + [0] * 30 + [1] * 30
            cases.append(core.fmt_case([3000, 1], progs, sched))
    ncov = len(cases)
    nrand = 1000 if tier == "quick" else 30000
    for _ in range(nrand):
        ns, nr = rng.choice([(1, 1), (1, 2), (2, 1), (2, 2), (3, 2), (1, 3), (3, 1)])
        progs = mchan_progs(rng, ns, nr, 3)
        nt = len(progs)
        cases.append(core.fmt_case([3000, rng.choice([1, 1, 2])], progs,
                                   core.random_sched(rng, nt, rng.randint(5, 90 * nt), rng.randrange(3))))
    for _ in range(20):
        k = rng.randint(1, 4)
        progs = [[(MSEND, 10 + i) for i in range(k)] + [(MRECV, 0)] * k]
        cases.append(core.fmt_case([500, 2], progs, []))
    return cases, {"covering_send_vs_receive": ncov, "random_programs": nrand, "sequential": 20}


def gen_spchan(rng, tier):
    cases = []
    # covering: the producer's send (data, next, tail load, tail store, link, raise) lands after k
    # steps of the consumer's trypop + wait
    for k in range(0, 26):
        for j in range(0, 6):
            progs = [[(URECV, 0)] * 2, [(USEND, 2101), (USEND, 3102)]]
            sched = [0] * (1 + k) + [1] * (3 + j) + [0] * 30 + [1] * 14
            cases.append(core.fmt_case([1200], progs, sched))
    ncov = len(cases)
    nrand = 800 if tier == "quick" else 20000
    for _ in range(nrand):
        progs = uchan_progs(rng, 2, 4)
        cases.append(core.fmt_case([1500], progs, core.random_sched(rng, 2, rng.randint(5, 160), rng.randrange(3))))
    for _ in range(20):
        k = rng.randint(1, 5)
        progs = [[(USEND, (2 + i) * 1000 + 10 + i) for i in range(k)] + [(rng.choice([URECV, UTRY]), 0)] * k + [(UTRY, 0)]]
        cases.append(core.fmt_case([400], progs, []))
    return cases, {"covering_send_vs_receive": ncov, "random_programs": nrand, "sequential": 20}


GENS = {"signal": gen_signal, "uchan": gen_uchan, "bchan": gen_bchan, "mchan": gen_mchan, "spchan": gen_spchan}


def gen_cases(ctx, tier):
    out = {}
    dist = {}
    for i, (label, _) in enumerate(PAIRS):
        rng = random.Random(ctx.seed * 7919 + 11 * 100 + i)
        cs, d = GENS[label](rng, tier)
        out[label] = cs
        dist[label] = d
    ctx.coverage["case_distribution"] = dist
    return out


def corpus():
    """lines 'label: case' of /verif/corpus/C11.txt"""
    p = os.path.join(core.VERIF, "corpus", "C11.txt")
    out = {}
    try:
        for l in open(p):
            l = l.strip()
            if not l or l.startswith("#") or ":" not in l:
                continue
            label, c = l.split(":", 1)
            out.setdefault(label.strip(), []).append(c.strip())
    except OSError:
        pass
    return out


def build(ctx, label):
    hc = dict(PAIRS)[label]
    return core.build_harness(ctx, hc[:-2], hc, repo_sources=T1_SOURCES,
                              extra_flags=T1_FLAGS, rt_objs=("rt.c",), extra_rt=("t1.c",))


EXCL_THEOREMS = ["multichan_lock_exclusion", "multichan_reach_excl", "multichan_capacity",
                 "multichan_exactly_once_in_order", "multichan_exactly_once_in_order_states"]


REF_THEOREMS = ["multichan_no_stranded", "multichan_quiescent_shape", "multichan_no_stranded_strong",
                "multichan_stranded_is_strong", "multichan_wake_credit"]


def run(ctx):
    ctx.trusted = TRUSTED
    core.coq_property(ctx, "Properties_C11.v", THEOREMS)
    core.coq_property(ctx, "Properties_C11_excl.v", EXCL_THEOREMS)
    core.coq_property(ctx, "Properties_C11_ref.v", REF_THEOREMS)
    cases = gen_cases(ctx, ctx.tier)
    cor = corpus()
    allok = True
    exes = {}
    tot = {"cases": 0, "differ": 0, "nontrivial": 0}
    for (label, _) in PAIRS:
        exe = build(ctx, label)
        exes[label] = exe
        if not exe:
            allok = False
            continue
        cs = cor.get(label, []) + cases[label]
        core.correspond(ctx, label, label, exe, cs, MONITORS[label])
        st = ctx.stats[label]
        for k in tot:
            tot[k] += st[k]
        allok = allok and st["differ"] == 0
    ctx.coverage.update({"traces_validated_against_impl": tot["cases"] - tot["differ"],
                         "evaluations": tot["cases"], "distinct_nontrivial": tot["nontrivial"],
                         "rule": "case = (programs of wait/raise resp. send/receive per fiber, schedule); non-trivial = a CAS "
                                 "failed or a call returned 0 in the implementation trace"})
    if (not allok or ctx.failures) and not ctx.violations:
        search(ctx, exes)
    # the channel and signal models run on the T1 machine (no migration, no descriptor waits): whole-runtime programs of
    # channel sends/receives and multi-signal waits mixed with the OTHER kinds of suspension a fiber can come from
    # (descriptor wait ended by close, sleep, join), judged by the runtime oracle
    from vf.props import C01
    def _after_other_waits(rng):
        progs = [[(rng.choice([12, 12, 18, 10, 26, 1]), rng.randint(0, 1)), (rng.choice([14, 14, 19, 13]), rng.randint(0, 1))] *
                 rng.randint(1, 2) for _ in range(rng.randint(2, 4))]
        progs.append([(rng.choice([13, 20, 13, 1]), rng.randint(0, 3)) for _ in range(rng.randint(2, 6))])
        rng.shuffle(progs)
        return progs
    C01.runtime_layer(ctx, "chan", "channels and signals on the whole runtime", [13, 14, 13, 14, 19, 20, 12, 18, 1, 10],
                      quick_n=300, nks=(2, 3, 3, 4), seedoff=11, progs_fn=_after_other_waits)
    core.init_contract(ctx, ["fiber_signal", "fiber_bounded_channel", "fiber_unbounded_channel", "fiber_unbounded_sp_channel", "fiber_multi_channel"])  # rt/h_init.c: real init on dirty memory
    core.finish(ctx, extra_assumptions=ASSUME)


def search(ctx, exes):
    c2 = core.Ctx(ctx.pid, "thorough", ctx.seed + 1000)
    try:
        cases = gen_cases(c2, "thorough")
    finally:
        c2.cleanup()
    for (label, _) in PAIRS:
        exe = exes.get(label)
        if not exe:
            continue
        cs = cases[label][:12000]
        # RT_CATCHALL: every byte of the signal / channel objects is a scheduling point (fields the model does not know included)
        scases, impl = core.run_search(ctx, exe, cs)   # plain schedules first, then with every byte of the object a scheduling point
        for c, line in zip(scases, impl):
            why = core.safe_monitor(MONITORS[label], c, core.parse_trace(line) if line else None, line)
            if why:
                core.report_violation(ctx, label + "+catchall", c, why, line)
                if len(ctx.violations) >= 3:
                    return


def replay(ctx, payload):
    if payload.get("harness") == "h_init":
        return core.replay_init(ctx, payload)
    if payload.get("harness") == "kernel":
        from vf.props import C01
        return C01.replay(ctx, payload)
    label = str(payload.get("harness", ""))
    catchall = label.endswith("+catchall")
    label = label[:-len("+catchall")] if catchall else label
    c = payload.get("case")
    if label not in MONITORS or not c:
        print("nothing to replay (no concrete case in this file)")
        return 2
    exe = build(ctx, label)
    if not exe:
        print("harness does not build")
        return 2
    if catchall:
        impl = core.run_sharded(["env", "RT_CATCHALL=1", exe], [c])[0]
        why = core.safe_monitor(MONITORS[label], c, core.parse_trace(impl) if impl is not None else None, impl)
        print("harness: %s\ncase:  %s\nimpl (every byte of the objects a scheduling point):  %s\nmonitor: %s" % (label, c, impl, why or "ok"))
        return 1 if why else 0
    impl = core.run_sharded([exe], [c])[0]
    mod = core.model_run(label, [c])[0]
    why = MONITORS[label](c, core.parse_trace(impl), impl)
    print("harness: %s\ncase:  %s\nimpl:  %s\nmodel: %s\nmonitor: %s\nlock-step: %s" %
          (label, c, impl, mod, why or "ok", "identical" if impl == mod else "DIFFER"))
    return 1 if (why or impl != mod) else 0


TRUSTED = [
    "Coq 8.16.1 kernel + vm_compute (no native_compute)",
    "Print Assumptions of each theorem (recorded under print_assumptions)",
    "extraction: ExtrOcamlBasic only; OCaml driver coq/extract/driver.ml",
    "rt/rt.c (TSan-hook baton scheduler) and rt/t1.c (T1 machine: real fiber_manager.c/fiber.c, one pthread per fiber; "
    "context switch, run queues and event layer replaced)",
    "hand-written models coq/T1K.v + coq/ChanK.v (Signal.v, UChan.v, BChan.v) + coq/MChan.v + coq/SpChan.v; tie = identical per-access traces",
    "SC interleaving; weak CAS = strong (x86); -O0 instrumented build",
]
ASSUME = ["given C01 and C02 (a fiber behaves as a sequential process that is resumed once per wake-up): the T1 cut of DESIGN.md 3.4",
          "signal_single_waiter: at most one fiber ever calls fiber_signal_wait / receive on a given signal / single-receiver channel "
          "(documented contract of the headers)",
          "counters high/low do not wrap (unbounded Z in the model)",
          "multi channel: given C03 (mutual exclusion of the channel lock) for the _partial theorems"]
