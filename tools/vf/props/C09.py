"""C09 sleeping fibers wake exactly once and never early.

  1. translator tools/gen/gen_sleep.py: working tree -> coq/gen/SleepGen.v (+ C probe, + flags)
  2. Coq: Properties_C09.v (tree, arithmetic, time base, chain walk)
  3. differential: extern waiter_insert / waiter_remove_less_than on real nodes against the
     extracted model `sleeptree`; the sleep arithmetic probe (source text) against `sleeparith`;
     implementation-side monitors on both
  4. run-time scenarios of rt/h_sleep.c on a libfiber built from the working tree, in VIRTUAL time
     (the timerfd is replaced by an eventfd the harness writes expirations to), monitor = the
     property itself: every sleep lasts >= ceil(request / tick) + 1 expirations (so that the
     request fits between call and wake-up whatever the phase of the timer), every sleeper is
     scheduled exactly once per sleep, nobody is lost.

Known findings are filtered through KNOWN (none listed: on the pinned tree F-C09a/b/c are
VIOLATIONs with replays until the fixes land)."""
import json
import math
import os
import random
import subprocess
import sys
from concurrent.futures import ThreadPoolExecutor

from vf import core

THEOREMS = ["tree_bst_inv", "tree_insert_keeps_all", "tree_remove_exact", "sleepgen_match",
            "sleep_ticks_cover_request", "sleep_wrap_refuted", "sleep_wide_covers_all", "sleep_entry_points",
            "full_periods_cover", "sleep_never_early_refuted", "sleep_inflight_refuted",
            "sleep_never_early_partial", "sleep_never_early_fixed", "sleep_fix_no_lost_wakeup",
            "sleep_exactly_once_model", "sleep_walk_after_schedule_refuted"]

GEN = os.path.join(core.VERIF, "tools", "gen", "gen_sleep.py")
LIB_FLAGS = ["-O1", "-g", "-std=gnu11", "-DNDEBUG", "-DFIBER_FAST_SWITCHING", "-DFIBER_STACK_MMAP", "-D_GNU_SOURCE"]
EVENT_FLAGS = ["-Dtimerfd_create=h_timerfd_create", "-Dtimerfd_settime=h_timerfd_settime",
               "-Dfiber_scheduler_schedule=h_fiber_scheduler_schedule", "-Dfiber_load_symbol=h_fiber_load_symbol"]
SKIP_SOURCES = ("fiber_event_ev.c", "fiber_scheduler_dist.c")
K_FSLEEP, K_SLEEP, K_USLEEP, K_NANOSLEEP = 0, 1, 2, 3
KNAME = {0: "fiber_sleep", 1: "sleep", 2: "usleep", 3: "nanosleep"}

# known findings: {"id", "what", "match": f(label, case, why) -> bool}.  None listed.
KNOWN = []


# --------------------------------------------------------------------------
# translator
# --------------------------------------------------------------------------
def runtime_layer(ctx):
    """'resumed exactly once ... however many fibers sleep concurrently ... or are stolen by another thread at the moment
    they are woken' on the WHOLE real runtime (T2 machine of C01 with virtual time): sleep-heavy programs, the main
    fiber's first blocking call a sleep, judged by the runtime oracle (a sleeper resumed before its suspension has
    completed, resumed twice, or never resumed)."""
    import random
    from vf.props import C01
    exe = C01.build(ctx)
    if not exe:
        return
    rng = random.Random(ctx.seed * 7919 + 99)
    n = 240 if ctx.tier == "quick" else 5000
    cases = []
    for _ in range(n):
        nk = rng.choice([1, 2, 2, 3, 4])
        progs = [[(rng.choice([18, 18, 18, 18, 1, 3, 2, 10]), rng.randint(0, 1)) for _ in range(rng.randint(1, 5))]
                 for _f in range(rng.randint(1, 5))]
        cases.append(core.fmt_case([60000, nk, rng.choice([0, 1, 1, 2, 2])], progs,
                                   core.random_sched(rng, nk, rng.randint(30, 2000), rng.randrange(3))))
    impl = core.run_sharded([exe], cases, timeout=900)
    bad = 0
    for c, line in zip(cases, impl):
        why = core.safe_monitor(C01.monitor, c, core.parse_trace(line) if line is not None else None, line)
        if why:
            bad += 1
            if bad <= 3:
                core.report_violation(ctx, "kernel", c, "whole-runtime sleep layer: " + why, line)
    ctx.coverage["runtime_sleep_layer_t2"] = {"runs": len(cases), "violations": bad}
    ctx.oblige("sleep-t2(%d runs)" % len(cases), bad == 0, "%d runs judged a violation" % bad)


def translate(ctx, write=True):
    probe = os.path.join(ctx.scratch, "sleep_probe.c")
    env = {"VERIF_REPO": core.REPO}
    rc, out = core.sh([sys.executable, GEN, "--flags", "--probe", probe], env=env)
    ctx.oblige("translator:gen_sleep.py accepts the sources", rc == 0, out)
    if rc != 0:
        return None
    flags = json.loads(out)
    flags["translated"] = True
    if write:
        rc, out = core.sh([sys.executable, GEN], env=env)   # (re)writes coq/gen/SleepGen.v when it changed
        ctx.oblige("translator:coq/gen/SleepGen.v regenerated", rc == 0, out)
    bad = [k for k, v in flags["reprinted_equals_source"].items() if not v]
    ctx.oblige("translator:expressions re-printed from the AST equal the source text", not bad, ", ".join(bad))
    flags["probe"] = probe
    return flags


def fallback_flags(ctx):
    """the translator rejected the sources: the run-time scenarios and the tree differential still
    run (stub arithmetic probe; tick length read from the header with a plain regex, default 5)"""
    import re
    res = 5
    try:
        m = re.search(r"#\s*define\s+FIBER_TIME_RESOLUTION_MS\s+([0-9]+)",
                      open(os.path.join(core.REPO, "include", "fiber_event.h")).read())
        if m and int(m.group(1)) > 0:
            res = int(m.group(1))
    except OSError:
        pass
    probe = os.path.join(ctx.scratch, "sleep_probe.c")
    with open(probe, "w") as f:
        f.write("#include <stdint.h>\n#include <unistd.h>\n"
                "uint64_t probe_sleep_ms(uint32_t s, uint32_t u) { (void)s; (void)u; return 0; }\n"
                "uint64_t probe_sleep_ms_src(uint32_t s, uint32_t u) { (void)s; (void)u; return 0; }\n"
                "void probe_sleep(unsigned int x, uint32_t* s, uint32_t* u) { (void)x; *s = *u = 0; }\n"
                "void probe_usleep(useconds_t x, uint32_t* s, uint32_t* u) { (void)x; *s = *u = 0; }\n"
                "void probe_nanosleep(long long a, long b, uint32_t* s, uint32_t* u) { (void)a; (void)b; *s = *u = 0; }\n")
    return {"translated": False, "res_ms": res, "period_mult": 1000000, "probe": probe}


# --------------------------------------------------------------------------
# build: libfiber from the working tree + harness
# --------------------------------------------------------------------------
def build(ctx, flags, extra=(), tag=""):
    src = os.path.join(core.REPO, "src")
    inc = "-I" + os.path.join(core.REPO, "include")
    jobs = []
    for f in sorted(os.listdir(src)):
        if f.endswith(".c") and f not in SKIP_SOURCES:
            jobs.append((os.path.join(src, f), EVENT_FLAGS if f == "fiber_event_native.c" else []))
    jobs.append((flags["probe"], []))
    jobs.append((os.path.join(core.RT, "h_sleep.c"), []))

    def cc(job):
        s, fl = job
        o = os.path.join(ctx.scratch, "c09%s_%s.o" % (tag, os.path.basename(s)[:-2]))
        rc, out = core.sh(["gcc"] + LIB_FLAGS + list(extra) + [inc] + fl + ["-c", s, "-o", o])
        return (s, o, rc, out)
    with ThreadPoolExecutor(max_workers=8) as ex:
        res = list(ex.map(cc, jobs))
    for s, o, rc, out in res:
        if rc != 0:
            ctx.oblige("build:%s" % os.path.basename(s), False, out)
            return None
    exe = os.path.join(ctx.scratch, "h_sleep" + tag)
    rc, out = core.sh(["gcc"] + list(extra) + [o for (_, o, _, _) in res] + ["-lpthread", "-ldl", "-lm", "-o", exe])
    if rc != 0:
        ctx.oblige("link:h_sleep", False, out)
        return None
    for mode in ("tree", "arith"):
        w = os.path.join(ctx.scratch, "h_%s%s.sh" % (mode, tag))
        with open(w, "w") as f:
            f.write("#!/bin/sh\nexec %s %s\n" % (exe, mode))
        os.chmod(w, 0o755)
    return exe


def private_driver(ctx):
    """the extracted model `sleeparith` contains the generated expressions, so the driver is
    re-extracted from the .vo files this run has just checked (about 1 s)"""
    d = os.path.join(ctx.scratch, "drv")
    rc, out = core.sh([os.path.join(core.VERIF, "tools", "mkdriver.sh"), d, "SleepTree", "SleepArith"], timeout=900)
    ok = rc == 0 and os.path.exists(os.path.join(d, "driver"))
    ctx.oblige("extract:driver(sleeptree, sleeparith)", ok, out)
    if ok:
        core.DRIVER = os.path.join(d, "driver")
    return ok


def capped(ctx, label, monitor, cap):
    """report at most `cap` violations of one harness with replay files (the five replay files of a
    run are shared with the run-time scenarios); the others are only counted"""
    st = {"n": 0}

    def mon(case, tr, raw):
        why = monitor(case, tr, raw)
        if why:
            st["n"] += 1
            ctx.stats.setdefault(label + "_monitor", {"violating_cases": 0, "first": case})["violating_cases"] = st["n"]
            if st["n"] > cap:
                return None
        return why
    return mon


# --------------------------------------------------------------------------
# differential 1: the tree
# --------------------------------------------------------------------------
def tree_case(shift, ops):
    return " ".join(str(x) for x in [shift, len(ops)] + [v for op in ops for v in op])


def gen_tree_cases(ctx, tier):
    rng = random.Random(ctx.seed * 7919 + 9)
    cases = []
    # boundary families
    asc = [(1, k) for k in range(1, 9)]
    desc = [(1, k) for k in range(8, 0, -1)]
    eq = [(1, 5)] * 6
    mixed = [(1, 5), (1, 3), (1, 5), (1, 7), (1, 5), (1, 3), (1, 7), (1, 1), (1, 9), (1, 5)]
    for base in (asc, desc, eq, mixed, []):
        keys = sorted(set(k for _, k in base)) or [5]
        bounds = sorted(set([0, keys[0] - 1, keys[0], keys[0] + 1, keys[-1] - 1, keys[-1], keys[-1] + 1, 10 ** 6]))
        for b in bounds:
            if b < 0:
                continue
            cases.append(tree_case(0, base + [(3, b)]))
            cases.append(tree_case(0, base + [(2, b), (2, b), (1, 4), (2, b + 1), (3, 10 ** 6)]))
        cases.append(tree_case(0, base + [(2, k) for k in range(0, 11)]))
    # unsigned 64-bit keys: shift 40 with arguments up to 2^24-1 reaches 2^64
    top = (1 << 24) - 1
    cases.append(tree_case(40, [(1, top), (1, 1), (1, top - 1), (1, 1 << 23), (2, 1 << 23), (3, top), (3, top)]))
    cases.append(tree_case(40, [(1, 1 << 23), (1, (1 << 23) - 1), (1, (1 << 23) + 1), (3, 1 << 23), (2, top)]))
    nb = len(cases)
    nrand = 3000 if tier == "quick" else 300000
    for _ in range(nrand):
        n = rng.randint(1, 40)
        span = rng.choice([3, 6, 12, 40, 1000])
        shift = rng.choice([0, 0, 0, 8, 40])
        lim = min(span, top)
        ops = []
        for _ in range(n):
            r = rng.random()
            if r < 0.6:
                ops.append((1, rng.randint(0, lim)))
            elif r < 0.8:
                ops.append((2, rng.randint(0, lim + 1)))
            else:
                ops.append((3, rng.randint(0, lim + 1)))
        if rng.random() < 0.5:
            ops.append((3, lim + 1))
        cases.append(tree_case(shift, ops))
    ctx.coverage["tree_case_distribution"] = {"boundary": nb, "random": nrand}
    return cases


def tree_monitor(case, tr, raw):
    """property oracle on the implementation's output (independent of the model): every
    removal returns nodes of the smallest key, only if that key is < bound (NULL only if no key
    is below the bound); nothing is lost, duplicated or invented; a drain leaves nothing below
    the bound; the final shape is a search tree holding exactly the remaining nodes."""
    try:
        out = [int(x) for x in (raw or "").split()]
    except ValueError:
        return "implementation produced no result: %s" % (raw or "")[:80]
    v = [int(x) for x in case.split()]
    shift, nops = v[0], v[1]
    ops = [(v[2 + 2 * i], v[3 + 2 * i]) for i in range(nops)]
    live = {}          # id -> key
    nid, pos = 1, 0

    def chain():
        nonlocal pos
        ids = []
        while pos < len(out) and out[pos] != 0:
            ids.append(out[pos])
            pos += 1
        if pos >= len(out):
            raise IndexError
        pos += 1
        return ids

    def check_chain(ids, bound):
        if not ids:
            if live and min(live.values()) < bound:
                return "remove_less_than(%d) returned NULL but key %d is in the tree" % (bound, min(live.values()))
            return None
        for i in ids:
            if i not in live:
                return "removed id %d which is not in the tree (duplicate or invented)" % i
        ks = set(live[i] for i in ids)
        if len(ks) != 1:
            return "a returned chain mixes keys %s" % sorted(ks)
        k = ks.pop()
        if not k < bound:
            return "removed key %d >= bound %d" % (k, bound)
        if k != min(live.values()):
            return "removed key %d although the smaller key %d is in the tree (order)" % (k, min(live.values()))
        if len(set(ids)) != len(ids):
            return "a returned chain repeats an id: %s" % ids
        for i in ids:
            del live[i]
        return None
    try:
        for op, arg in ops:
            key = (arg << shift) % (1 << 64)
            if op == 1:
                live[nid] = key
                nid += 1
            elif op == 2:
                why = check_chain(chain(), key)
                if why:
                    return why
            elif op == 3:
                while True:
                    ids = chain()
                    why = check_chain(ids, key)
                    if why:
                        return why
                    if not ids:
                        break
        # final dump: pre-order, BST, holds exactly the live ids

        def dump(lo, hi):
            nonlocal pos
            k = out[pos]
            pos += 1
            if k == -1:
                return None
            ids = chain()
            key = (k << shift) % (1 << 64)
            if not (lo < key < hi):
                return "final tree is not a search tree at key %d" % k
            for i in ids:
                if live.get(i) != key:
                    return "final tree holds id %d under key %d, expected key %s" % (i, k, live.get(i))
                del live[i]
            return dump(lo, key) or dump(key, hi)
        why = dump(-1, 1 << 64)
        if why:
            return why
        if live:
            return "ids %s were inserted, never removed, and are not in the final tree (lost)" % sorted(live)[:6]
        if pos != len(out):
            return "trailing output"
    except IndexError:
        return "truncated output"
    return None


# --------------------------------------------------------------------------
# differential 2: the arithmetic
# --------------------------------------------------------------------------
def gen_arith_cases(ctx, tier):
    rng = random.Random(ctx.seed * 7919 + 90)
    S = [0, 1, 2, 59, 3600, 86400, 4294966, 4294967, 4294968, 4294969, 2 ** 31 - 1, 2 ** 31, 2 ** 32 - 1]
    U = [0, 1, 999, 1000, 1001, 4999, 5000, 5001, 999999, 1000000, 1000001, 2 ** 31, 2 ** 32 - 1]
    cases = ["1 4294968 0"]          # the smallest sleep() whose tick count wraps in 32 bits
    for s in S:
        for u in U:
            cases.append("0 %d %d" % (s, u))
    for s in S:
        cases.append("1 %d 0" % s)
    for u in U + [600000, 1500000, 123456789, 4294000000]:
        cases.append("2 %d 0" % u)
    for s in [0, 1, 59, 4294967, 4294968, 2 ** 32 - 1]:
        for ns in [0, 1, 999, 1000, 1001, 999999, 1000000, 999999999]:
            cases.append("3 %d %d" % (s, ns))
    n = 2000 if tier == "quick" else 400000
    for _ in range(n):
        w = rng.randrange(4)
        if w == 0:
            cases.append("0 %d %d" % (rng.choice([rng.randrange(100), rng.randrange(2 ** 32)]), rng.randrange(2 ** 32)))
        elif w == 1:
            cases.append("1 %d 0" % rng.choice([rng.randrange(1000), rng.randrange(2 ** 32)]))
        elif w == 2:
            cases.append("2 %d 0" % rng.choice([rng.randrange(100000), rng.randrange(2 ** 32)]))
        else:
            cases.append("3 %d %d" % (rng.choice([rng.randrange(100), rng.randrange(2 ** 32)]), rng.randrange(10 ** 9)))
    return cases


def request_ns(kind, a, b):
    if kind == K_FSLEEP:
        return (a * 10 ** 6 + b) * 1000
    if kind == K_SLEEP:
        return a * 10 ** 9
    if kind == K_USLEEP:
        return a * 1000
    return a * 10 ** 9 + b


def make_arith_monitor(flags):
    period_ns = flags["res_ms"] * flags["period_mult"]

    def mon(case, tr, raw):
        try:
            s, us, ms = [int(x) for x in (raw or "").split()]
        except ValueError:
            return "implementation produced no result: %s" % (raw or "")[:80]
        w, a, b = [int(x) for x in case.split()]
        req = request_ns(w, a, b)
        if ms * period_ns < req:
            return ("%s(%s): fiber_sleep(%d, %d) asks for %d ticks of %d ms = %d us, the request is %d ns"
                    % (KNAME[w], ("%d" % a) if w in (1, 2) else "%d, %d" % (a, b), s, us, ms, flags["res_ms"],
                       ms * period_ns // 1000, req))
        return None
    return mon


# --------------------------------------------------------------------------
# run-time scenarios
# --------------------------------------------------------------------------
DURATIONS_D = [(K_SLEEP, 0, 0), (K_USLEEP, 0, 0), (K_USLEEP, 1, 0), (K_USLEEP, 999, 0), (K_USLEEP, 1000, 0),
               (K_USLEEP, 4999, 0), (K_USLEEP, 5000, 0), (K_USLEEP, 5001, 0), (K_USLEEP, 12345, 0),
               (K_NANOSLEEP, 0, 1), (K_NANOSLEEP, 0, 4999999), (K_NANOSLEEP, 0, 999999999), (K_NANOSLEEP, 0, 40000001),
               (K_NANOSLEEP, 0, 40000002), (K_NANOSLEEP, 1, 1), (K_FSLEEP, 0, 7500),
               (K_FSLEEP, 1, 2500), (K_SLEEP, 1, 0)]


def scenarios(ctx, tier):
    rng = random.Random(ctx.seed * 7919 + 99)
    sc = []
    # (a) stale base: k expirations unread, then a sleep   [F-C09a]
    for k, kind, a, b in [(100, K_USLEEP, 10000, 0), (7, K_USLEEP, 20000, 0), (3, K_NANOSLEEP, 0, 1000000),
                          (40, K_FSLEEP, 0, 150000), (2, K_USLEEP, 500, 0)]:
        sc.append("a %d %d %d %d" % (k, kind, a, b))
    # (a2) expirations read by a poller that has not yet taken the lock
    sc += ["a2 50 10000", "a2 2 500", "a2 400 1000000"]
    # (b) many sleepers
    nb = 6 if tier == "quick" else 240
    for i in range(nb):
        sc.append("b %d %d %d %d %d" % (1 + i % 4, rng.choice([8, 40, 120]), rng.randint(3, 8), rng.randrange(1 << 30),
                                        rng.choice([60, 100, 200])))
    # (c) chain walk vs. stolen sleeper   [F-C09b]
    sc += ["c 2 3 0 1", "c 2 3 1 1", "c 3 5 0 2", "c 4 4 1 1", "c 2 2 0 3"]
    if tier != "quick":
        sc += ["c %d %d %d %d" % (rng.choice([2, 3, 4]), rng.randint(2, 8), rng.randrange(2), rng.randint(1, 3))
               for _ in range(60)]
        for _ in range(30):
            us = rng.choice([1, 500, 1000, 4999, 5000, 10000, 25000, 100000])
            sc.append("a %d %d %d 0" % (rng.randint(1, 300), K_USLEEP, us))
            sc.append("a2 %d %d" % (rng.randint(2, 300), us))
    # (e) tens of thousands of sleepers sharing ONE wake tick ("however many fibers sleep concurrently or share a
    # wake-up tick"): more than the unit suite ever has asleep at once (10000), all due in one pass of the wake loop
    sc.append("e 1 20000 1000")
    if tier != "quick":
        # (sizes stay below vm.max_map_count / 2 = 32765 fiber stacks on this machine)
        sc += ["e 2 20000 1000", "e 1 28000 2000", "e 3 24000 3000", "e 4 28000 1000"]
    # (d) durations through every entry point; the last one is the 32-bit wrap [F-C09c]
    dl = " ".join("%d %d %d" % t for t in DURATIONS_D)
    sc.append("d 1 2600 " + dl)
    sc.append("d 2 2600 " + dl)
    sc.append("d 1 1500 %d 4294968 0" % K_SLEEP)
    sc.append("d 1 3300 %d 4294970 300000" % K_FSLEEP)
    return sc


def run_scenario(exe, sc, timeout=70, env=None):
    e = dict(os.environ)
    if env:
        e.update(env)
    if sc.startswith("e "):
        timeout = 330       # scenario e settles by progress (nobody is lost while sleepers are still returning)
    try:
        p = subprocess.run([exe, "rt"] + sc.split(), stdout=subprocess.PIPE, stderr=subprocess.STDOUT, timeout=timeout, env=e)
        return p.returncode, p.stdout.decode("utf-8", "replace")
    except subprocess.TimeoutExpired as ex:
        return 124, (ex.stdout.decode("utf-8", "replace") if ex.stdout else "") + "\nTIMEOUT"


def make_rt_monitor(flags):
    period_ns = flags["res_ms"] * flags["period_mult"]

    def need(kind, a, b):
        req = request_ns(kind, a, b)
        return 0 if req == 0 else -(-req // period_ns) + 1

    def own_deadline(kind, a, b):
        # the number of expirations a correct implementation of THIS design sleeps: ms + 1, plus one
        us = request_ns(kind, a, b) // 1000 + (1 if kind == K_NANOSLEEP else 0)
        return (us // 10 ** 6) * 1000 + (us % 10 ** 6) // 1000 + 2

    def mon(sc, out, rc):
        S, P, F, end, crash, E = [], [], {}, None, None, None
        for line in out.splitlines():
            w = line.split()
            if not w:
                continue
            if w[0] == "S" and len(w) == 8:
                S.append([int(x) for x in w[1:]])
            elif w[0] == "P" and len(w) == 8:
                P.append([int(x) for x in w[1:]])
            elif w[0] == "F" and len(w) == 4:
                F[int(w[1])] = (int(w[2]), int(w[3]))
            elif w[0] == "E" and len(w) == 10:
                E = [int(x) for x in w[1:]]
            elif w[0] == "END":
                end = int(w[1])
            elif w[0] == "CRASH":
                crash = line
        why = []
        if end == 5:
            return None      # scenario e could not create its fibers (the machine's mapping limit): nothing was observed
        for (i, j, kind, a, b, tc, tw) in S:
            n, nd = tw - tc, need(kind, a, b)
            if n < nd:
                why.append("EARLY: fiber %d %s(%s) called at tick %d returned at tick %d: %d expirations, "
                           "the request needs >= %d (tick = %d ms)"
                           % (i, KNAME[kind], a if kind in (1, 2) else "%d,%d" % (a, b), tc, tw, n, nd, flags["res_ms"]))
        for (i, j, kind, a, b, tc, now) in P:
            if now - tc > own_deadline(kind, a, b) + 60:
                why.append("LOST: fiber %d %s(%s) called at tick %d is still asleep at tick %d (its own deadline "
                           "passed %d expirations ago)" % (i, KNAME[kind], a if kind in (1, 2) else "%d,%d" % (a, b),
                                                           tc, now, now - tc - own_deadline(kind, a, b)))
        done = {}
        for (i, j, *_r) in S:
            done[i] = done.get(i, 0) + 1
        for i, (nsl, nsch) in F.items():
            if nsch > done.get(i, 0) + sum(1 for p in P if p[0] == i):
                why.append("TWICE: fiber %d was scheduled %d times by the event layer for %d sleeps" % (i, nsch, nsl))
        if E:
            n, ret, pending, twice, mn, mx, first, us, now = E
            if pending:
                why.append("LOST: %d of %d fibers that called usleep(%d) while sharing one wake tick are still asleep at tick "
                           "%d (e.g. sleeper #%d); %d returned after at most %d ticks" % (pending, n, us, now, first, ret, mx))
            if twice:
                why.append("TWICE: %d of %d sleepers returned from one usleep more than once" % (twice, n))
            if ret and mn < need(K_USLEEP, us, 0):
                why.append("EARLY: a sleeper of the %d sharing one wake tick returned from usleep(%d) after %d expirations, the "
                           "request needs >= %d" % (n, us, mn, need(K_USLEEP, us, 0)))
        if crash:
            why.append(crash.strip())
        if end is None and not crash:
            why.append("scenario did not finish (rc=%d): %s" % (rc, out[-200:].replace("\n", " | ")))
        if end == 3 and not P and not (E and E[2]):
            why.append("tick budget exhausted with no sleeper pending")
        return "; ".join(why[:4]) if why else None
    return mon


def classify(why):
    tags = [t for t in ("EARLY", "LOST", "TWICE", "CRASH") if t in why]
    return ",".join(tags) or "other"


def run_rt(ctx, exe, flags, tier):
    mon = make_rt_monitor(flags)
    scs = scenarios(ctx, tier)
    with ThreadPoolExecutor(max_workers=4) as ex:
        outs = list(ex.map(lambda s: run_scenario(exe, s), scs))
    nsleeps = nbad = 0
    per = {}
    for sc, (rc, out) in zip(scs, outs):
        nsleeps += sum(1 for l in out.splitlines() if l.startswith("S "))
        nsleeps += sum(int(l.split()[2]) for l in out.splitlines() if l.startswith("E ") and len(l.split()) == 10)
        why = mon(sc, out, rc)
        fam = sc.split()[0]
        st = per.setdefault(fam, {"runs": 0, "violations": 0})
        st["runs"] += 1
        if why:
            nbad += 1
            st["violations"] += 1
            # one replay file per (scenario family, kind of failure); the stress family b only if
            # the targeted stale-base scenarios (a, a2) have not already produced one
            cls = classify(why)
            seen = st.setdefault("classes", [])
            if cls not in seen and len(seen) < 2 and not (
                    fam == "b" and (per.get("a", {}).get("violations") or per.get("a2", {}).get("violations"))):
                seen.append(cls)
                core.report_violation(ctx, "rt", sc, why, out, KNOWN)
    ctx.stats["rt"] = {"scenarios": len(scs), "sleeps_observed": nsleeps, "violating_scenarios": nbad, "per_family": per}
    ctx.samples.append({"harness": "rt", "case": scs[0], "impl_trace_head": outs[0][1][:300]})
    return nbad == 0


# --------------------------------------------------------------------------
def source_verdict(ctx, flags):
    """the structural facts the theorems are conditional on, for the CURRENT sources"""
    ctx.oblige("source:sleep_ms widens seconds before the multiplication (F-C09c)",
               "uint64_t" in flags["sleep_ms_text"].split("seconds")[0],
               "sleep_ms = %s  -- sleep_wrap_refuted applies" % flags["sleep_ms_text"])
    ctx.oblige("source:every read of the timer happens under sleep_spinlock (F-C09a)",
               flags["sleep_reads_timer_under_lock"] and flags["wake_reads_timer_under_lock"]
               and not flags["poll_reads_timer_outside_lock"],
               "fiber_sleep reads timer under lock: %s; wake_sleepers reads timer under lock: %s; poll loop reads "
               "timer outside the lock: %s  -- sleep_never_early_refuted / sleep_inflight_refuted apply"
               % (flags["sleep_reads_timer_under_lock"], flags["wake_reads_timer_under_lock"],
                  flags["poll_reads_timer_outside_lock"]))
    ctx.oblige("source:chain walk reads next before fiber_manager_schedule (F-C09b)",
               flags["walk_next_before_schedule"],
               "walk = %s  -- sleep_walk_after_schedule_refuted applies" % flags["walk_body"])


def run(ctx):
    ctx.trusted = TRUSTED
    flags = translate(ctx) or fallback_flags(ctx)
    core.coq_property(ctx, "Properties_C09.v", THEOREMS)
    if flags:
        exe = build(ctx, flags)
        if exe:
            run_rt(ctx, exe, flags, ctx.tier)
        if exe and not flags["translated"]:
            cases = gen_tree_cases(ctx, ctx.tier)
            mon = capped(ctx, "sleeptree", tree_monitor, 2)
            for c, line in zip(cases, core.run_sharded([os.path.join(ctx.scratch, "h_tree.sh")], cases)):
                why = mon(c, None, line)
                if why:
                    core.report_violation(ctx, "sleeptree", c, why, line, KNOWN)
        elif exe and private_driver(ctx):
            acases = corpus("arith") + gen_arith_cases(ctx, ctx.tier)
            core.correspond(ctx, "sleeparith", "sleeparith", os.path.join(ctx.scratch, "h_arith.sh"), acases,
                            capped(ctx, "sleeparith", make_arith_monitor(flags), 1), KNOWN)
            tcases = corpus("tree") + gen_tree_cases(ctx, ctx.tier)
            core.correspond(ctx, "sleeptree", "sleeptree", os.path.join(ctx.scratch, "h_tree.sh"), tcases,
                            capped(ctx, "sleeptree", tree_monitor, 2), KNOWN)
            st, sa = ctx.stats["sleeptree"], ctx.stats["sleeparith"]
            ctx.coverage.update({
                "traces_validated_against_impl": st["cases"] - st["differ"] + sa["cases"] - sa["differ"],
                "evaluations": st["cases"] + sa["cases"] + ctx.stats["rt"]["scenarios"],
                "distinct_nontrivial": len(set(tcases)) + len(set(acases)),
                "rule": "tree case = op sequence (insert / remove_less_than / drain) on real nodes; arith case = one "
                        "call of fiber_sleep/sleep/usleep/nanosleep; rt scenario = a run of the real library in "
                        "virtual time"})
        elif exe:
            # the model could not be extracted (a proof obligation failed): implementation-side monitors only
            for label, mode, cases, mon in (
                    ("sleeparith", "arith", gen_arith_cases(ctx, ctx.tier), capped(ctx, "sleeparith", make_arith_monitor(flags), 1)),
                    ("sleeptree", "tree", gen_tree_cases(ctx, ctx.tier), capped(ctx, "sleeptree", tree_monitor, 2))):
                impl = core.run_sharded([os.path.join(ctx.scratch, "h_%s.sh" % mode)], cases)
                for c, line in zip(cases, impl):
                    why = mon(c, None, line)
                    if why:
                        core.report_violation(ctx, label, c, why, line, KNOWN)
        if flags["translated"]:
            source_verdict(ctx, flags)
    runtime_layer(ctx)
    core.finish(ctx, extra_assumptions=ASSUME)


def corpus(kind):
    p = os.path.join(core.VERIF, "corpus", "C09_%s.txt" % kind)
    try:
        return [l.strip() for l in open(p) if l.strip() and not l.startswith("#")]
    except OSError:
        return []


def replay(ctx, payload):
    if payload.get("harness") == "kernel":
        from vf.props import C01
        return C01.replay(ctx, payload)
    flags = translate(ctx, write=False) or fallback_flags(ctx)
    exe = build(ctx, flags)
    c, h = payload.get("case"), payload.get("harness")
    if exe and h != "rt":
        private_driver(ctx)
    if not exe or not c:
        print("nothing to replay (no concrete case in this file)")
        return 2
    if h == "rt":
        rc, out = run_scenario(exe, c)
        why = make_rt_monitor(flags)(c, out, rc)
        print("scenario: h_sleep rt %s\n%s\nmonitor: %s" % (c, out.rstrip(), why or "ok"))
        return 1 if why else 0
    mode = "tree" if h == "sleeptree" else "arith"
    impl = core.run_sharded([os.path.join(ctx.scratch, "h_%s.sh" % mode)], [c])[0]
    mod = core.model_run(h, [c])[0]
    why = (tree_monitor if mode == "tree" else make_arith_monitor(flags))(c, None, impl)
    print("case:  %s\nimpl:  %s\nmodel: %s\nmonitor: %s\ndifferential: %s" %
          (c, impl, mod, why or "ok", "identical" if impl == mod else "DIFFER"))
    return 1 if (why or impl != mod) else 0


TRUSTED = [
    "Coq 8.16.1 kernel + vm_compute (no native_compute)",
    "Print Assumptions of each theorem (recorded under print_assumptions)",
    "extraction: ExtrOcamlBasic only; OCaml driver coq/extract/driver.ml",
    "tools/gen/gen_sleep.py (C expression / statement recogniser; aborts on anything unrecognised); its expression "
    "output is cross-checked by compiling the re-printed text next to the verbatim source text (rt/h_sleep.c arith)",
    "C integer semantics of coq/SleepAst.v (LP64, usual arithmetic conversions) -- tied by the arithmetic differential run",
    "rt/h_sleep.c: eventfd standing for the timerfd (read returns the accumulated count and resets it; level-triggered "
    "epoll readiness), two injected preemption windows (after fiber_scheduler_schedule in the event layer; after the "
    "poll loop's read of the timer), virtual clock read under a spin lock",
    "hand-written models coq/SleepTree.v, coq/SleepTime.v; atomicity of the sections under sleep_spinlock",
]
ASSUME = ["kernel timerfd/epoll behaviour and the relation of timer expirations to real time are outside the model",
          "tick counters stay below 2^64; nanosleep with tv_sec >= 2^32 (136 years) is truncated by the call (sleep_entry_points)",
          "the lower bound is on the scheduling of the sleeper; when it actually runs afterwards is C01/C10",
          "other fibers keep running while one sleeps: fiber_sleep ends in fiber_manager_yield with state WAITING (C01)"]
