"""C08 shimmed descriptor I/O behaves like the blocking POSIX call it replaces
(src/fiber_io.c, fiber_wait_for_event / fiber_fd_closed / poller of
src/fiber_event_native.c).  PARTIAL: the kernel stays outside the model.

  1. translator  tools/gen/gen_shims.py -> coq/gen/ShimGen.v + coq/gen/ShimMatch.v
     (aborts on any shim shape it does not recognise)
  2. Coq: Properties_C08.v (all oracles, all descriptors) and the generated
     match lemmas; a `*_fails` lemma in ShimMatch.v is a finding
  3. real libfiber + rt/h_io.c built from the working tree (-O1 -g -DNDEBUG ...)
  4. differential run: every script on fibers over the shims and on plain pthreads
     over libc; return values, errno class, byte streams, termination, exit status
  5. model replay: the recorded real-call results of every single-kernel-thread
     run are fed to the extracted FdShim acceptor (model "fdshim"), which must
     predict every real call, wait registration and shim-level result
"""
import json
import os
import random
import re

from vf import core

THEOREMS = ["shim_result_allowed", "shim_blocking_never_eagain", "shim_blocking_never_eagain_refutable",
            "blocking_mode_blocks", "unmanaged_never_blocks", "shim_nonblocking_immediate",
            "shim_nonblocking_immediate_refutable", "shim_bad_fd_in_bounds", "shim_closed_fd_passthrough",
            "shim_bad_fd_in_bounds_refutable", "fdwait_every_waiter_woken", "fdwait_every_waiter_woken_refutable",
            "mode_follows_setfl"]
CONDITIONS = ["table_sane", "blocking_table", "mask", "mask_unmanaged", "bounds", "managed", "wait_layer",
              "fcntl_tracks", "errno_fresh"]
GEN = os.path.join(core.VERIF, "tools", "gen", "gen_shims.py")

# ops of rt/h_io.c
(O_READ, O_WRITE, O_RECV, O_SEND, O_READV, O_WRITEV, O_RECVFROM, O_SENDTO, O_RECVMSG, O_SENDMSG, O_READ_ALL,
 O_WRITE_ALL, O_FCNTL_NB, O_FIONBIO, O_CLOSE, O_ACCEPT, O_CONNECT, O_SLEEP, O_BARRIER, O_SHUTWR, O_SETFL,
 O_GETFL, O_IDIOM, O_CLOSE_RACE) = range(1, 25)
OPNAME = {1: "read", 2: "write", 3: "recv", 4: "send", 5: "readv", 6: "writev", 7: "recvfrom", 8: "sendto",
          9: "recvmsg", 10: "sendmsg", 11: "read*", 12: "write*", 13: "fcntl(F_SETFL,O_NONBLOCK)",
          14: "ioctl(FIONBIO)", 15: "close", 16: "accept", 17: "socket+connect", 18: "sleep", 19: "barrier",
          20: "shutdown(WR)", 21: "fcntl(F_SETFL,v)", 22: "fcntl(F_GETFL)", 23: "F_GETFL/F_SETFL idiom",
          24: "close [another thread creates a socketpair as the kernel releases the number]"}
RXV = {0: "read", 1: "recv", 2: "readv", 3: "recvfrom", 4: "recvmsg"}
TXV = {0: "write", 1: "send", 2: "writev", 3: "sendto", 4: "sendmsg"}
BADSLOT = {-1: "-1", -2: "max_fd", -3: "max_fd+7", -4: "INT_MAX", -5: "closed fd", -6: "max_fd-1 (never opened)"}
O_NONBLOCK = 0o4000
SKIP_OPS = (O_SLEEP, O_BARRIER)

SHAPE_CODE = {"PreWaitLoop": 0, "PostFailLoop": 1, "SingleRetry": 2, "SingleWait": 3, "NoWait": 4}
DIR_CODE = {"DirIn": 1, "DirOut": 2, "DirNone": 0}
RETRY_CODE = {"EAGAIN": 1, "EINPROGRESS": 4, "ENone": 0}
SHIM_CODE = {"read": 1, "write": 2, "recv": 3, "send": 4, "readv": 5, "writev": 6, "recvfrom": 7, "sendto": 8,
             "recvmsg": 9, "sendmsg": 10, "accept": 11, "connect": 12, "close": 13, "fcntl": 14, "ioctl": 15,
             "pipe": 16, "socket": 17, "socketpair": 18}


# --------------------------------------------------------------------------
# scripts
# --------------------------------------------------------------------------
class Script:
    def __init__(self, family, kinds, threads, nkt=1, timeout=2500, policy="exact", expect=None, note=""):
        self.family, self.kinds, self.threads, self.nkt = family, kinds, threads, nkt
        self.timeout, self.policy, self.expect, self.note = timeout, policy, expect, note

    def text(self):
        v = [self.nkt, self.timeout, len(self.kinds)] + list(self.kinds) + [len(self.threads)]
        for t in self.threads:
            v.append(len(t))
            for o in t:
                v += list(o)
        return " ".join(str(x) for x in v)

    def ops(self):
        return [o for t in self.threads for o in t]


def parse_script(text):
    v = [int(x) for x in text.split()]
    nkt, timeout, nobj = v[0], v[1], v[2]
    kinds = v[3:3 + nobj]
    i = 3 + nobj
    nthr = v[i]; i += 1
    threads = []
    for _ in range(nthr):
        n = v[i]; i += 1
        threads.append([tuple(v[i + 4 * k:i + 4 * k + 4]) for k in range(n)])
        i += 4 * n
    return nkt, timeout, kinds, threads


def describe(text):
    nkt, timeout, kinds, threads = parse_script(text)
    kn = {0: "socketpair", 1: "pipe", 2: "tcp pair", 3: "tcp listener", 4: "socketpair(4K sndbuf)"}
    out = ["%d kernel thread(s); objects: %s" % (nkt, ", ".join("%d=%s(slots %d,%d)" % (k, kn.get(x, x), 2 * k, 2 * k + 1)
                                                            for k, x in enumerate(kinds)))]
    for t, ops in enumerate(threads, 1):
        d = []
        for (op, slot, a, b) in ops:
            s = BADSLOT.get(slot, "own" if slot >= 100 else "slot%d" % slot)
            if op in (O_READ_ALL,):
                d.append("%s-until(%s,%d)" % (RXV[b], s, a))
            elif op in (O_WRITE_ALL,):
                d.append("%s-until(%s,%d)" % (TXV[b], s, a))
            elif op in (O_SLEEP,):
                d.append("sleep %dms" % a)
            elif op == O_BARRIER:
                d.append("barrier%d" % a)
            else:
                d.append("%s(%s%s%s)" % (OPNAME[op], s, ",%d" % a if op not in (O_CLOSE, O_CLOSE_RACE, O_ACCEPT, O_CONNECT, O_FCNTL_NB, O_GETFL) else "",
                                         ",MSG_DONTWAIT" if (b & 1) and op in (O_RECV, O_SEND, O_RECVFROM, O_SENDTO, O_RECVMSG, O_SENDMSG) else ""))
        out.append("  thread %d: %s" % (t, "; ".join(d)))
    return "\n".join(out)


SIZES = [1, 2, 7, 100, 4096, 65536, 65537, 300000, 4 * 212992]


def fam_transfer(rng, tier):
    res = []
    kinds = [0, 1, 2, 4]
    for kind in kinds:
        sizes = SIZES if kind in (0, 1) else [1, 100, 5000, 40000, 70000]
        if kind == 1:
            sizes = [1, 100, 4096, 65536, 65537, 4 * 65536]
        for n in sizes:
            for _ in range(1 if tier == "quick" else 3):
                vr = rng.choice([0, 2] if kind == 1 else [0, 1, 2, 3, 4])
                vw = rng.choice([0, 2] if kind == 1 else [0, 1, 2, 3, 4])
                thr = [[(O_WRITE_ALL, 1, n, vw)], [(O_READ_ALL, 0, n, vr)]]
                if kind != 1 and rng.random() < 0.5:   # both directions at once
                    m = rng.choice(sizes)
                    thr += [[(O_WRITE_ALL, 0, m, rng.choice([0, 1, 2, 3, 4]))], [(O_READ_ALL, 1, m, rng.choice([0, 1, 2, 3, 4]))]]
                rng.shuffle(thr)
                res.append(Script("transfer", [kind], thr, nkt=rng.choice([1, 1, 2])))
    # reader is blocked first, data arrives later; writer closes -> EOF
    for kind in (0, 1, 2):
        res.append(Script("transfer", [kind], [[(O_READ_ALL, 0, 1000, 0)],
                                               [(O_SLEEP, 0, 30, 0), (O_WRITE_ALL, 1, 600, 0), (O_CLOSE, 1, 0, 0)]]))
    # receive calls on a pipe: ENOTSOCK on both sides
    res.append(Script("transfer", [1], [[(O_WRITE, 1, 10, 0), (O_RECV, 0, 10, 0), (O_SEND, 1, 10, 0), (O_READ, 0, 10, 0)]]))
    return res


def fam_pingpong(rng, tier):
    res = []
    for kind in (0, 2):
        for rounds in ([20] if tier == "quick" else [5, 50, 150]):
            k = rng.choice([1, 5, 64, 1000])
            a, b = [], []
            for _ in range(min(rounds, 20)):
                a += [(O_WRITE_ALL, 0, k, rng.choice([0, 1])), (O_READ_ALL, 0, k, rng.choice([0, 1, 3]))]
                b += [(O_READ_ALL, 1, k, rng.choice([0, 1, 4])), (O_WRITE_ALL, 1, k, rng.choice([0, 1, 4]))]
            res.append(Script("pingpong", [kind], [a, b], nkt=rng.choice([1, 2])))
    return res


def split(rng, total, parts):
    cuts = sorted(rng.randint(1, max(1, total - 1)) for _ in range(parts - 1)) if total > parts else list(range(1, parts))
    xs, prev = [], 0
    for c in cuts + [total]:
        xs.append(max(0, c - prev))
        prev = c
    return [x for x in xs if x > 0] or [total]


def fam_multi(rng, tier):
    """several fibers blocked on the same descriptor, same and different directions"""
    res = []
    for _ in range(10 if tier == "quick" else 60):
        kind = rng.choice([0, 0, 1, 2, 4])
        total = rng.choice([10, 1000, 70000, 300000] if kind in (0, 1) else [10, 1000, 30000])
        nr, nw = rng.randint(1, 3), rng.randint(1, 3)
        thr = []
        rv = [0, 2] if kind == 1 else [0, 1, 2, 3, 4]
        for n in split(rng, total, nr):
            thr.append([(O_READ_ALL, 0, n, rng.choice(rv))])
        for n in split(rng, total, nw):
            pre = [(O_SLEEP, 0, rng.choice([0, 20]), 0)]
            thr.append(pre + [(O_WRITE_ALL, 1, n, rng.choice(rv))])
        if kind != 1:   # the opposite direction on the same two descriptors
            t2 = rng.choice([5, 500, 250000] if kind == 0 else [5, 500, 20000])
            for n in split(rng, t2, rng.randint(1, 2)):
                thr.append([(O_READ_ALL, 1, n, rng.choice(rv))])
            for n in split(rng, t2, rng.randint(1, 2)):
                thr.append([(O_SLEEP, 0, rng.choice([0, 20]), 0), (O_WRITE_ALL, 0, n, rng.choice(rv))])
        rng.shuffle(thr)
        res.append(Script("multi", [kind], thr[:12], nkt=rng.choice([1, 1, 2]), policy="totals"))
    return res


def fam_nonblock(rng, tier):
    res = []
    switches = [("fcntl", [(O_FCNTL_NB, 0, 0, 0)]), ("fionbio", [(O_FIONBIO, 0, 1, 0)])]
    for kind in (0, 1, 2):
        rx = [(O_READ, 0), (O_READV, 0)] + ([] if kind == 1 else [(O_RECV, 0), (O_RECVFROM, 0), (O_RECVMSG, 0)])
        for name, sw in switches:
            for (op, _) in rx:
                # empty descriptor in non-blocking mode: -1/EAGAIN at once
                res.append(Script("nonblock", [kind], [sw + [(op, 0, 4, 0)]], timeout=1500, note=name))
            # data present: returned; then drained: EAGAIN
            res.append(Script("nonblock", [kind], [[(O_WRITE, 1, 10, 0)] + sw +
                                                   [(O_READ, 0, 4, 0), (O_READ, 0, 100, 0), (O_READ, 0, 4, 0)]], timeout=1500, note=name))
        if kind != 1:
            for op in (O_RECV, O_RECVFROM, O_RECVMSG):
                # MSG_DONTWAIT on a blocking descriptor
                res.append(Script("nonblock", [kind], [[(op, 0, 4, 1), (O_WRITE, 1, 3, 0), (op, 0, 4, 1), (op, 0, 4, 1)]], timeout=1500,
                                  note="dontwait"))
        # back to blocking with FIONBIO 0: a reader blocks again and gets the data that arrives later
        res.append(Script("nonblock", [kind], [[(O_FIONBIO, 0, 1, 0), (O_READ, 0, 4, 0), (O_FIONBIO, 0, 0, 0), (O_READ, 0, 4, 0)],
                                               [(O_SLEEP, 0, 60, 0), (O_WRITE, 1, 4, 0)]], timeout=2000, note="fionbio-back"))
    # non-blocking sends fill the buffer, then EAGAIN (4K send buffer so that it fills quickly)
    for name, sw in (("fcntl", [(O_FCNTL_NB, 1, 0, 0)]), ("fionbio", [(O_FIONBIO, 1, 1, 0)]), ("dontwait", [])):
        fl = 1 if name == "dontwait" else 0
        res.append(Script("nonblock", [0], [sw + [(O_SEND, 1, 1000000, fl)] * 3], timeout=1500, note=name + "-send"))
    # one fiber switches the descriptor to non-blocking while another is blocked on it: the blocked one
    # keeps waiting (POSIX: the mode is looked at when the call is made) until data arrives
    res.append(Script("nonblock", [0], [[(O_READ, 0, 4, 0)], [(O_SLEEP, 0, 40, 0), (O_FCNTL_NB, 0, 0, 0), (O_WRITE, 1, 4, 0)]],
                      timeout=2000, note="switch-while-blocked"))
    return res


def fam_badfd(rng, tier):
    res = []
    ops = [(O_CLOSE, 0, 0), (O_FCNTL_NB, 0, 0), (O_FIONBIO, 1, 0), (O_FIONBIO, 0, 0), (O_READ, 4, 0), (O_WRITE, 4, 0),
           (O_RECV, 4, 0), (O_SEND, 4, 0), (O_READV, 4, 0), (O_WRITEV, 4, 0), (O_RECVFROM, 4, 1), (O_SENDTO, 4, 0),
           (O_RECVMSG, 4, 0), (O_SENDMSG, 4, 1), (O_ACCEPT, 0, 0), (O_GETFL, 0, 0)]
    for slot in (-1, -2, -3, -4, -5, -6):
        for (op, a, b) in ops:
            res.append(Script("badfd", [0], [[(op, slot, a, b)]], timeout=1500))
    # a good descriptor keeps working after bad ones were tried; closing twice
    res.append(Script("badfd", [0], [[(O_CLOSE, -5, 0, 0), (O_FCNTL_NB, -6, 0, 0), (O_WRITE, 1, 5, 0), (O_READ, 0, 5, 0),
                                     (O_CLOSE, 0, 0, 0), (O_CLOSE, 0, 0, 0), (O_READ, 0, 5, 0), (O_FCNTL_NB, 0, 0, 0),
                                     (O_FIONBIO, 0, 1, 0), (O_WRITE, 1, 5, 0)]], timeout=1500))
    return res


def fam_accept(rng, tier):
    res = []
    for nacc in (1, 2, 3):
        for stagger in (0, 50):
            for _ in range(1 if tier == "quick" else 3):
                m = rng.choice([1, 100, 20000])
                thr = []
                for _a in range(nacc):
                    thr.append([(O_ACCEPT, 0, 0, 0), (O_READ_ALL, 100 + len(thr) + 1, m, rng.choice([0, 1]))])
                for c in range(nacc):
                    thr.append([(O_SLEEP, 0, 40 + stagger * c, 0), (O_CONNECT, 0, 0, 0),
                                (O_WRITE_ALL, 100 + len(thr) + 1, m, rng.choice([0, 1])), (O_CLOSE, 100 + len(thr) + 1, 0, 0)])
                res.append(Script("accept", [3], thr, nkt=rng.choice([1, 1, 2]), timeout=3000, policy="totals",
                                  note="%d acceptors" % nacc))
    return res


def fam_closewake(rng, tier):
    """close of a descriptor with blocked waiters: libfiber wakes them with an error (a plain
    pthread stays blocked, so there is no reference run; the expectation is the property's)"""
    res = []
    for kind in (0, 1, 2):
        for nwait in (1, 2, 3):
            thr = [[(rng.choice([O_READ, O_READV] if kind == 1 else [O_READ, O_RECV, O_READV, O_RECVFROM, O_RECVMSG]), 0, 10, 0)]
                   for _ in range(nwait)]
            thr.append([(O_SLEEP, 0, 60, 0), (O_CLOSE, 0, 0, 0)])
            exp = {(t + 1, 0): "error" for t in range(nwait)}
            exp[(nwait + 1, 1)] = 0
            res.append(Script("closewake", [kind], thr, timeout=2500, policy="impl_only", expect=exp))
    # a writer blocked on a full buffer and a reader blocked on the same descriptor, then close
    thr = [[(O_WRITE_ALL, 0, 4000000, 0)], [(O_READ, 0, 10, 0)], [(O_SLEEP, 0, 80, 0), (O_CLOSE, 0, 0, 0)]]
    res.append(Script("closewake", [0], thr, timeout=2500, policy="impl_only",
                      expect={(1, 0): "error", (2, 0): "error", (3, 1): 0}))
    return res


def fam_closerace(rng, tier):
    """descriptor-number reuse: while thread 1 is inside close(), the number is released by the kernel and another
    thread's socketpair() receives it (slots 101 / 201).  The new descriptor is an ordinary blocking descriptor: a read
    with nothing pending waits for the peer's write, F_GETFL shows no O_NONBLOCK, a large write completes."""
    res = []
    for nkt in (1, 2):
        for kind in (0, 1, 2):
            for rx in (O_READ, O_RECV, O_READV):
                # the barrier (not a delay) orders thread 2's use of slot 201 after the close: no timing dependence
                thr = [[(O_CLOSE_RACE, 0, 0, 0), (O_BARRIER, 0, 0, 2), (rx, 101, 3, 0), (O_GETFL, 101, 0, 0),
                        (O_WRITE_ALL, 101, 300000, 0)],
                       [(O_BARRIER, 0, 0, 2), (O_SLEEP, 0, 40, 0), (O_WRITE, 201, 3, 0), (O_READ_ALL, 201, 300000, 0)]]
                res.append(Script("closerace", [kind], thr, nkt=nkt, timeout=3000))
        # the descriptor being closed has a blocked reader (woken with an error by the close): no reference run
    return res


def fam_errwake(rng, tier):
    """a fiber blocked on a descriptor whose readiness becomes ERROR-ONLY (EPOLLERR without IN/OUT): a writer blocked on
    a full pipe whose read end is then closed (a plain blocking write returns -1/EPIPE at that moment); a reader blocked
    on a socket whose peer is shut down / closed gets EOF (HUP).  The blocked call must be resumed and report what the
    plain call reports."""
    res = []
    for nkt in (1, 2):
        for tx in (0, 2):          # write / writev until 4 MB (blocks when the pipe is full)
            thr = [[(O_WRITE_ALL, 1, 4000000, tx)], [(O_SLEEP, 0, 80, 0), (O_CLOSE, 0, 0, 0)]]
            res.append(Script("errwake", [1], thr, nkt=nkt, timeout=3000, policy="totals"))
        for kind in (0, 2):        # reader blocked, peer closes: EOF
            for rx in (O_READ, O_RECV):
                thr = [[(rx, 0, 10, 0)], [(O_SLEEP, 0, 80, 0), (O_CLOSE, 1, 0, 0)]]
                res.append(Script("errwake", [kind], thr, nkt=nkt, timeout=3000))
    return res


def fam_idiom(rng, tier):
    """the usual ways programs switch modes (beyond the exact forms the shims special-case)"""
    res = []
    for kind in (0, 1):
        # fl = F_GETFL; F_SETFL fl|O_NONBLOCK  -> non-blocking
        res.append(Script("idiom", [kind], [[(O_IDIOM, 0, 1, 0), (O_READ, 0, 4, 0)]], timeout=1500, note="getfl|nonblock"))
        # O_NONBLOCK, then F_SETFL 0 -> blocking again
        res.append(Script("idiom", [kind], [[(O_FCNTL_NB, 0, 0, 0), (O_SETFL, 0, 0, 0), (O_READ, 0, 4, 0)],
                                            [(O_SLEEP, 0, 60, 0), (O_WRITE, 1, 4, 0)]], timeout=2000, note="setfl-0"))
        # what F_GETFL reports for a descriptor the program never made non-blocking, and after it did
        res.append(Script("idiom", [kind], [[(O_GETFL, 0, 0, 0), (O_FCNTL_NB, 0, 0, 0), (O_GETFL, 0, 0, 0)]], timeout=1500,
                          note="getfl"))
    return res


def fam_migrate(rng, tier):
    """two kernel threads, small socket buffers, both directions: fibers wait often and are
    resumed by whichever kernel thread polls (a fiber that resumes on another kernel thread
    must still see the errno of its own last real call)"""
    res = []
    for _ in range(48 if tier == "quick" else 400):
        n = rng.choice([30000, 40000, 60000])
        v = lambda: rng.choice([0, 1, 2, 3, 4])
        thr = [[(O_READ_ALL, 1, n, v())], [(O_READ_ALL, 0, n, v())], [(O_WRITE_ALL, 1, n, v())], [(O_WRITE_ALL, 0, n, v())]]
        rng.shuffle(thr)
        res.append(Script("migrate", [2], thr, nkt=rng.choice([2, 2, 3]), timeout=2000))
    return res


def fam_mix(rng, tier):
    """several descriptors of different kinds in use at once, up to 12 fibers, 1-3 kernel threads"""
    res = []
    for _ in range(12 if tier == "quick" else 150):
        nobj = rng.randint(2, 3)
        kinds = [rng.choice([0, 1, 2, 4]) for _ in range(nobj)]
        thr = []
        for k, kind in enumerate(kinds):
            rv = [0, 2] if kind == 1 else [0, 1, 2, 3, 4]
            total = rng.choice([1, 50, 3000, 70000, 200000] if kind in (0, 1) else [1, 50, 3000, 30000])
            for n in split(rng, total, rng.randint(1, 2)):
                thr.append([(O_READ_ALL, 2 * k, n, rng.choice(rv))])
            pre = [(O_SLEEP, 0, rng.choice([0, 0, 15]), 0)]
            thr.append(pre + [(O_WRITE_ALL, 2 * k + 1, total, rng.choice(rv))] +
                       ([(O_CLOSE, 2 * k + 1, 0, 0)] if rng.random() < 0.3 else []))
        rng.shuffle(thr)
        res.append(Script("mix", kinds, thr[:12], nkt=rng.choice([1, 1, 2, 3]), policy="totals"))
    return res


def fam_duplex(rng, tier):
    """two fibers blocked on the SAME descriptor in DIFFERENT directions; the descriptor becomes
    ready only for the direction that was registered first (the interest of the first waiter
    must survive the registration of the second).  The peer's next step waits (barrier / needs
    the data) for the first waiter to resume, so a lost wake-up is a hang, not a delay."""
    res = []
    cfg = [(0, 1000000), (4, 200000), (2, 300000)]
    for kind, n in cfg:
        for _ in range(1 if tier == "quick" else 4):
            rd = rng.choice([O_READ, O_RECV, O_READV, O_RECVFROM, O_RECVMSG])
            wv = rng.choice([0, 1, 2, 3, 4])
            # reader first, writer second, then ONE byte arrives: the reader must return while
            # the writer is still blocked; only then does the peer drain
            thr = [[(rd, 0, 1, 0), (O_BARRIER, 0, 0, 2)],
                   [(O_SLEEP, 0, 40, 0), (O_WRITE_ALL, 0, n, wv)],
                   [(O_SLEEP, 0, 110, 0), (O_WRITE, 1, 1, 0), (O_BARRIER, 0, 0, 2), (O_READ_ALL, 1, n, rng.choice([0, 1, 2]))]]
            res.append(Script("duplex", [kind], thr, timeout=3000, note="reader-first"))
            # writer first (buffer full), reader second, then the peer drains: the writer must
            # resume to deliver the rest; afterwards one byte releases the reader
            thr = [[(O_WRITE_ALL, 0, n, wv)],
                   [(O_SLEEP, 0, 60, 0), (rd, 0, 1, 0)],
                   [(O_SLEEP, 0, 130, 0), (O_READ_ALL, 1, n, rng.choice([0, 1, 2])), (O_WRITE, 1, 1, 0)]]
            res.append(Script("duplex", [kind], thr, timeout=3000, note="writer-first"))
    return res


FAMILIES = [fam_errwake, fam_closerace, fam_duplex, fam_mix, fam_transfer, fam_pingpong, fam_multi, fam_nonblock, fam_badfd, fam_accept, fam_closewake, fam_migrate]


def gen_scripts(ctx, tier):
    rng = random.Random(ctx.seed * 7919 + 8)
    res = []
    for f in FAMILIES:
        res += f(rng, tier)
    if tier == "thorough":
        # more draws of the randomised families
        for _ in range(30):
            for f in (fam_mix, fam_transfer, fam_pingpong, fam_multi, fam_accept, fam_duplex):
                res += f(rng, tier)
    if os.environ.get("VERIF_C08_IDIOMS", "1") != "0":
        res += fam_idiom(rng, tier)
    return res


# --------------------------------------------------------------------------
# running and comparing
# --------------------------------------------------------------------------
class Result:
    def __init__(self, line):
        self.raw = line or ""
        self.status, self.code, self.setup = "MISSING", 0, 0
        self.res, self.unfinished, self.rx, self.tx, self.log, self.inv = {}, {}, {}, {}, [], None
        self.logfull = False
        for tok in self.raw.split(";"):
            p = tok.split()
            if not p:
                continue
            if p[0] == "STATUS":
                self.status, self.code, self.setup = p[1], int(p[2]), int(p[3])
            elif p[0] == "INV":
                self.inv = " ".join(p[1:])
            elif p[0] == "r":
                self.res[(int(p[1]), int(p[2]))] = (int(p[3]), int(p[4]), int(p[5]), int(p[6]))
            elif p[0] == "u":
                self.unfinished[int(p[1])] = (int(p[2]), int(p[3]))
            elif p[0] == "x":
                self.rx[(int(p[1]), int(p[2]))] = (int(p[3]), int(p[4]), int(p[5]))
            elif p[0] == "w":
                self.tx[(int(p[1]), int(p[2]))] = int(p[3])
            elif p[0] == "L":
                self.log.append(tuple(int(x) for x in p[1:6]))
            elif p[0] == "LOGFULL":
                self.logfull = True

    def brief(self):
        s = ["status=%s%s" % (self.status, " signal %d" % self.code if self.status == "CRASH" else "")]
        for k in sorted(self.res):
            r = self.res[k]
            s.append("t%d.%d=%d%s" % (k[0], k[1], r[0], "" if r[1] == 0 else "/errno %d" % r[2]))
        for t, (i, op) in sorted(self.unfinished.items()):
            s.append("t%d.%d(%s) never returned" % (t, i, OPNAME.get(op, op)))
        return " ".join(s)


def norm(r):
    """(ret, errno class) as compared between the two sides"""
    ret, ec = r[0], r[1]
    return (ret, 0) if ec == 0 else (-1, ec)


ECN = {0: "ok", 1: "EAGAIN", 2: "EBADF", 3: "error", 4: "EINPROGRESS"}


def compare(sc, I, R):
    """None, or a description of how the shim run deviates from the reference run"""
    text = sc.text()
    nkt, timeout, kinds, threads = parse_script(text)
    if I.status == "CRASH":
        at = "; ".join("thread %d in %s" % (t, OPNAME.get(op, op)) for t, (i, op) in sorted(I.unfinished.items()))
        return "the process running the shims was killed by signal %d (%s)" % (I.code, at or "after the script")
    if I.status in ("EXIT", "MISSING", "BADSCRIPT"):
        if not I.setup and sc.policy != "impl_only" and R is not None and R.status == "OK":
            return "descriptor setup through the shims failed (exit %d) but works with libc" % I.code
        return "harness: implementation side ended with %s %d" % (I.status, I.code)
    if I.inv:
        return "result outside what the call may return: " + I.inv
    if sc.policy == "impl_only":
        if I.status == "HANG":
            return "never returned: " + "; ".join("thread %d %s" % (t, OPNAME.get(op, op)) for t, (i, op) in sorted(I.unfinished.items()))
        for k, want in sorted(sc.expect.items()):
            got = I.res.get(k)
            if got is None:
                return "thread %d op %d did not complete" % k
            if want == "error" and got[0] >= 0:
                return "thread %d: %s on a descriptor closed meanwhile returned %d, expected an error" % (
                    k[0], OPNAME[threads[k[0] - 1][k[1]][0]], got[0])
            if want != "error" and got[0] != want:
                return "thread %d op %d returned %d/errno %d, expected %s" % (k[0], k[1], got[0], got[2], want)
        return None
    if R is None or R.status != "OK":
        return None     # no verdict without a reference
    if I.status == "HANG":
        parts = []
        for t, (i, op) in sorted(I.unfinished.items()):
            rr = R.res.get((t, i))
            parts.append("thread %d: %s never returned (libc returned %s)" % (
                t, OPNAME.get(op, op), "%d%s" % (rr[0], "" if rr[1] == 0 else "/" + ECN.get(rr[1], "?")) if rr else "?"))
        return "; ".join(parts) or "the run never finished"
    for t, ops in enumerate(threads, 1):
        for i, o in enumerate(ops):
            if o[0] in SKIP_OPS:
                continue
            a, b = I.res.get((t, i)), R.res.get((t, i))
            if a is None or b is None:
                return "thread %d op %d missing on one side" % (t, i)
            if sc.policy == "totals" and o[0] not in (O_READ_ALL, O_WRITE_ALL, O_ACCEPT, O_CONNECT, O_CLOSE):
                continue
            if norm(a) != norm(b):
                s = BADSLOT.get(o[1], "descriptor")
                return "thread %d: %s on %s returned %d%s over the shims, %d%s with libc" % (
                    t, OPNAME.get(o[0], o[0]) if o[0] not in (O_READ_ALL, O_WRITE_ALL) else
                    (RXV if o[0] == O_READ_ALL else TXV)[o[3]] + "-until-%d" % o[2], s,
                    a[0], "" if a[1] == 0 else "/%s(errno %d)" % (ECN.get(a[1]), a[2]),
                    b[0], "" if b[1] == 0 else "/%s(errno %d)" % (ECN.get(b[1]), b[2]))
    # byte streams: per slot totals; ordered checksum when one reader and one writer
    # descriptors obtained from accept/connect (slots >= 16) are compared as one group: which
    # acceptor gets which connection is not determined
    grp = lambda s: s if s < 16 else 100
    slots = set(grp(k[1]) for k in I.rx) | set(grp(k[1]) for k in R.rx)
    for s in sorted(slots):
        ia = [(k[0],) + v for k, v in I.rx.items() if grp(k[1]) == s]
        ra = [(k[0],) + v for k, v in R.rx.items() if grp(k[1]) == s]
        if sum(x[1] for x in ia) != sum(x[1] for x in ra):
            return "slot %d: %d bytes received over the shims, %d with libc" % (s, sum(x[1] for x in ia), sum(x[1] for x in ra))
        if sum(x[2] for x in ia) & 0xffffffff != sum(x[2] for x in ra) & 0xffffffff:
            return "slot %d: the received bytes differ (sum) between the shims and libc" % s
        if len(ia) == 1 and len(ra) == 1 and s < 100:
            writers = sum(1 for t in threads for o in t if o[0] in (O_WRITE, O_SEND, O_WRITEV, O_SENDTO, O_SENDMSG, O_WRITE_ALL)
                          and o[1] == (s ^ 1))
            if writers == 1 and ia[0][3] != ra[0][3]:
                return "slot %d: byte stream received in a different order / content over the shims" % s
    return None


def classify(sc, why, I=None):
    """defect class of a deviation (used to group the findings and for known_findings matching)"""
    ops = sc.ops()
    if sc.nkt >= 2 and sc.family in ("transfer", "multi", "pingpong", "migrate", "accept") and I is not None and \
            any(r[1] == 1 for r in I.res.values()):
        return "stale-errno"
    badops = [o for o in ops if o[1] < 0]
    if badops:
        if any(o[0] == O_CLOSE for o in badops) and ("signal" in why or "close" in why):
            return "bad-fd-close"
        if any(o[0] in (O_FCNTL_NB, O_FIONBIO) for o in badops) and ("fcntl" in why or "ioctl" in why or "signal" in why):
            return "bad-fd-modeswitch"
        return "bad-fd-other"
    if sc.family == "badfd":
        return "bad-fd-modeswitch" if ("fcntl" in why or "ioctl" in why) else "bad-fd-other"
    if sc.family == "nonblock" and ("never returned" in why):
        return "nonblocking-ignored"
    if sc.family == "accept" and ("accept" in why and "EAGAIN" in why):
        return "accept-eagain"
    if sc.family == "idiom":
        return "mode-idiom"
    return "other:" + sc.family


CLASS_ID = {"bad-fd-close": "F-C08a", "bad-fd-modeswitch": "F-C08b", "nonblocking-ignored": "F-C08c",
            "accept-eagain": "F-C08d", "mode-idiom": "F-C08e", "stale-errno": "F-C08f"}
CLASS_TEXT = {
    "other:errwake": "a fiber blocked on a descriptor is not resumed when the kernel reports an error-only / hang-up "
                     "readiness for it (the plain blocking call returns EPIPE / EOF at that moment)",
    "other:closerace": "a descriptor created by another thread while close() is in progress (it receives the number the "
                       "kernel just released) loses its bookkeeping: close() touches fd_info / the event layer after the real close",
    "other:duplex": "a fiber blocked on a descriptor is not resumed when it becomes ready while another fiber is blocked on "
                    "the same descriptor for the other direction",
    "bad-fd-close": "close() of a descriptor outside [0,max_fd) indexes wait_info unchecked in fiber_fd_closed",
    "bad-fd-modeswitch": "fcntl(F_SETFL,O_NONBLOCK) / ioctl(FIONBIO) on a descriptor that is out of range or not open "
                         "update fd_info unchecked and report success",
    "nonblocking-ignored": "after fcntl(O_NONBLOCK) / ioctl(FIONBIO,1) the shims still wait: should_block tests "
                           "flags & (BLOCKING|WAITABLE)",
    "accept-eagain": "accept() on a blocking listener returns -1/EAGAIN: it waits only once",
    "mode-idiom": "fcntl(F_SETFL, v) only recognises v == O_NONBLOCK exactly: F_GETFL|O_NONBLOCK on a socket is ignored, "
                  "F_SETFL without O_NONBLOCK does not restore blocking mode, F_GETFL shows O_NONBLOCK the caller never set",
    "stale-errno": "with >= 2 kernel threads a call on a blocking descriptor returns -1/EAGAIN: after fiber_wait_for_event "
                   "the fiber may run on another kernel thread, but the retry test reads errno through the cached "
                   "__errno_location() of the previous thread",
}
STATIC_CLASS = {"blocking_table": "accept-eagain", "mask": "nonblocking-ignored", "mask_unmanaged": "nonblocking-ignored",
                "bounds": None, "managed": "bad-fd-modeswitch", "wait_layer": "other:wait-layer", "table_sane": "other:table",
                "fcntl_tracks": "mode-idiom", "errno_fresh": "stale-errno"}


def known():
    data = core.load_known()
    res = []
    for f in data.get("findings", []):
        if f.get("property") != "C08":
            continue
        cls = [c for c, i in CLASS_ID.items() if i == f.get("id")]
        if not cls:
            continue
        tag = "[%s]" % cls[0]
        # a known finding covers a deviation only while the source still has the construct that
        # causes it (the translator's *_fails lemma is quoted in the text of the violation)
        static = {"F-C08a": "close_bad_fd_refuted", "F-C08b": "bad_fd_refuted", "F-C08c": "mask_fails",
                  "F-C08d": "accept_single_retry_refuted", "F-C08e": "fcntl_tracks_fails",
                  "F-C08f": "errno_fresh_fails"}[f["id"]]
        res.append({"id": f["id"], "what": "%s %s" % (f["id"], f.get("what", "")),
                    "match": (lambda label, case, why, tag=tag, static=static: why.startswith(tag) and static in why)})
    return res


# --------------------------------------------------------------------------
# build
# --------------------------------------------------------------------------
LIB_FLAGS = ["-O1", "-g", "-std=gnu11", "-DNDEBUG", "-DFIBER_FAST_SWITCHING", "-DFIBER_STACK_MMAP", "-D_GNU_SOURCE"]
SKIP_SRC = ("fiber_event_ev.c", "fiber_scheduler_dist.c")


def build(ctx):
    out = ctx.scratch
    inc = "-I" + os.path.join(core.REPO, "include")
    srcs = sorted(f for f in os.listdir(os.path.join(core.REPO, "src")) if f.endswith(".c") and f not in SKIP_SRC)
    objs = []
    from concurrent.futures import ThreadPoolExecutor

    def cc(f):
        o = os.path.join(out, "lf_" + f[:-2] + ".o")
        rc, txt = core.sh(["gcc"] + LIB_FLAGS + [inc, "-c", os.path.join(core.REPO, "src", f), "-o", o])
        return f, o, rc, txt
    with ThreadPoolExecutor(max_workers=8) as ex:
        for f, o, rc, txt in ex.map(cc, srcs):
            if rc != 0:
                ctx.oblige("build:%s" % f, False, txt)
                return None
            objs.append(o)
    h = os.path.join(core.RT, "h_io.c")
    so = os.path.join(out, "libh_io_rec.so")
    rc, txt = core.sh(["gcc", "-O1", "-g", "-DH_IO_REC", "-shared", "-fPIC", h, "-o", so, "-ldl"])
    if rc != 0:
        raise RuntimeError("recorder build failed: " + txt)
    ho = os.path.join(out, "h_io.o")
    rc, txt = core.sh(["gcc"] + LIB_FLAGS + [inc, "-c", h, "-o", ho])
    if rc != 0:
        ctx.oblige("build:h_io.c", False, txt)
        return None
    exe = os.path.join(out, "h_io")
    rc, txt = core.sh(["gcc", ho] + objs + ["-L" + out, "-Wl,-rpath," + out, "-lh_io_rec", "-lpthread", "-ldl", "-lm", "-o", exe])
    if rc != 0:
        ctx.oblige("link:h_io", False, txt)
        return None
    ctx.oblige("build:libfiber+h_io(%d sources)" % len(srcs), True)
    return exe


def driver(ctx):
    """the shared driver if it has the current fdshim model, else a private one"""
    # self-test: new descriptor 3, fcntl(3, F_SETFL, flags without O_NONBLOCK) with mode tracking
    # (real call expected), its result, the return
    probe = "1 2 10 1 1 1 1 1 1 1 1 1 0 1 14 4 0 0 0 0  0 5 3 0 0  0 1 14 3 2  0 2 14 0 0  0 4 0 0 0\n"
    if os.path.exists(core.DRIVER):
        rc, out = core.sh([core.DRIVER, "fdshim"], input=probe.encode(), timeout=20)
        if rc == 0 and out.split() == ["0", "0", "0", "0"]:
            return core.DRIVER
    d = os.path.join(ctx.scratch, "drv")
    rc, out = core.sh([os.path.join(core.VERIF, "tools", "mkdriver.sh"), d, "FdShim"], timeout=900)
    p = os.path.join(d, "driver")
    if rc != 0 or not os.path.exists(p):
        ctx.oblige("driver:fdshim", False, out)
        return None
    return p


# --------------------------------------------------------------------------
# model replay
# --------------------------------------------------------------------------
def model_config(G, max_fd):
    b = G["bounds"]
    v = [G["consts"]["IO_FLAG_BLOCKING"], G["consts"]["IO_FLAG_WAITABLE"], max_fd,
         int(b["should_block"]), int(b["close"]), int(b["fiber_fd_closed"]), int(b["fcntl"]), int(b["ioctl"]),
         int(G["fcntl_managed_only"]), int(G["ioctl_managed_only"]), int(G["fcntl_tracks_mode"])]
    m = G["sb_mask_code"]
    v += [len(m)] + m
    v.append(len(G["shims"]))
    for s in G["shims"]:
        v += [SHIM_CODE[s["name"]], SHAPE_CODE[s["shape"]], DIR_CODE[s["dir"]], int(s["dontwait"]),
              RETRY_CODE[s["retry_errno"]], int(s["newfd"])]
    return v


def replay_log(I):
    """log entries as the acceptor reads them"""
    return list(I.log)


def run_model(ctx, drv, G, runs, max_fd):
    """runs: list of (script, Result).  Returns number of mismatching runs."""
    cases, idx = [], []
    cfg = model_config(G, max_fd)
    for k, (sc, I) in enumerate(runs):
        if sc.nkt != 1 or I.logfull or I.status in ("MISSING", "BADSCRIPT", "EXIT") or not I.log:
            continue
        flat = []
        for e in I.newlog:
            flat += list(e)
        cases.append(" ".join(str(x) for x in cfg + flat))
        idx.append(k)
    if not cases:
        return 0, 0, 0
    outs = core.run_sharded([drv, "fdshim"], cases)
    bad, entries = 0, 0
    for k, o in zip(idx, outs):
        sc, I = runs[k]
        try:
            v = [int(x) for x in (o or "").split()]
        except ValueError:
            v = [-9]
        entries += len(v)
        if len(v) != len(I.newlog) or any(x != 0 for x in v):
            bad += 1
            j = next((i for i, x in enumerate(v) if x != 0), min(len(v), len(I.newlog)))
            if bad <= 3:
                ctx.failures.append({"kind": "correspondence", "label": "fdshim-replay", "case": sc.text(),
                                     "script": describe(sc.text()),
                                     "first_mismatch_entry": j, "model_code": v[j] if j < len(v) else "short output",
                                     "entry": list(I.newlog[j]) if j < len(I.newlog) else None,
                                     "log_head": [list(e) for e in I.newlog[max(0, j - 6):j + 2]]})
    return len(cases), bad, entries


# --------------------------------------------------------------------------
# the check
# --------------------------------------------------------------------------
def translate(ctx):
    rc, out = core.sh(["python3", GEN], env={"VERIF_REPO": core.REPO}, timeout=60)
    ctx.oblige("translator:gen_shims(fiber_io.c,fiber_event_native.c)", rc == 0, out)
    if rc != 0:
        return None
    rc, out = core.sh(["python3", GEN, "--json"], env={"VERIF_REPO": core.REPO}, timeout=60)
    if rc != 0:
        ctx.oblige("translator:json", False, out)
        return None
    return json.loads(out)


def match_lemmas():
    """names stated in the generated ShimMatch.v"""
    try:
        src = open(os.path.join(core.COQ, "gen", "ShimMatch.v")).read()
    except OSError:
        return []
    return re.findall(r"(?m)^Lemma\s+([A-Za-z0-9_']+)", src)


def max_fd_here():
    import resource
    return resource.getrlimit(resource.RLIMIT_NOFILE)[1]


def run_differential(ctx, exe, scripts):
    texts = [s.text() for s in scripts]
    impl = core.run_sharded([exe, "impl"], texts, timeout=900)
    need_ref = [i for i, s in enumerate(scripts) if s.policy != "impl_only"]
    ref_out = core.run_sharded([exe, "ref"], [texts[i] for i in need_ref], timeout=900)
    ref = {i: o for i, o in zip(need_ref, ref_out)}
    runs = []
    for i, s in enumerate(scripts):
        I = Result(impl[i])
        I.newlog = replay_log(I)
        R = Result(ref[i]) if i in ref else None
        runs.append((s, I, R))
    return runs


def run(ctx):
    ctx.trusted = TRUSTED
    kn = known()
    G = translate(ctx)
    core.coq_property(ctx, "Properties_C08.v", THEOREMS)
    lemmas = match_lemmas()
    static_fail = []
    if G is not None:
        core.coq_property(ctx, "gen/ShimMatch.v", lemmas)
        for c in CONDITIONS:
            if c + "_holds" in lemmas:
                continue
            if c + "_fails" in lemmas:
                static_fail.append(c)
            else:
                ctx.oblige("match:%s" % c, False, "neither %s_holds nor %s_fails in gen/ShimMatch.v" % (c, c))
    exe = build(ctx)
    findings = {}      # class -> list of evidence dicts
    nscripts = 0
    if exe:
        scripts = gen_scripts(ctx, ctx.tier)
        nscripts = len(scripts)
        runs = run_differential(ctx, exe, scripts)
        noref = 0
        dist = {}
        opdist = {}
        for (sc, I, R) in runs:
            dist[sc.family] = dist.get(sc.family, 0) + 1
            for o in sc.ops():
                opdist[OPNAME[o[0]]] = opdist.get(OPNAME[o[0]], 0) + 1
            if sc.policy != "impl_only" and (R is None or R.status != "OK"):
                noref += 1
                if noref <= 2:
                    ctx.failures.append({"kind": "harness", "name": "reference run did not complete",
                                         "case": sc.text(), "script": describe(sc.text()), "ref": (R.raw if R else "")[:500]})
                continue
            why = compare(sc, I, R)
            if why:
                cls = classify(sc, why, I)
                findings.setdefault(cls, []).append({"script": sc.text(), "what_it_does": describe(sc.text()),
                                                     "deviation": why, "shims": I.brief(),
                                                     "libc": R.brief() if R else "(no reference: expectation is the property's)"})
        ctx.oblige("differential:reference-runs-complete(%d scripts)" % nscripts, noref == 0, "%d reference runs did not finish" % noref)
        # model replay
        nrep = nbad = nent = 0
        drv = driver(ctx) if G is not None else None
        if drv:
            nrep, nbad, nent = run_model(ctx, drv, G, [(s, i) for (s, i, r) in runs if s.family != "closerace"], max_fd_here())
            ctx.oblige("correspondence:fdshim-replay(%d runs)" % nrep, nbad == 0, "%d of %d recorded runs are not what the model does" % (nbad, nrep))
        badfd = sum(1 for (s, i, r) in runs if s.family == "badfd")
        ctx.coverage.update({
            "scripts_run": nscripts, "script_families": dist, "op_distribution": opdist,
            "bad_fd_cases": badfd, "bad_fd_values": list(BADSLOT.values()),
            "model_replay_runs": nrep, "model_replay_log_entries": nent, "model_replay_mismatches": nbad,
            "traces_validated_against_impl": nrep - nbad, "evaluations": nscripts,
            "distinct_nontrivial": sum(1 for (s, i, r) in runs if any(e[1] == 3 for e in i.log)),
            "rule": "script = descriptors + per-thread programs of shimmed calls; run on fibers over the shims and on "
                    "pthreads over libc; non-trivial = at least one fiber_wait_for_event registration in the run",
            "static_conditions_failing": static_fail,
            "deviation_classes": {k: len(v) for k, v in findings.items()},
        })
        ctx.stats["differential"] = {"cases": nscripts, "deviating": sum(len(v) for v in findings.values()),
                                     "without_reference": noref}
        for (s, i, r) in runs[:1] + runs[len(runs) // 2:len(runs) // 2 + 1]:
            ctx.samples.append({"harness": "h_io", "case": s.text(), "impl_trace_head": i.raw[:300]})
    # static findings: attach to the class they explain
    for c in static_fail:
        cls = STATIC_CLASS.get(c)
        if c == "bounds" and G is not None:
            b = G["bounds"]
            if not b["fiber_fd_closed"]:
                findings.setdefault("bad-fd-close", []).insert(0, {"refuted_lemma": "gen/ShimMatch.v: close_bad_fd_refuted (bounds_fails)"})
            if not (b["fcntl"] and b["ioctl"]):
                findings.setdefault("bad-fd-modeswitch", []).insert(0, {"refuted_lemma": "gen/ShimMatch.v: fcntl_bad_fd_refuted / ioctl_bad_fd_refuted (bounds_fails)"})
            if not (b["should_block"] and b["close"]):
                findings.setdefault("other:bounds", []).insert(0, {"refuted_lemma": "gen/ShimMatch.v: bad_fd_bounds_refuted (should_block/close unchecked)"})
            continue
        bad_shapes = ", ".join("%s_%s_refuted" % (x["name"], {"SingleRetry": "single_retry", "SingleWait": "single_wait",
                                                                "NoWait": "no_wait"}.get(x["shape"], "shape"))
                               for x in (G["shims"] if G else [])
                               if x["retry_errno"] != "ENone" and x["shape"] not in ("PreWaitLoop", "PostFailLoop")
                               and not (x["shape"] == "SingleWait" and x["retry_errno"] == "EINPROGRESS"))
        names = {"blocking_table": "blocking_table_fails, blocking_shape_refuted, " + bad_shapes,
                 "mask": "mask_fails, should_block_mask_refuted", "mask_unmanaged": "mask_unmanaged_fails",
                 "managed": "managed_fails, closed_fd_not_validated_refuted",
                 "wait_layer": "wait_layer_fails", "table_sane": "table_sane_fails",
                 "fcntl_tracks": "fcntl_tracks_fails", "errno_fresh": "errno_fresh_fails"}[c]
        findings.setdefault(cls, []).insert(0, {"refuted_lemma": "gen/ShimMatch.v: " + names})
    order = ["bad-fd-close", "bad-fd-modeswitch", "nonblocking-ignored", "accept-eagain", "mode-idiom", "stale-errno"]
    for cls in order + sorted(k for k in findings if k not in order):
        ev = findings.get(cls)
        if not ev:
            continue
        dyn = [e for e in ev if "script" in e]
        head = dyn[0] if dyn else None
        why = "[%s] %s%s — %d deviating script(s)%s%s" % (
            cls, (CLASS_ID.get(cls) + ": ") if cls in CLASS_ID else "", CLASS_TEXT.get(cls, "deviation from the reference run"),
            len(dyn), "; e.g. " + head["deviation"] if head else " (no script of this run shows it; Coq refutation only)",
            "; " + "; ".join(e["refuted_lemma"] for e in ev if "refuted_lemma" in e) if any("refuted_lemma" in e for e in ev) else "")
        case = head["script"] if head else ""
        trace = json.dumps(ev[:12], indent=1)
        report(ctx, "h_io:" + cls, case, why, trace, kn)
    if G is None and ctx.violations:
        # concrete failing inputs were found by the search; keep the translator's verdict visible too
        msg = next((d for (n, ok, d) in ctx.obligations if n.startswith("translator:") and not ok), "")
        report(ctx, "translator", "", "[translator] gen_shims.py rejected the working tree (the differential scripts were "
               "run as the search for a failing input: see the other replays): " + msg.strip()[-600:], "", kn)
    core.finish(ctx, level="proof",
                checker_cmd="python3 tools/gen/gen_shims.py ; cd coq && coqc -Q . LF Properties_C08.v gen/ShimMatch.v ; "
                            "rt/h_io impl|ref < scripts ; build/driver fdshim",
                extra_assumptions=ASSUME)


def report(ctx, label, case, why, trace, kn):
    """core.report_violation, but every defect class gets its own replay file and VIOLATION
    line (core stops writing replays after five)"""
    if len(ctx.violations) < 5:
        return core.report_violation(ctx, label, case, why, trace, kn)
    for k in kn or []:
        if k["match"](label, case, why):
            if k["id"] not in ctx.known_printed:
                ctx.known_printed.append(k["id"])
                print("KNOWN-FINDING: property=%s %s" % (ctx.pid, k["what"]))
            return
    if len(ctx.violations) >= 12:
        ctx.violations.append((None, why))
        return
    path = core.write_replay(ctx, {"property": ctx.pid, "harness": label, "case": case, "why": why,
                                   "impl_trace": (trace or "")[:20000], "seed": ctx.seed,
                                   "repo_head": core.repo_head()})
    ctx.violations.append((path, why))
    print("VIOLATION property=%s replay=%s" % (ctx.pid, path))


def replay(ctx, payload):
    exe = build(ctx)
    c = payload.get("case")
    if not exe or not c:
        print("nothing to replay (no concrete script in this file)")
        return 2
    nkt, timeout, kinds, threads = parse_script(c)
    print(describe(c))
    sc = Script("replay", kinds, threads, nkt, timeout)
    R = Result(core.run_sharded([exe, "ref"], [c])[0])
    if nkt >= 2:
        # depends on which kernel thread resumes a fiber: repeat under load
        outs = core.run_sharded([exe, "impl"], [c] * 640)
        devs = [(Result(o), compare(sc, Result(o), R)) for o in outs]
        bad = [(i, w) for (i, w) in devs if w]
        print("libc:  %s\n%d of %d runs over the shims deviate" % (R.brief(), len(bad), len(devs)))
        if bad:
            print("shims: %s\nverdict: %s" % (bad[0][0].brief(), bad[0][1]))
        return 1 if bad else 0
    I = Result(core.run_sharded([exe, "impl"], [c])[0])
    print("shims: %s\nlibc:  %s" % (I.brief(), R.brief()))
    label = payload.get("harness", "")
    if "closewake" in (payload.get("why") or "") or R.status != "OK":
        bad = I.status != "OK"
    else:
        why = compare(sc, I, R)
        print("verdict: %s" % (why or "no deviation"))
        bad = bool(why)
    return 1 if bad else 0


TRUSTED = [
    "Coq 8.16.1 kernel + vm_compute; Print Assumptions of each theorem (recorded)",
    "tools/gen/gen_shims.py (tokenizer + C-precedence expression parser + shape templates; aborts on anything else); "
    "its choice between *_holds / *_fails lemmas is re-computed by Coq",
    "extraction ExtrOcamlBasic only; OCaml driver coq/extract/driver.ml",
    "rt/h_io.c: script interpreter, fork-per-script with deadline, pass-through recorder between the shims' "
    "dlsym(RTLD_NEXT) and libc",
    "glibc + Linux as the reference semantics of the calls (same kernel on both sides of the comparison)",
]
ASSUME = [
    "PARTIAL: the kernel is outside the model: what real calls return, that epoll reports readiness, that an invalid "
    "descriptor makes the real call fail",
    "descriptors returned by the kernel are < max_fd (RLIMIT_NOFILE hard limit at init; setup_socket/pipe/poller index unchecked)",
    "lock / spinlock_to_unlock ordering around registration is C01's protocol; registration, poller step and close are atomic "
    "steps on the wait record here",
    "connect: a wake-up not caused by completion (second waiter on the same unconnected socket) is not excluded",
    "model replay only for single-kernel-thread runs (global order of the recorded log is exact there); secondary real calls of "
    "descriptor creation (fcntl/setsockopt in setup_socket) are not replayed",
    "int truncation of ssize_t results; SO_REUSEADDR side effect; Solaris/libev back-ends not covered",
]
