"""C15 MPSC / SPSC / relaxed-MPSC queues: Coq theorems (Properties_C15.v) +
lock-step correspondence of include/mpsc_fifo.h, spsc_fifo.h and
mpsc_relaxed_fifo.h with coq/Mpsc.v, coq/Spsc.v, coq/Mpscr.v + monitors.

Case encoding (see rt/h_mpsc.c, rt/h_spsc.c, rt/h_mpscr.c):
  mpsc : params [dmax];      ops (1, n*1000+v) push node n data v, (2,_) trypop,
                             (3, v) re-push the node my last trypop returned, data v
  spsc : params [dmax];      ops (1, n*1000+v), (2,_), (3, v) push the node the consumer freed last, data v
  mpscr: params [dmax, np];  ops (1, q*10^7+n*1000+v) push as producer q, (2,_),
                             (3, q*10^7+v) push the node the consumer freed last as producer q
(spsc/mpscr: every node returned by trypop goes onto a free stack; op 3 is a
no-op returning 0 when the stack is empty.  A recycled node has a stale next.)
Discipline of every generated case: thread 0 is the only consumer; a node is
pushed by at most one op and is not a stub; spsc: one producer thread;
mpscr: one pushing thread per queue."""
import os
import random

from vf import core

THEOREMS = [
    "mpsc_exactly_once_fifo", "mpsc_kth_pop_is_kth_push", "mpsc_pop_returns_pushed_only",
    "mpsc_per_producer_order", "mpsc_empty_justified", "mpsc_node_ownership",
    "spsc_exactly_once_fifo", "spsc_kth_pop_is_kth_push", "spsc_pop_returns_pushed_only",
    "spsc_program_order", "spsc_empty_justified", "spsc_node_ownership",
    "mpscr_per_producer_fifo", "mpscr_exactly_once", "mpscr_per_producer_order", "mpscr_empty_justified",
    "mpscr_null_visits_all", "mpscr_node_ownership",
]
PUSH, POP, REPUSH = 1, 2, 3
Q = 10000000


# ---------------------------------------------------------------------------
# implementation-side monitors (property oracles on the trace alone)
# ---------------------------------------------------------------------------
L_REST = 3900     # search mode: byte b of the fifo object (node locs end at 2300) = 3900 + b (bytes registered otherwise keep their locs)


def parse_case(case):
    v = [int(x) for x in case.split()]
    npar = v[0]
    params = v[1:1 + npar]
    nthreads = v[1 + npar]
    progs, i = [], 2 + npar
    for _ in range(nthreads):
        n = v[i]; i += 1
        progs.append([(v[i + 2 * j], v[i + 2 * j + 1]) for j in range(n)])
        i += 2 * n
    return params, progs


def is_next_loc(loc):
    return loc >= 101 and loc % 2 == 1


def is_data_loc(loc):
    return loc >= 100 and loc % 2 == 0


class QueueMon:
    """one strict FIFO (the whole mpsc/spsc queue, or one per-producer queue
    of mpscr): order of tail updates, link status, pops."""

    def __init__(self, name):
        self.name = name
        self.order = []       # data values in the order of the tail exchanges / tail stores
        self.linked = []      # link store of that push executed?
        self.npop = 0         # successful pops (head advanced) so far

    def exchanged(self, v):
        self.order.append(v)
        self.linked.append(False)
        return len(self.order) - 1

    def null_justified(self):
        """may a trypop see NULL right now?"""
        if self.npop >= len(self.order):
            return None                       # empty
        if not self.linked[self.npop]:
            return None                       # oldest unpopped push still in flight
        return ("%s: trypop saw NULL although item %d (value %d) was exchanged and linked "
                "and not yet popped" % (self.name, self.npop, self.order[self.npop]))

    def popped(self, val):
        if self.npop < len(self.order) and val == self.order[self.npop]:
            if not self.linked[self.npop]:
                return "%s: pop returned value %d before its push executed the link store" % (self.name, val)
            self.npop += 1
            return None
        want = ("value %d" % self.order[self.npop]) if self.npop < len(self.order) else "nothing (all exchanged pushes already popped)"
        if val not in self.order:
            detail = "it was never pushed"
        elif val in self.order[:self.npop]:
            detail = "it was already popped (popped twice)"
        else:
            detail = "it was exchanged later"
        return ("%s: pop returned value %d which is not the oldest unpopped push: order of tail exchanges requires %s; %s"
                % (self.name, val, want, detail))


def make_monitor(kind):
    """kind in mpsc / spsc / mpscr"""

    def monitor(case, tr, raw):
        if tr is None:
            return "implementation produced no trace: %s" % (raw or "")[:80]
        # search mode (RT_CATCHALL=1): accesses to bytes of the object(s) that have no location of their own are
        # scheduling points, not events of the protocol judged here
        tr = [e for e in tr if e[1] < L_REST or e[2] in (909, 919)]
        params, progs = parse_case(case)
        nthreads = len(progs)
        nq = params[1] if kind == "mpscr" else 1
        queues = [QueueMon("queue %d" % q if kind == "mpscr" else kind) for q in range(nq)]
        opidx = [0] * nthreads
        inflight = [None] * nthreads      # (queue, index) exchanged but not linked, per thread
        lastpop = [0] * nthreads          # node returned by my last successful pop (mpsc recycling)
        lastread = [None] * nthreads      # (loc, val) of my last plain read
        visit_q = [None] * nthreads       # queue whose head I loaded last (consumer)
        headset_q = [None] * nthreads     # queue whose head I advanced in this call
        nullvisits = [None] * nthreads    # queues found NULL in this trypop call
        head = [q + 1 for q in range(nq)]  # shadow of each head pointer (stubs are nodes 1..nq)
        headseen = [None] * nthreads      # head value my trypop loaded from the queue it popped
        pushvals_seen = set()

        def tail_loc(loc):
            if kind == "mpscr":
                return loc >= 10 and loc < 100 and loc % 2 == 1 and (loc - 11) // 2 < nq
            return loc == 2

        def head_loc(loc):
            if kind == "mpscr":
                return loc >= 10 and loc < 100 and loc % 2 == 0 and (loc - 10) // 2 < nq
            return loc == 1

        def qof(loc):
            return (loc - 10) // 2 if kind == "mpscr" else 0

        for (t, loc, k, val) in tr:
            if k == 919:
                return "thread %d never finished" % t
            if t < 0 or t >= nthreads:
                return "event of unknown thread %d" % t
            if opidx[t] >= len(progs[t]):
                return "thread %d: event after its program ended" % t
            op, a = progs[t][opidx[t]]
            K = k // 10
            if k == 909:
                if op == POP:
                    if t != 0:
                        return "non-consumer thread popped (bad case)"
                    if val != 0:
                        q = headset_q[t]
                        if q is None:
                            return "trypop returned node %d without advancing any head" % val
                        lr = lastread[t]
                        if lr is None or lr[0] != 98 + 2 * val:
                            return "consumer did not read the data of the returned node %d" % val
                        why = queues[q].popped(lr[1])
                        if why:
                            return why
                        if val == head[q]:
                            return "trypop returned node %d which is still the stub (head) of its queue" % val
                        if val != headseen[t]:
                            return "trypop returned node %d, not the old stub %s it unlinked" % (val, headseen[t])
                        lastpop[t] = val
                    else:
                        if headset_q[t] is not None:
                            return "trypop advanced a head but returned NULL"
                        nv = nullvisits[t] or []
                        if sorted(set(nv)) != list(range(nq)):
                            return "trypop returned NULL having found NULL only in queues %s of %d" % (nv, nq)
                    headset_q[t] = None
                    nullvisits[t] = None
                    visit_q[t] = None
                else:
                    if inflight[t] is not None:
                        return "push returned without executing its link store"
                inflight[t] = None
                opidx[t] += 1
                continue
            if K == 0:
                lastread[t] = (loc, val)
            # ---- producer side: tail exchange / tail store, then link store
            if tail_loc(loc) and K in (3, 4):
                if op == POP:
                    return "trypop wrote the tail"
                if op == PUSH:
                    v = a % 1000
                    q = (a // Q) if kind == "mpscr" else 0
                elif kind == "mpscr":
                    v, q = a % 1000, a // Q
                else:
                    v, q = a, 0
                if kind == "mpscr" and q != qof(loc - 1):
                    return "push for producer %d wrote the tail of queue %d" % (q, qof(loc - 1))
                if inflight[t] is not None:
                    return "two tail updates in one push"
                inflight[t] = (q, queues[q].exchanged(v))
            elif is_next_loc(loc) and K in (1, 3) and op != POP and inflight[t] is not None and val != 0:
                q, idx = inflight[t]
                queues[q].linked[idx] = True
                inflight[t] = None
            # ---- consumer side
            if op == POP:
                if head_loc(loc) and K in (0, 2):
                    visit_q[t] = qof(loc)
                    headseen[t] = val
                elif head_loc(loc) and K in (1, 3):
                    if headset_q[t] is not None:
                        return "trypop advanced two heads"
                    headset_q[t] = qof(loc)
                    head[qof(loc)] = val
                elif is_next_loc(loc) and K in (0, 2) and val == 0 and headset_q[t] is None:
                    q = visit_q[t]
                    if q is None:
                        return "trypop read a next pointer before loading a head"
                    why = queues[q].null_justified()
                    if why:
                        return why
                    if nullvisits[t] is None:
                        nullvisits[t] = []
                    nullvisits[t].append(q)
        return None

    return monitor


MONITORS = {k: make_monitor(k) for k in ("mpsc", "spsc", "mpscr")}


# ---------------------------------------------------------------------------
# case generation
# ---------------------------------------------------------------------------
class Alloc:
    """fresh node ids and distinct data values for one case"""

    def __init__(self, first_node):
        self.n = first_node
        self.v = 0

    def node(self):
        self.n += 1
        return self.n - 1

    def val(self):
        self.v += 1
        return self.v


def mpsc_prog(al, ops):
    out = []
    for o in ops:
        if o == PUSH:
            out.append((PUSH, al.node() * 1000 + al.val()))
        elif o == REPUSH:
            out.append((REPUSH, al.val()))
        else:
            out.append((POP, 0))
    return out


def random_interleaving(rng, counts):
    il = [t for t, n in enumerate(counts) for _ in range(n)]
    rng.shuffle(il)
    return il


MP_STEPS = {PUSH: 4, POP: 6, REPUSH: 4}
SP_STEPS = {PUSH: 5, POP: 6}


def gen_mpsc(ctx, tier, rng):
    cases = []
    # (1) exhaustive: consumer call(s) against one producer push, prefilled 0..2
    for pre in (0, 1, 2):
        for cons in ([POP], [PUSH], [POP, POP], [POP, REPUSH], [REPUSH]):
            al = Alloc(2)
            p0 = mpsc_prog(al, [PUSH] * pre + cons)
            p1 = mpsc_prog(al, [PUSH])
            n0 = sum(MP_STEPS[o] for o in cons)
            for il in core.interleavings([n0, 4]):
                cases.append(core.fmt_case([200], [p0, p1], [0] * (4 * pre) + il))
    # consumer pop against two producers (sampled in quick, all in thorough)
    al = Alloc(2)
    p3 = [mpsc_prog(al, [POP]), mpsc_prog(al, [PUSH]), mpsc_prog(al, [PUSH])]
    pick = (core.interleavings([6, 4, 4]) if tier == "thorough"
            else [random_interleaving(rng, [6, 4, 4]) for _ in range(6000)])
    for il in pick:
        cases.append(core.fmt_case([200], p3, il))
    n_ex = len(cases)
    # (2) random programs x schedules
    nrand = 8000 if tier == "quick" else 120000
    for _ in range(nrand):
        nt = rng.choice([2, 2, 3, 3, 4, 5, 8])
        al = Alloc(2)
        progs = []
        for t in range(nt):
            n = rng.randint(1, 6)
            if t == 0:
                ops = [rng.choice([POP, POP, POP, PUSH, REPUSH]) for _ in range(n)]
            else:
                ops = [PUSH] * rng.randint(1, 4)
            progs.append(mpsc_prog(al, ops))
        total = sum(MP_STEPS[o] for p in progs for (o, _) in p)
        length = rng.randint(3, total + 5)
        cases.append(core.fmt_case([600], progs, core.random_sched(rng, nt, max(length, 5), rng.randrange(3))))
    # (3) sequential programs (one thread is producer and consumer)
    for _ in range(300):
        al = Alloc(2)
        ops = [rng.choice([PUSH, POP, REPUSH]) for _ in range(rng.randint(1, 14))]
        cases.append(core.fmt_case([600], [mpsc_prog(al, ops)], []))
    # (4) boundaries: re-push without a node; pop on the empty queue; 16 threads;
    #     a producer stalled between exchange and link while others complete
    cases.append(core.fmt_case([200], [[(REPUSH, 5), (POP, 0), (REPUSH, 6)]], []))
    cases.append(core.fmt_case([200], [[(POP, 0), (POP, 0)]], []))
    al = Alloc(2)
    big = [mpsc_prog(al, [POP] * 20)] + [mpsc_prog(al, [PUSH, PUSH]) for _ in range(15)]
    for _ in range(20):
        cases.append(core.fmt_case([2000], big, core.random_sched(rng, 16, rng.randint(20, 300), rng.randrange(3))))
    for k in (1, 2, 3):
        al = Alloc(2)
        progs = [mpsc_prog(al, [POP] * 6), mpsc_prog(al, [PUSH]), mpsc_prog(al, [PUSH, PUSH])]
        cases.append(core.fmt_case([400], progs, [1] * k + [2] * 8 + [0] * 20 + [1] * 4 + [0] * 20))
    return cases, n_ex, nrand


def sp_prog(al, ops):
    out = []
    for o in ops:
        if o == PUSH:
            out.append((PUSH, al.node() * 1000 + al.val()))
        elif o == REPUSH:
            out.append((REPUSH, al.val()))
        else:
            out.append((POP, 0))
    return out


def gen_spsc(ctx, tier, rng):
    cases = []
    for pre in (0, 1, 2):
        for cons in ([POP], [POP, POP]):
            for prod in ([PUSH], [PUSH, PUSH]):
                al = Alloc(2)
                p0 = sp_prog(al, cons)
                p1 = sp_prog(al, [PUSH] * pre + prod)
                ncalls = len(cons) + len(prod)
                keep = 1.0 if ncalls == 2 else (0.2 if ncalls == 3 else 0.002)
                if tier == "thorough":
                    keep = 1.0 if ncalls <= 3 else 0.05
                for il in core.interleavings([6 * len(cons), 5 * len(prod)]):
                    if keep < 1.0 and rng.random() > keep:
                        continue
                    cases.append(core.fmt_case([200], [p0, p1], [1] * (5 * pre) + il))
    # recycling: after k fresh pushes and k pops the free stack holds nodes with
    # stale next pointers; one recycled push against one or two pops, every interleaving
    for k in (1, 2):
        for cons in ([POP], [POP, POP]):
            for extra in ([], [PUSH]):
                al = Alloc(2)
                p0 = sp_prog(al, [POP] * k + cons)
                p1 = sp_prog(al, [PUSH] * k + [REPUSH] + extra)
                pre = [1] * (5 * k) + [0] * (6 * k)
                counts = [6 * len(cons), 6 + 5 * len(extra)]
                total = 1
                ils = (core.interleavings(counts) if len(cons) == 1 and not extra
                       else [random_interleaving(rng, counts) for _ in range(2500 if tier == "quick" else 40000)])
                if tier == "thorough" and len(cons) == 2 and not extra:
                    ils = core.interleavings(counts)
                for il in ils:
                    cases.append(core.fmt_case([300], [p0, p1], pre + il))
    n_ex = len(cases)
    nrand = 8000 if tier == "quick" else 120000
    for _ in range(nrand):
        al = Alloc(2)
        p0 = sp_prog(al, [POP] * rng.randint(1, 8))
        p1 = sp_prog(al, [rng.choice([PUSH, PUSH, REPUSH]) for _ in range(rng.randint(1, 8))])
        progs = [p0, p1] + ([[]] if rng.random() < 0.1 else [])
        total = 6 * len(p0) + 6 * len(p1)
        length = rng.randint(3, total + 5)
        cases.append(core.fmt_case([600], progs, core.random_sched(rng, 2, max(length, 5), rng.randrange(3))))
    for _ in range(300):      # producer = consumer = thread 0
        al = Alloc(2)
        ops = [rng.choice([PUSH, POP, POP, REPUSH]) for _ in range(rng.randint(1, 14))]
        cases.append(core.fmt_case([600], [sp_prog(al, ops)], []))
    cases.append(core.fmt_case([200], [[(POP, 0), (POP, 0)], []], []))
    cases.append(core.fmt_case([200], [[(POP, 0)], [(REPUSH, 5), (PUSH, 2006), (REPUSH, 7)]], []))
    return cases, n_ex, nrand


def mr_prog(al, ops):
    """ops: POP or ('push', q) or ('recyc', q)"""
    out = []
    for o in ops:
        if o == POP:
            out.append((POP, 0))
        elif o[0] == "recyc":
            out.append((REPUSH, o[1] * Q + al.val()))
        else:
            out.append((PUSH, o[1] * Q + al.node() * 1000 + al.val()))
    return out


def gen_mpscr(ctx, tier, rng):
    cases = []
    # exhaustive: np = 2, one trypop against one push to either queue, prefilled
    for pre in ((), (0,), (1,), (0, 1), (1, 1)):
        for q in (0, 1):
            al = Alloc(20)
            p0 = mr_prog(al, [POP])
            p1 = mr_prog(al, [("push", x) for x in pre] + [("push", q)])
            for il in core.interleavings([10, 5]):
                if tier == "quick" and rng.random() > 0.4:
                    continue
                cases.append(core.fmt_case([300, 2], [p0, p1], [1] * (5 * len(pre)) + il))
    # np = 1 (degenerates to spsc) and np = 3 with two pushers
    for il in core.interleavings([6, 5]):
        al = Alloc(20)
        cases.append(core.fmt_case([300, 1], [mr_prog(al, [POP]), mr_prog(al, [("push", 0)])], il))
    al = Alloc(20)
    p3 = [mr_prog(al, [POP]), mr_prog(al, [("push", 0)]), mr_prog(al, [("push", 2)])]
    for il in [random_interleaving(rng, [15, 5, 5]) for _ in range(3000 if tier == "quick" else 100000)]:
        cases.append(core.fmt_case([300, 3], p3, il))
    # recycling: one recycled push (stale next) against one or two trypops
    for npr, pq, rq in ((1, 0, 0), (2, 0, 0), (2, 0, 1), (2, 1, 1)):
        for cons in ([POP], [POP, POP]):
            al = Alloc(20)
            p0 = mr_prog(al, [POP] + cons)
            p1 = mr_prog(al, [("push", pq), ("recyc", rq)])
            pre = [1] * 5 + [0] * (4 + 5 * npr)
            counts = [(4 + 5 * npr) * len(cons), 6]
            if len(cons) == 1 and (npr == 1 or tier == "thorough"):
                ils = core.interleavings(counts)
            else:
                ils = [random_interleaving(rng, counts) for _ in range(1500 if tier == "quick" else 30000)]
            for il in ils:
                cases.append(core.fmt_case([400, npr], [p0, p1], pre + il))
    n_ex = len(cases)
    nrand = 8000 if tier == "quick" else 120000
    for _ in range(nrand):
        npr = rng.choice([1, 2, 2, 3, 3, 4, 5])
        nprod = rng.randint(1, min(npr, 4))
        # assign each queue to at most one pushing thread (thread 0 may own queues too)
        owners = {}
        for q in range(npr):
            owners[q] = rng.choice(list(range(1, nprod + 1)) + ([0] if rng.random() < 0.2 else []))
        al = Alloc(20)
        progs = []
        for t in range(nprod + 1):
            mine = [q for q in range(npr) if owners[q] == t]
            n = rng.randint(1, 6)
            ops = []
            for _ in range(n):
                kindp = "recyc" if rng.random() < 0.3 else "push"
                if t == 0:
                    ops.append((kindp, rng.choice(mine)) if mine and rng.random() < 0.3 else POP)
                elif mine:
                    ops.append((kindp, rng.choice(mine)))
            progs.append(mr_prog(al, ops))
        total = sum(6 if o != POP else 4 + 5 * npr for p in progs for (o, _) in p)
        length = rng.randint(3, total + 5)
        cases.append(core.fmt_case([1200, npr], progs,
                                   core.random_sched(rng, len(progs), max(length, 5), rng.randrange(3))))
    for _ in range(300):      # sequential
        npr = rng.choice([1, 2, 3, 4])
        al = Alloc(20)
        ops = [rng.choice([POP, POP, ("push", rng.randrange(npr)), ("recyc", rng.randrange(npr))])
               for _ in range(rng.randint(1, 14))]
        cases.append(core.fmt_case([1200, npr], [mr_prog(al, ops)], []))
    # boundaries: 16 queues, counter far from a multiple of np, all empty
    al = Alloc(20)
    cases.append(core.fmt_case([3000, 16], [mr_prog(al, [POP, ("push", 15), POP, POP, ("push", 0), POP])], []))
    cases.append(core.fmt_case([300, 3], [[(POP, 0), (POP, 0)], []], []))
    # the round-robin cursor crosses a power of two during the run (a narrower cursor type would wrap there): the real
    # cursor starts at the largest multiple of np at most B - d, reported values debiased (rt_bias), model run from 0
    wrap = []
    pool = [c for c in cases if c.split()[0] == "2"]
    for c in rng.sample(pool, min(len(pool), 500 if tier == "quick" else 5000)):
        v = c.split()
        npr = int(v[2])
        B = rng.choice([1 << 32, 1 << 32, 1 << 31, 1 << 16])
        bias = ((B - rng.randint(0, 3 * npr)) // npr) * npr
        wrap.append(" ".join(["3", v[1], v[2], str(bias)] + v[3:]))
    cases += wrap
    return cases, n_ex, nrand


GENS = {"mpsc": gen_mpsc, "spsc": gen_spsc, "mpscr": gen_mpscr}
HARNESS = {"mpsc": "h_mpsc", "spsc": "h_spsc", "mpscr": "h_mpscr"}


def gen_cases(ctx, tier, kind="mpsc"):
    rng = random.Random(ctx.seed * 7919 + 15 + {"mpsc": 0, "spsc": 1000, "mpscr": 2000}[kind])
    cases, n_ex, nrand = GENS[kind](ctx, tier, rng)
    ctx.coverage.setdefault("case_distribution", {})[kind] = {
        "exhaustive_interleavings": n_ex, "random_programs": nrand, "total": len(cases)}
    return cases


def build(ctx, kind):
    return core.build_harness(ctx, HARNESS[kind], HARNESS[kind] + ".c")


def run(ctx):
    ctx.trusted = TRUSTED
    core.coq_property(ctx, "Properties_C15.v", THEOREMS)
    ok_all = True
    exes = {}
    for kind in ("mpsc", "spsc", "mpscr"):
        exe = build(ctx, kind)
        exes[kind] = exe
        if not exe:
            ok_all = False
            continue
        cases = corpus(ctx, kind) + gen_cases(ctx, ctx.tier, kind)
        ok = core.correspond(ctx, kind, kind, exe, cases, MONITORS[kind])
        ok_all = ok_all and ok
    tot = {k: sum(ctx.stats.get(l, {}).get(k, 0) for l in ("mpsc", "spsc", "mpscr"))
           for k in ("cases", "differ", "nontrivial")}
    ctx.coverage.update({
        "traces_validated_against_impl": tot["cases"] - tot["differ"],
        "evaluations": tot["cases"], "distinct_nontrivial": tot["nontrivial"],
        "rule": "case = (programs of push/trypop per thread obeying the single-consumer discipline, schedule); "
                "non-trivial = at least one trypop returned NULL in the implementation trace"})
    if not ok_all or ctx.failures:
        search(ctx, exes)
    core.init_contract(ctx, ["mpsc_fifo", "spsc_fifo", "mpsc_relaxed_fifo"])  # rt/h_init.c: real init on dirty memory
    core.finish(ctx, extra_assumptions=ASSUME)


def search(ctx, exes):
    """something stopped checking: look for a concrete property failure on the
    implementation with more schedules (monitor only)."""
    if ctx.violations:
        return
    for kind in ("mpsc", "spsc", "mpscr"):
        exe = exes.get(kind)
        if not exe:
            continue
        rng_ctx = core.Ctx(ctx.pid, "thorough", ctx.seed + 1000)
        try:
            cases = gen_cases(rng_ctx, "thorough", kind)[:40000]
        finally:
            rng_ctx.cleanup()
        # RT_CATCHALL: every byte of the fifo object is a scheduling point (fields the model does not know included)
        scases, impl = core.run_search(ctx, exe, cases)   # plain schedules first, then with every byte of the object a scheduling point
        for c, line in zip(scases, impl):
            why = core.safe_monitor(MONITORS[kind], c, core.parse_trace(line) if line else None, line)
            if why:
                core.report_violation(ctx, kind + "+catchall", c, why, line)
                if len(ctx.violations) >= 3:
                    return


def corpus(ctx, kind):
    p = os.path.join(core.VERIF, "corpus", "C15_%s.txt" % kind)
    try:
        return [l.strip() for l in open(p) if l.strip() and not l.startswith("#")]
    except OSError:
        return []


def replay(ctx, payload):
    if payload.get("harness") == "h_init":
        return core.replay_init(ctx, payload)
    kind = str(payload.get("harness", ""))
    catchall = kind.endswith("+catchall")
    kind = kind[:-len("+catchall")] if catchall else kind
    c = payload.get("case")
    if kind not in HARNESS or not c:
        print("nothing to replay (no concrete case in this file)")
        return 2
    exe = build(ctx, kind)
    if not exe:
        print("harness does not build")
        return 2
    if catchall:
        impl = core.run_sharded(["env", "RT_CATCHALL=1", exe], [c])[0]
        why = core.safe_monitor(MONITORS[kind], c, core.parse_trace(impl) if impl is not None else None, impl)
        print("harness: %s\ncase:  %s\nimpl (every byte of the object a scheduling point):  %s\nmonitor: %s" % (kind, c, impl, why or "ok"))
        return 1 if why else 0
    impl = core.run_sharded([exe], [c])[0]
    mod = core.model_run(kind, [c])[0]
    why = MONITORS[kind](c, core.parse_trace(impl), impl)
    print("harness: %s\ncase:  %s\nimpl:  %s\nmodel: %s\nmonitor: %s\nlock-step: %s" %
          (kind, c, impl, mod, why or "ok", "identical" if impl == mod else "DIFFER"))
    return 1 if (why or impl != mod) else 0


TRUSTED = [
    "Coq 8.16.1 kernel + vm_compute (no native_compute)",
    "Print Assumptions of each theorem (recorded under print_assumptions)",
    "extraction: Require Extraction + ExtrOcamlBasic only (bool/option/unit/list/prod/sumbool); no Extract Constant",
    "OCaml driver coq/extract/driver.ml (int <-> Z conversion, line I/O)",
    "rt/rt.c: gcc -fsanitize=thread access hooks as the source of access events, baton scheduler",
    "models of mpsc_fifo.h / spsc_fifo.h / mpsc_relaxed_fifo.h written by hand (coq/Mpsc.v, Spsc.v, Mpscr.v); "
    "tie = identical per-access traces (location, kind, memory order, value)",
    "SC interleaving of accesses (the memory orders are compared in the trace but the proofs assume SC); -O0 instrumented build",
    "harnesses rt/h_mpsc.c, h_spsc.c, h_mpscr.c: stubs taken from a static node array instead of calloc "
    "(initialisation otherwise as *_init / mpscr_fifo_create)",
]
ASSUME = ["usage discipline (wf in the Coq files): exactly one consumer thread; a node is owned by the queue from "
          "push until trypop returns it (never pushed twice concurrently, never the stub); spsc/mpscr: one "
          "pushing thread per queue, producer_number < num_producers",
          "mpscr: the plain counter does not reach 2^64 (unbounded nat in the model)"]
