"""C12 fiber barrier: Coq theorems (Properties_C12.v) + lock-step correspondence of the
real src/fiber_barrier.c + src/fiber_manager.c (wait_in_mpsc_queue / wake_from_mpsc_queue /
maintenance) on the T1 machine with coq/Barrier.v (client of coq/T1K.v, two waiter lists
alternating by round parity) + an implementation-side monitor of the property itself
(round safety, one serial fiber per round, everybody returns).

F-C12 (one list shared by all rounds: the serial fiber of round k pops the round-(k+1)
entry of a fiber it already released) was fixed in /repo by 20d3952; its witness stays in
corpus/C12.txt and is reported as a VIOLATION if the defect returns."""
import os
import random

from vf import core

THEOREMS = ["barrier_round_safety", "barrier_one_serial_per_round", "barrier_single_consumer",
            "barrier_all_return", "barrier_single_round", "barrier_no_return_before_count",
            "barrier_round_safety_one_list_refuted", "barrier_more_participants_refuted"]
WAIT = 1
T1_SOURCES = ["src/fiber_manager.c", "src/fiber.c", "src/fiber_barrier.c", "src/fiber_mutex.c",
              "src/fiber_spinlock.c", "src/hazard_pointer.c"]
T1_FLAGS = ["-Dpthread_create=t1_pthread_create"]
LOC_COUNTER, LOC_SCHED = 300, 901
MAX_ROUNDS = 64


def parse_case(case):
    v = [int(x) for x in case.split()]
    i = 1 + v[0]
    n = v[i]; i += 1
    rounds = []
    for _ in range(n):
        k = v[i]; i += 1
        rounds.append(k)
        i += 2 * k
    return v[1:1 + v[0]], rounds


# --------------------------------------------------------------------------
# implementation-side oracle of the property (reads only the harness events,
# the fetch_add on the counter and the schedule(f) events of the real code)
# --------------------------------------------------------------------------

def monitor(case, tr, raw):
    if tr is None:
        return "implementation produced no trace: %s" % (raw or "")[:80]
    params, rounds = parse_case(case)
    count = params[1]
    start = params[3] if len(params) > 3 else 0     # initial counter value (completed rounds)
    n = len(rounds)
    rnd = [0] * n               # round the fiber is in (its k-th call)
    phase = ["idle"] * n        # idle / entered / arrived / returned
    ticket = [None] * n         # value fetched by the fiber's current call
    serial = [False] * n
    woken = [False] * n
    nwake = [0] * n
    entered, arrived, nserial = {}, {}, {}
    nadd = 0
    cause = None
    blocked, spinning = [], []

    def with_cause(msg):
        return msg + ("; cause: " + cause if cause else "")

    for (t, loc, kind, val) in tr:
        if kind == 919 and loc == 0:
            if val == 7:
                blocked.append(t)
            elif val == 8:
                spinning.append(t)
            continue
        if kind == 919 and 1 <= loc <= MAX_ROUNDS and val == 1:
            if phase[t] not in ("idle", "returned") or loc != rnd[t] + 1:
                return with_cause("fiber %d entered round %d out of order" % (t, loc))
            rnd[t] = loc; phase[t] = "entered"
            entered[loc] = entered.get(loc, 0) + 1
        elif loc == LOC_COUNTER and kind == 55:
            if phase[t] != "entered":
                return with_cause("fiber %d incremented the counter outside a call" % t)
            if val != start + nadd:
                return with_cause("counter is not a monotone arrival count: fetched %d, expected %d" % (val, start + nadd))
            val -= start      # arrival number since the start of the case (start is a multiple of count)
            nadd += 1
            ticket[t] = val; phase[t] = "arrived"
            serial[t] = ((val + 1) % count == 0)
            woken[t] = False; nwake[t] = 0
            arrived[rnd[t]] = arrived.get(rnd[t], 0) + 1
        elif loc == LOC_SCHED and kind == 919:
            f = val
            if not (phase[t] == "arrived" and serial[t]):
                return with_cause("fiber %d woke fiber %d although it is not a serial fiber inside a wait" % (t, f))
            if f == t or not (0 <= f < n) or phase[f] != "arrived" or serial[f] or woken[f]:
                return with_cause("serial fiber %d of round %d woke fiber %d, which is not waiting "
                                  "(double wake-up or stale entry)" % (t, rnd[t], f))
            woken[f] = True
            nwake[t] += 1
            if nwake[t] > count - 1:
                return with_cause("serial fiber %d woke %d waiters, count-1 = %d" % (t, nwake[t], count - 1))
            if n == count and rnd[f] < rnd[t]:
                return with_cause("serial fiber %d of round %d popped the entry of fiber %d for the EARLIER round %d"
                                  % (t, rnd[t], f, rnd[f]))
            if n == count and rnd[f] > rnd[t] and cause is None:
                cause = ("serial fiber %d of round %d popped the entry of fiber %d for the later round %d"
                         % (t, rnd[t], f, rnd[f]))
        elif kind == 909:
            k = loc
            if phase[t] != "arrived" or k != rnd[t]:
                return with_cause("fiber %d returned from round %d without having arrived in it" % (t, k))
            if arrived.get(k, 0) < count:
                return with_cause("fiber %d returned from round %d before %d fibers entered round %d "
                                  "(entered=%d arrived=%d)" % (t, k, count, k, entered.get(k, 0), arrived.get(k, 0)))
            if (val == 1) != serial[t] or val not in (0, 1):
                return with_cause("fiber %d whose arrival number is %d (count %d) returned %d"
                                  % (t, ticket[t] + 1, count, val))
            if serial[t] and nwake[t] != count - 1:
                return with_cause("serial fiber %d of round %d returned after waking %d waiters, count-1 = %d"
                                  % (t, k, nwake[t], count - 1))
            if not serial[t] and not woken[t]:
                return with_cause("fiber %d returned from round %d without having been woken" % (t, k))
            if n == count and val == 1:
                nserial[k] = nserial.get(k, 0) + 1
                if nserial[k] > 1:
                    return with_cause("two serial fibers in round %d" % k)
            phase[t] = "returned"
    if spinning:
        return with_cause("fiber %d still spinning when the step budget ran out (no quiescence)" % spinning[0])
    # quiescence: only the members of an incomplete last group may still sleep
    for t in blocked:
        if not (phase[t] == "arrived" and not serial[t] and not woken[t]
                and ticket[t] // count == nadd // count and nadd % count != 0):
            return with_cause("fiber %d is stranded: asleep at quiescence in round %d although %d arrivals "
                              "(count %d) completed its round" % (t, rnd[t], nadd, count))
    for t in range(n):
        if t not in blocked and not (phase[t] in ("idle", "returned") and rnd[t] == rounds[t]):
            return with_cause("fiber %d neither finished its %d rounds nor is reported stuck" % (t, rounds[t]))
    if n == count and len(set(rounds)) == 1:
        if blocked:
            return with_cause("fiber %d never returned" % blocked[0])
        for k in range(1, rounds[0] + 1):
            if nserial.get(k, 0) != 1:
                return with_cause("round %d had %d serial fibers" % (k, nserial.get(k, 0)))
    if cause:
        return cause      # the early release had not yet surfaced when the run ended
    return None


# --------------------------------------------------------------------------
# cases
# --------------------------------------------------------------------------
def progs_of(rounds):
    return [[(WAIT, 0)] * r for r in rounds]


def straggler_sched(rng, n, stall, k):
    """fiber `stall` performs its fetch_add (Start + fetch_add = 2 steps, + k more steps)
    and is then held back while the others run for a long time."""
    others = [t for t in range(n) if t != stall]
    s = []
    for t in others:
        if rng.random() < 0.5:
            s += [t] * rng.randint(1, 14)
    s += [stall] * (2 + k)
    for _ in range(rng.randint(20, 60)):
        s += [rng.choice(others)] * rng.randint(1, 14)
    return s


def gen_cases(ctx, tier):
    rng = random.Random(ctx.seed * 7919 + 12)
    cases = []
    dist = {}
    big = tier != "quick"

    def add(fam, count, rounds, sched, dmax=4000):
        cases.append(core.fmt_case([dmax, count], progs_of(rounds), sched))
        dist[fam] = dist.get(fam, 0) + 1

    # (1) single round, n = count: must be clean
    for count in (1, 2, 3, 4, 5):
        for _ in range((150 if count <= 4 else 60) * (8 if big else 1)):
            length = rng.randint(0, 40 * count)
            add("single_round", count, [1] * count, core.random_sched(rng, count, length, rng.randrange(3)))
        for stall in range(count):
            for k in range(0, 7):
                if count > 1:
                    add("single_round", count, [1] * count, straggler_sched(rng, count, stall, k))
    # exhaustive interleavings of the first steps of two fibers, count = 2, one and two rounds
    for il in core.interleavings([7, 7] if big else [6, 6]):
        add("count2_exhaustive_prefix", 2, [1, 1], il)
        if big or rng.random() < 0.3:
            add("count2_exhaustive_prefix", 2, [2, 2], il)
    # (2) count <= 2 with immediate reuse: must be clean
    for _ in range(2500 if big else 400):
        count = rng.choice([1, 2, 2, 2])
        r = rng.randint(2, 4)
        length = rng.randint(0, 50 * count * r)
        add("reuse_count_le_2", count, [r] * count, core.random_sched(rng, count, length, rng.randrange(3)))
    for k in range(0, 14):
        for j in range(0, 6):
            add("reuse_count_le_2", 2, [3, 3], [0] * (2 + k) + [1] * (10 + 7 * j) + [0] * 5 + [1] * 40)
    # (3) count >= 3 with immediate reuse (the family in which F-C12 showed up before the fix)
    for _ in range(6000 if big else 700):
        count = rng.choice([3, 3, 3, 4])
        r = rng.randint(2, 3)
        if rng.random() < 0.5:
            sched = straggler_sched(rng, count, rng.randrange(count), rng.randint(0, 6))
        else:
            sched = core.random_sched(rng, count, rng.randint(0, 50 * count * r), rng.randrange(3))
        add("reuse_count_ge_3", count, [r] * count, sched, 6000)
    # (3b) long-lived barrier: the 64-bit arrival counter is close to / beyond 2^32 when the case starts
    #      (start = a whole number of completed rounds); counts that do not divide 2^32 and a power-of-two control
    for count in (3, 5, 6, 7, 4):
        below = ((2 ** 32 - 2 * count) // count) * count        # largest multiple of count <= 2^32 - 2*count
        above = (2 ** 32 // count + 1) * count                   # first multiple of count above 2^32
        for start in (below, above):
            r = 4 if start == below else 2
            for j in range((24 if big else 6)):
                if j == 0:
                    sched = []                                     # plain round-robin
                elif j % 2:
                    sched = straggler_sched(rng, count, rng.randrange(count), rng.randint(0, 6))
                else:
                    sched = core.random_sched(rng, count, rng.randint(0, 40 * count * r), rng.randrange(3))
                cases.append(core.fmt_case([12000, count, 2, start], progs_of([r] * count), sched))
                dist["counter_near_2^32"] = dist.get("counter_near_2^32", 0) + 1
    # (4) fewer fibers than count: everybody sleeps, nobody returns
    for _ in range(300 if big else 60):
        count = rng.randint(2, 5)
        n = rng.randint(1, count - 1)
        add("incomplete_group", count, [rng.randint(1, 2) for _ in range(n)],
            core.random_sched(rng, n, rng.randint(0, 40), rng.randrange(3)))
    # (5) sequential: count = 1, one fiber
    for r in range(1, 9):
        add("sequential_count_1", 1, [r], [])
    ctx.coverage["case_distribution"] = dict(dist, total=len(cases))
    return cases


def build(ctx):
    return core.build_harness(ctx, "h_barrier", "h_barrier.c", repo_sources=T1_SOURCES,
                              extra_flags=T1_FLAGS, rt_objs=("rt.c",), extra_rt=("t1.c",))


def corpus():
    p = os.path.join(core.VERIF, "corpus", "C12.txt")
    try:
        return [l.strip() for l in open(p) if l.strip() and not l.startswith("#")]
    except OSError:
        return []


def run(ctx):
    ctx.trusted = TRUSTED
    core.coq_property(ctx, "Properties_C12.v", THEOREMS)
    exe = build(ctx)
    if exe:
        cases = corpus() + gen_cases(ctx, ctx.tier)
        ok = core.correspond(ctx, "barrier", "barrier", exe, cases, monitor)
        st = ctx.stats["barrier"]
        ctx.coverage.update({"traces_validated_against_impl": st["cases"] - st["differ"],
                             "evaluations": st["cases"], "distinct_nontrivial": st["nontrivial"],
                             "rule": "case = (count, number of consecutive fiber_barrier_wait calls per fiber, schedule); "
                                     "non-trivial = at least one fiber slept in the barrier (returned 0)"})
        if ctx.failures and not ctx.violations:
            search(ctx, exe)
    if exe and ctx.tier == "thorough":
        patience(ctx, exe)
    core.init_contract(ctx, ["fiber_barrier"])  # rt/h_init.c: real init on dirty memory
    core.finish(ctx, extra_assumptions=ASSUME)


def patience(ctx, exe):
    """the serial fiber's wait for participants that have arrived (fetch_add) but not yet enqueued - the general
    (count > 1) path of fiber_manager_wake_from_mpsc_queue - must last as long as such a participant is stalled.
    Thorough tier only: count 3, fiber 0 sleeps in the barrier, fiber 1 is stopped right after its fetch_add for 5 million
    steps of the serial fiber 2 (1.25 million iterations of the loop), then everybody runs on; judged on the raw trace
    (all three must return), not compared with the model."""
    n = 5000000
    c = core.fmt_case([4000, 3], progs_of([1, 1, 1]), [0] * 40 + [1] * 2 + [2] * n)
    line = core.run_sharded([exe], [c], timeout=1500)[0]
    w = (line or "").split()
    tail = [tuple(int(x) for x in w[i:i + 4]) for i in range(max(0, len(w) - 400), len(w) - 3, 4)] if len(w) % 4 == 0 else []
    bad = None
    if len(w) < 4 * n // 2:
        bad = "the serial fiber did not keep waiting for the stalled participant (trace has %d events for %d scheduled steps)" % (len(w) // 4, n)
    elif any(k == 919 and loc == 0 and val == 7 for (_t, loc, k, val) in tail) or \
            not any(t == 1 and loc == 1 and k == 909 for (t, loc, k, _v) in tail):
        bad = "after a stall of %d serial-fiber steps the stalled participant never returned from the barrier (trace ends %s)" % (n, tail[-3:])
    if bad:
        core.report_violation(ctx, "barrier-patience", "count 3, one wait each; schedule: 40 x 0, 1 1, then %d x 2 (replay re-runs it)" % n,
                              "patience: " + bad, " ".join(w[-40:]))
    ctx.coverage["patience_stall_steps"] = n
    ctx.oblige("patience(serial fiber waits out a participant stalled for %d steps)" % n, bad is None, bad or "")


def search(ctx, exe):
    """something stopped checking: look for a concrete property failure on the
    implementation with more schedules (monitor only)."""
    c2 = core.Ctx(ctx.pid, "thorough", ctx.seed + 1000)
    try:
        cases = gen_cases(c2, "thorough")[:20000]
    finally:
        c2.cleanup()
    # RT_CATCHALL: every byte of the barrier object is a scheduling point (fields the model does not know included)
    scases, impl = core.run_search(ctx, exe, cases)   # plain schedules first, then with every byte of the object a scheduling point
    for c, line in zip(scases, impl):
        why = core.safe_monitor(monitor, c, core.parse_trace(line) if line else None, line)
        if why:
            core.report_violation(ctx, "barrier+catchall", c, why, line)
            if len(ctx.violations) >= 3:
                break


def replay(ctx, payload):
    if payload.get("harness") == "h_init":
        return core.replay_init(ctx, payload)
    exe = build(ctx)
    if exe and payload.get("harness") == "barrier-patience":
        nv = len(ctx.violations)
        patience(ctx, exe)
        print("patience: %s" % ("VIOLATED again" if len(ctx.violations) > nv else "ok"))
        return 1 if len(ctx.violations) > nv else 0
    c = payload.get("case")
    if not exe or not c:
        print("nothing to replay (no concrete case in this file)")
        return 2
    if str(payload.get("harness", "")).endswith("+catchall"):
        impl = core.run_sharded(["env", "RT_CATCHALL=1", exe], [c])[0]
        why = core.safe_monitor(monitor, c, core.parse_trace(impl), impl)
        print("case:  %s\nimpl (every byte of the object a scheduling point):  %s\nmonitor: %s" % (c, impl, why or "ok"))
        return 1 if why else 0
    impl = core.run_sharded([exe], [c])[0]
    mod = core.model_run("barrier", [c])[0]
    why = monitor(c, core.parse_trace(impl), impl)
    print("case:  %s\nimpl:  %s\nmodel: %s\nmonitor: %s\nlock-step: %s" %
          (c, impl, mod, why or "ok", "identical" if impl == mod else "DIFFER"))
    return 1 if (why or impl != mod) else 0


TRUSTED = [
    "Coq 8.16.1 kernel + vm_compute (no native_compute)",
    "Print Assumptions of each theorem (recorded under print_assumptions)",
    "extraction: ExtrOcamlBasic only; OCaml driver coq/extract/driver.ml",
    "rt/rt.c (TSan-hook baton scheduler) and rt/t1.c (T1 machine: real fiber_manager.c/fiber.c, one pthread per fiber; "
    "context switch, run queues and event layer replaced)",
    "hand-written models coq/T1K.v + coq/Barrier.v (two = true); tie = identical per-access traces",
    "SC interleaving; -O0 instrumented build; barrier->count is immutable and not traced",
]
ASSUME = ["given C01 and C02 (a fiber behaves as a sequential process that is resumed once per wake-up): the T1 cut of DESIGN.md 3.4",
          "exactly `count` fibers use the barrier (all theorems except the two all-configuration ones); with more "
          "participants than count two serial fibers can pop the same waiter list at once, also after the fix "
          "(F-C12b, outside the property's setting: barrier_more_participants_refuted)",
          "the arrival counter does not wrap (uint64)"]
