"""C20 double-word-CAS structures: Coq theorems (Properties_C20.v) + lock-step
correspondence of include/mpmc_lifo.h, mpmc_stack.h, dist_fifo.h and the
multi-signal of fiber_signal.h with coq/Lifo.v, MStack.v, DistFifo.v,
MultiSignal.v + implementation-side monitors (one per structure)."""
import itertools
import os
import random

from vf import core

THEOREMS = [
    "lifo_dcas_snapshot_valid", "lifo_dcas_compares_current", "lifo_exactly_once",
    "lifo_null_only_when_empty", "lifo_no_lost_no_dup",
    "mstack_flush_exact", "mstack_reverse_is_rev", "mstack_push_links_current", "mstack_no_lost_no_dup",
    "distfifo_dcas_snapshot_valid", "distfifo_exactly_once_fifo", "distfifo_pop_returns_taken_value",
    "distfifo_retry_empty_justified", "distfifo_no_lost_no_dup",
    "multisignal_dcas_snapshot_valid", "multisignal_raise_one_or_remember", "multisignal_wait_blocks_or_consumes",
    "multisignal_no_lost_no_dup",
]
PUSH, POP, DRAIN = 1, 2, 3
LFLUSH, FFLUSH, PUSHT = 2, 3, 4
WAIT, RAISE, STRICT = 1, 2, 3


L_REST = 3900     # search mode: byte b of the lifo / stack / dist_fifo / multi_signal object = 3900 + b (bytes registered otherwise keep their locs)


def parse_case(case):
    v = [int(x) for x in case.split()]
    np_ = v[0]
    params = v[1:1 + np_]
    nt = v[1 + np_]
    i = 2 + np_
    progs = []
    for _ in range(nt):
        n = v[i]
        i += 1
        progs.append([(v[i + 2 * j], v[i + 2 * j + 1]) for j in range(n)])
        i += 2 * n
    return params, progs


def walk(head, nxt, limit=10000):
    out = []
    while head and len(out) < limit:
        out.append(head)
        head = nxt.get(head, 0)
    return out


# --------------------------------------------------------------------------
# monitors: oracles of the property on an implementation trace (None = fine)
# --------------------------------------------------------------------------
def mon_lifo(case, tr, raw):
    """every popped node was pushed and not already taken, in LIFO order of the
    successful DCAS; NULL only from an empty stack; at the end of a completed
    run pushed = taken + remaining (what is linked from the head); every node
    is in exactly one place."""
    if tr is None:
        return "implementation produced no trace: %s" % (raw or "")[:80]
    # search mode (RT_CATCHALL=1): accesses to bytes of the object(s) that have no location of their own are
    # scheduling points, not events of the protocol judged here
    tr = [e for e in tr if e[1] < L_REST or e[2] in (909, 919)]
    params, progs = parse_case(case)
    k, nt = params[0], len(progs)
    own = [set(range(t * k + 1, t * k + k + 1)) for t in range(nt)]
    stack, nxt, head = [], {}, 0
    opidx = [0] * nt
    last_head = [None] * nt
    pend = [None] * nt
    complete = True
    for (t, loc, kind, val) in tr:
        if kind == 919:
            complete = False
            continue
        if opidx[t] >= len(progs[t]):
            return "thread %d produced events after its last call" % t
        op = progs[t][opidx[t]]
        if kind == 22 and loc == 1:
            last_head[t] = (val, not stack)
        elif kind // 10 == 1 and loc >= 100 and (loc - 101) % 2 == 0:
            nxt[(loc - 101) // 2 + 1] = val
        elif kind // 10 == 11 and loc == 1:
            if op[0] == PUSH:
                if val in stack:
                    return "node %d pushed while already in the stack" % val
                if val not in own[t]:
                    return "thread %d pushed node %d it does not own" % (t, val)
                if nxt.get(val, 0) != head:
                    return "push published node %d with next=%d while head=%d" % (val, nxt.get(val, 0), head)
                stack.insert(0, val)
                own[t].discard(val)
            else:
                if not stack:
                    return "pop DCAS succeeded on an empty stack"
                top = stack.pop(0)
                exp = stack[0] if stack else 0
                if val != exp:
                    return ("pop of node %d installed head %d but the node below the top is %d "
                            "(stale snapshot accepted: ABA)" % (top, val, exp))
                pend[t] = top
            head = val
        elif kind == 909:
            if op[0] == PUSH:
                opidx[t] += 1
            elif val == 0:
                r = last_head[t]
                if r is None or r[0] != 0:
                    return "pop returned NULL without having read a NULL head"
                if not r[1]:
                    return "pop returned NULL but the stack was not empty at its head load"
                opidx[t] += 1
            else:
                if pend[t] is None:
                    return "pop returned node %d without a successful DCAS" % val
                if pend[t] != val:
                    return "pop returned node %d but the top of the stack was %d" % (val, pend[t])
                for u in range(nt):
                    if val in own[u]:
                        return "pop returned node %d which thread %d owns (taken twice)" % (val, u)
                own[t].add(val)
                pend[t] = None
                if op[0] != DRAIN:
                    opidx[t] += 1
    if complete:
        rem = walk(head, nxt)
        if rem != stack:
            return "at the end pushed-minus-taken is %s but the head links %s (lost or duplicated node)" % (stack, rem)
        alln = sorted(stack + [n for o in own for n in o])
        if alln != list(range(1, k * nt + 1)):
            return "nodes not in exactly one place at the end: %s" % alln
    return None


def mon_mstack(case, tr, raw):
    """every flushed node was pushed and not already taken; a flush returns
    the whole content at its exchange, most recent first (fifo flush: oldest
    first); at the end pushed = flushed + remaining."""
    if tr is None:
        return "implementation produced no trace: %s" % (raw or "")[:80]
    # search mode (RT_CATCHALL=1): accesses to bytes of the object(s) that have no location of their own are
    # scheduling points, not events of the protocol judged here
    tr = [e for e in tr if e[1] < L_REST or e[2] in (909, 919)]
    params, progs = parse_case(case)
    k, nt = params[0], len(progs)
    own = [set(range(t * k + 1, t * k + k + 1)) for t in range(nt)]
    stack, nxt, head = [], {}, 0
    opidx = [0] * nt
    fl = [None] * nt
    complete = True
    for (t, loc, kind, val) in tr:
        if kind == 919:
            complete = False
            continue
        if opidx[t] >= len(progs[t]):
            return "thread %d produced events after its last call" % t
        op = progs[t][opidx[t]]
        if kind // 10 == 1 and loc >= 100 and (loc - 100) % 2 == 0:
            nxt[(loc - 100) // 2 + 1] = val
        elif kind // 10 == 7 and loc == 0:
            if op[0] not in (PUSH, PUSHT):
                return "CAS on the head by a call that is not a push"
            if val in stack:
                return "node %d pushed while already in the stack" % val
            if val not in own[t]:
                return "thread %d pushed node %d it does not own" % (t, val)
            if nxt.get(val, 0) != head:
                return "push published node %d with next=%d while head=%d" % (val, nxt.get(val, 0), head)
            stack.insert(0, val)
            own[t].discard(val)
            head = val
        elif kind // 10 == 4 and loc == 0:
            if val != head:
                return "exchange returned %d but the head was %d" % (val, head)
            fl[t] = {"snap": list(stack), "got": []}
            stack, head = [], 0
        elif kind // 10 in (1, 3) and loc == 0:
            head = val          # a store to the head: not an atomic take; the end check decides
        elif kind == 909:
            if op[0] in (PUSH, PUSHT):
                opidx[t] += 1
                continue
            f = fl[t]
            if f is None:
                f = fl[t] = {"snap": None, "got": []}
            if val != 0:
                for u in range(nt):
                    if val in own[u]:
                        return "flush returned node %d which thread %d owns" % (val, u)
                if f["snap"] is None:
                    if val not in stack:
                        return "flush returned node %d that is not in the stack (never pushed or already taken)" % val
                    stack.remove(val)
                elif val not in f["snap"] or val in f["got"]:
                    return "flush returned node %d: not part of what it took, or returned twice" % val
                f["got"].append(val)
                own[t].add(val)
            else:
                if f["snap"] is not None:
                    exp = f["snap"][::-1] if op[0] == FFLUSH else f["snap"]
                    if f["got"] != exp:
                        return "flush returned %s but the content at its exchange was %s" % (f["got"], exp)
                fl[t] = None
                opidx[t] += 1
    if complete:
        rem = walk(head, nxt)
        if rem != stack:
            return "at the end pushed-minus-flushed is %s but the head links %s (lost or duplicated node)" % (stack, rem)
        alln = sorted(stack + [n for o in own for n in o])
        if alln != list(range(1, k * nt + 1)):
            return "nodes not in exactly one place at the end: %s" % alln
    return None


def mon_distfifo(case, tr, raw):
    """pops return the pushed values in push order, each once; the returned node
    is the previous dummy; RETRY/EMPTY only when justified; at the end
    pushed = popped + remaining (what is linked behind the dummy)."""
    if tr is None:
        return "implementation produced no trace: %s" % (raw or "")[:80]
    # search mode (RT_CATCHALL=1): accesses to bytes of the object(s) that have no location of their own are
    # scheduling points, not events of the protocol judged here
    tr = [e for e in tr if e[1] < L_REST or e[2] in (909, 919)]
    params, progs = parse_case(case)
    p, nt = params[0], len(progs)
    pool = set(range(2, p + 2))
    queue, data, nxt = [], {}, {}
    hnode, ndcas = 1, 0
    opidx = [0] * nt
    cnt_at = [0] * nt
    empty_at = [None] * nt
    pend = [None] * nt
    stage = [0] * nt
    npush = npop = 0
    complete = True
    for (t, loc, kind, val) in tr:
        if kind == 919:
            complete = False
            continue
        if opidx[t] >= len(progs[t]):
            return "thread %d produced events after its last call" % t
        op = progs[t][opidx[t]]
        if kind // 10 == 1 and loc >= 100:
            nid = (loc - 100) // 2 + 1
            if (loc - 100) % 2 == 0:
                data[nid] = val
                if op[0] == PUSH:
                    if nid not in pool:
                        return "push uses node %d which is not free" % nid
                    pool.discard(nid)
            else:
                nxt[nid] = val
                if val != 0:
                    if t != 0 or op[0] != PUSH:
                        return "a node was linked by something that is not a push of thread 0"
                    if val == hnode or val in [n for (n, _) in queue]:
                        return "node %d linked while already in the queue" % val
                    last = queue[-1][0] if queue else hnode
                    if nid != last:
                        return "push linked node %d behind %d but the last node is %d" % (val, nid, last)
                    queue.append((val, data.get(val)))
                    npush += 1
        elif kind == 9 and loc == 0:
            cnt_at[t] = ndcas
        elif kind == 9 and loc >= 100 and (loc - 100) % 2 == 1 and op[0] != PUSH and val == 0:
            empty_at[t] = not queue
        elif kind // 10 == 11 and loc == 1:
            if not queue:
                return "pop DCAS succeeded on an empty queue"
            node, value = queue.pop(0)
            if val != node:
                return ("pop installed head.node=%d but the first queued node is %d "
                        "(stale snapshot accepted: ABA)" % (val, node))
            pend[t] = (hnode, value)
            hnode = val
            ndcas += 1
            npop += 1
        elif kind == 909:
            if op[0] == PUSH:
                opidx[t] += 1
            elif stage[t] == 1:
                if val != pend[t][1]:
                    return "pop returned value %d, FIFO order requires %s" % (val, pend[t][1])
                pool.add(pend[t][0])
                pend[t] = None
                stage[t] = 0
                if op[0] != DRAIN:
                    opidx[t] += 1
            elif val == 0:
                if not (empty_at[t] or ndcas > cnt_at[t]):
                    return "EMPTY although the queue was not empty and no pop intervened"
                empty_at[t] = None
                opidx[t] += 1
            elif val == -1:
                if not ndcas > cnt_at[t]:
                    return "RETRY although no pop intervened"
                if op[0] != DRAIN:
                    opidx[t] += 1
            else:
                if pend[t] is None:
                    return "pop returned node %d without a successful DCAS" % val
                if val != pend[t][0]:
                    return "pop returned node %d but the dummy it replaced was %d" % (val, pend[t][0])
                if val == hnode or val in [n for (n, _) in queue] or val in pool:
                    return "pop returned node %d which is still in use (taken twice)" % val
                stage[t] = 1
    if complete:
        rem = walk(hnode, nxt)[1:]
        if rem != [n for (n, _) in queue] or [data.get(n) for n in rem] != [v for (_, v) in queue]:
            return ("at the end pushed-minus-popped is %s but the head links %s with values %s"
                    % (queue, rem, [data.get(n) for n in rem]))
        alln = sorted([hnode] + rem + list(pool))
        if alln != list(range(1, p + 2)):
            return "nodes not in exactly one place at the end: %s" % alln
    return None


def mon_msignal(case, tr, raw):
    """a raise releases exactly one waiter (the most recent one) or leaves the
    signal raised; a wait consumes a raised signal or sleeps until released;
    never two waiters per raise, never a raise dropped while a fiber waits;
    a listed fiber does not run; a fiber resumes only after a raise scheduled
    it, once; nobody sleeps forever unlisted (lost wake-up)."""
    if tr is None:
        return "implementation produced no trace: %s" % (raw or "")[:80]
    # search mode (RT_CATCHALL=1): accesses to bytes of the object(s) that have no location of their own are
    # scheduling points, not events of the protocol judged here
    tr = [e for e in tr if e[1] < L_REST or e[2] in (909, 919)]
    params, progs = parse_case(case)
    nt = len(progs)
    RAISED = -1
    waiters, raised = [], False
    nxt = {}
    opidx = [0] * nt
    released = [0] * nt      # scheduled by a raise, not yet resumed
    asleep = [False] * nt
    pend = [None] * nt
    last_head = [None] * nt
    stuck = {}
    for (t, loc, kind, val) in tr:
        if kind // 10 == 2 and loc == 1:
            last_head[t] = (val, raised)
        if kind == 919 and loc == 0:
            if val in (7, 8):
                stuck[t] = val
                continue
            if not asleep[t]:
                return "fiber %d resumed without sleeping" % (t + 1)
            if released[t] < 1:
                return "fiber %d resumed without having been scheduled by a raise" % (t + 1)
            released[t] -= 1
            asleep[t] = False
            continue
        if opidx[t] >= len(progs[t]):
            return "thread %d produced events after its last call" % t
        op = progs[t][opidx[t]]
        if asleep[t] and not (kind == 19 and loc == 200 + t and val == -1):
            return "fiber %d ran while it was in the waiter list / asleep" % (t + 1)
        if kind == 919 and loc == 11:
            if pend[t] != "queued":
                return "fiber %d goes to sleep without being in the waiter list" % (t + 1)
            asleep[t] = True
        elif kind == 919 and loc == 12:
            if not (isinstance(pend[t], tuple) and pend[t][1] == val):
                return "raise scheduled fiber %d which it did not release" % val
            if not asleep[val - 1]:
                return "raise scheduled fiber %d which is not asleep" % val
            released[val - 1] += 1
            if released[val - 1] > 1:
                return "fiber %d scheduled twice" % val
        elif kind // 10 == 1 and 100 <= loc < 200 and (loc - 101) % 2 == 0:
            nxt[(loc - 101) // 2 + 1] = val
        elif kind // 10 == 11 and loc == 1:
            if op[0] == WAIT:
                if raised:
                    if val != 0:
                        return "wait consumed a raised signal but installed head %d" % val
                    raised = False
                    pend[t] = "consumed"
                else:
                    if val != t + 1:
                        return "wait of fiber %d installed head %d" % (t + 1, val)
                    if (t + 1) in waiters:
                        return "fiber %d is in the waiter list twice" % (t + 1)
                    exp = waiters[0] if waiters else 0
                    if nxt.get(t + 1, 0) != exp:
                        return ("wait published node %d with next=%d while the first waiter is %d"
                                % (t + 1, nxt.get(t + 1, 0), exp))
                    waiters.insert(0, t + 1)
                    pend[t] = "queued"
            else:
                if waiters:
                    w = waiters.pop(0)
                    exp = waiters[0] if waiters else 0
                    if val != exp:
                        return ("raise released fiber %d and installed head %d but the next waiter is %d "
                                "(stale snapshot accepted: ABA, or a raise dropped)" % (w, val, exp))
                    pend[t] = ("woke", w)
                else:
                    if op[0] == STRICT:
                        return "raise_strict changed the signal although nobody waits"
                    if val != RAISED:
                        return "raise with no waiter installed head %d instead of RAISED" % val
                    raised = True
                    pend[t] = "raised"
        elif kind == 909:
            if op[0] == WAIT:
                if pend[t] not in ("consumed", "queued"):
                    return "wait returned without consuming a raise or queueing"
            elif op[0] == RAISE:
                woke = isinstance(pend[t], tuple)
                if pend[t] is None and not (last_head[t] == (RAISED, True) and val == 0):
                    return "raise returned without a successful DCAS and without having seen the signal raised"
                if val != (1 if woke else 0):
                    return "raise returned %d but %s" % (val, "released a waiter" if woke else "released nobody")
            else:
                if not isinstance(pend[t], tuple):
                    return "raise_strict returned without releasing a waiter"
            pend[t] = None
            opidx[t] += 1
    if 8 not in stuck.values():
        for t, v in stuck.items():
            if v == 7 and (t + 1) not in waiters:
                return "fiber %d sleeps forever but is not in the waiter list (lost wake-up)" % (t + 1)
        for w in waiters:
            if stuck.get(w - 1) != 7:
                return "fiber %d is in the waiter list but not asleep at the end" % w
    return None


# --------------------------------------------------------------------------
# case generators
# --------------------------------------------------------------------------
def seqs(alphabet, maxlen):
    for n in range(1, maxlen + 1):
        for s in itertools.product(alphabet, repeat=n):
            yield list(s)


def gen_lifo(ctx, tier):
    rng = random.Random(ctx.seed * 7919 + 201)
    cases = []
    # (1) exhaustive: prefill 0..2, every pair of calls, every interleaving
    for pre in (0, 1, 2):
        for a in (PUSH, POP):
            for b in (PUSH, POP):
                p0 = [(PUSH, 0)] * pre + [(a, 0)]
                for il in core.interleavings([4, 4]):
                    cases.append(core.fmt_case([3, 0, 300], [p0, [(b, 0)]], [0] * (4 * pre) + il))
    n_ex = len(cases)
    # (2) stale snapshot + recycling (ABA): thread 0 builds [1..m] (node 1 on top), starts a call
    # and stalls after j accesses; thread 1 runs every short pop/push program (push 0 = the node
    # it popped last, push 1 = the one before); thread 0 continues; thread 2 drains at the end
    n_aba = 0
    for m in (2, 3):
        for a in (POP, PUSH):
            for j in (1, 2, 3):
                for prog1 in seqs([(POP, 0), (PUSH, 0), (PUSH, 1)], 4 if tier == "thorough" else 3):
                    p0 = [(PUSH, m - 1 - i) for i in range(m)] + [(a, 0)]
                    sched = [0] * (4 * m + j) + [1] * (4 * len(prog1) + 2) + [0] * 6
                    cases.append(core.fmt_case([4, rng.choice([0, 0, -2]), 300], [p0, prog1, [(DRAIN, 0)]], sched))
                    n_aba += 1
    # (3) random programs x schedules, recycle-heavy
    nrand = 2500 if tier == "quick" else 50000
    for _ in range(nrand):
        nt = rng.choice([2, 2, 3, 3, 4])
        progs = []
        for t in range(nt):
            n = rng.randint(1, 7)
            progs.append([(rng.choice([PUSH, PUSH, POP, POP, POP, DRAIN]), rng.choice([0, 0, 0, 1, 2, 5]))
                          for _ in range(n)])
        if rng.random() < 0.5:
            progs.append([(DRAIN, 0)])
            nt += 1
        length = rng.randint(5, 4 * sum(len(p) for p in progs) + 5)
        cases.append(core.fmt_case([rng.choice([1, 2, 2, 3]), rng.choice([0, 0, -2, 1000, (1 << 32) - 2, (1 << 31) - 1, (1 << 16) - 2]), 500], progs,
                                   core.random_sched(rng, nt, length, rng.randrange(3))))
    # (4) sequential programs, (5) boundaries: no nodes at all, counter about to wrap, drain only
    for _ in range(150):
        progs = [[(rng.choice([PUSH, POP, DRAIN]), rng.randint(0, 5)) for _ in range(rng.randint(1, 12))]]
        cases.append(core.fmt_case([rng.choice([0, 1, 3]), rng.choice([0, -1, -2]), 400], progs, []))
    cases.append(core.fmt_case([0, 0, 100], [[(PUSH, 0), (POP, 0)], [(PUSH, 3), (DRAIN, 0)]], [0, 1, 0, 1]))
    ctx.coverage["lifo_case_distribution"] = {"exhaustive_2thread_interleavings": n_ex, "aba_recycle_schedules": n_aba,
                                              "random_programs": nrand, "sequential": 150, "total": len(cases)}
    return cases


def gen_mstack(ctx, tier):
    rng = random.Random(ctx.seed * 7919 + 202)
    cases = []
    steps = {PUSH: lambda n: 3, LFLUSH: lambda n: 1 + n, FFLUSH: lambda n: 1 + 3 * n}
    for pre in (0, 1, 2):
        for a in (PUSH, LFLUSH, FFLUSH):
            for b in (PUSH, LFLUSH, FFLUSH):
                p0 = [(PUSH, 0)] * pre + [(a, 0)]
                cnt = [steps[a](pre + 1), steps[b](pre + 1)]
                ils = core.interleavings(cnt, limit=400)
                for il in ils:
                    cases.append(core.fmt_case([3, 300], [p0, [(b, 0)]], [0] * (3 * pre) + il))
    n_ex = len(cases)
    # stale push (head value recurs) and flush/recycle races
    n_rec = 0
    for j in (1, 2):
        for prog1 in seqs([(PUSH, 0), (LFLUSH, 0), (FFLUSH, 0), (PUSHT, 0)], 3):
            for a in ((PUSH, 0), (PUSHT, 0), (PUSHT, 8)):
                sched = [0] * (3 + j) + [1] * (6 * len(prog1) + 2) + [0] * 6
                cases.append(core.fmt_case([2, 300], [[(PUSH, 0), a], prog1, [(FFLUSH, 0)]], sched))
                n_rec += 1
    nrand = 2500 if tier == "quick" else 50000
    for _ in range(nrand):
        nt = rng.choice([2, 2, 3, 3, 4])
        progs = []
        for t in range(nt):
            n = rng.randint(1, 7)
            progs.append([(rng.choice([PUSH, PUSH, PUSH, PUSHT, LFLUSH, FFLUSH]), rng.randint(0, 23)) for _ in range(n)])
        if rng.random() < 0.5:
            progs.append([(rng.choice([LFLUSH, FFLUSH]), 0)])
            nt += 1
        length = rng.randint(5, 4 * sum(len(p) for p in progs) + 5)
        cases.append(core.fmt_case([rng.choice([1, 2, 2, 3]), 500], progs,
                                   core.random_sched(rng, nt, length, rng.randrange(3))))
    for _ in range(150):
        progs = [[(rng.choice([PUSH, PUSH, PUSHT, LFLUSH, FFLUSH]), rng.randint(0, 23)) for _ in range(rng.randint(1, 12))]]
        cases.append(core.fmt_case([rng.choice([0, 1, 3]), 400], progs, []))
    ctx.coverage["mstack_case_distribution"] = {"exhaustive_2thread_interleavings": n_ex, "recycle_schedules": n_rec,
                                                "random_programs": nrand, "sequential": 150, "total": len(cases)}
    return cases


def gen_distfifo(ctx, tier):
    rng = random.Random(ctx.seed * 7919 + 203)
    cases = []
    val = [0]

    def push():
        val[0] += 1
        return (PUSH, 8 * val[0])          # value val+1, pool index 0

    for pre in (0, 1, 2):
        for a in (PUSH, POP):
            p0 = [push() for _ in range(pre)] + [push() if a == PUSH else (POP, 0)]
            cnt = [5 if a == PUSH else 7, 7]
            ils = core.interleavings(cnt, limit=None)
            if len(ils) > 800:
                ils = rng.sample(ils, 800 if tier == "quick" else 3000)
            for il in ils:
                cases.append(core.fmt_case([4, 0, 300], [p0, [(POP, 0)]], [0] * (5 * pre) + il))
    n_ex = len(cases)
    # stale snapshot + recycling: thread 1 starts a pop and stalls after j accesses; the pusher
    # pops / re-pushes (the node it popped comes back first from the pool); thread 1 continues
    n_aba = 0
    for pre in (1, 2, 3):
        for j in (1, 2, 3, 4):
            for prog in seqs([POP, PUSH], 4 if tier == "thorough" else 3):
                p0 = [push() for _ in range(pre)] + [push() if o == PUSH else (POP, 0) for o in prog]
                sched = [0] * (5 * pre) + [1] * j + [0] * (7 * len(prog) + 2) + [1] * 8
                cases.append(core.fmt_case([2, rng.choice([0, 0, -2]), 300], [p0, [(POP, 0)], [(DRAIN, 0)]], sched))
                n_aba += 1
    nrand = 2500 if tier == "quick" else 50000
    for _ in range(nrand):
        nt = rng.choice([2, 2, 3, 3, 4])
        progs = [[(rng.choice([PUSH, PUSH, PUSH, POP, DRAIN]), rng.randint(0, 63)) for _ in range(rng.randint(1, 7))]]
        for t in range(1, nt):
            progs.append([(rng.choice([POP, POP, POP, DRAIN, PUSH]), 0) for _ in range(rng.randint(1, 6))])
        length = rng.randint(5, 5 * sum(len(p) for p in progs) + 5)
        cases.append(core.fmt_case([rng.choice([0, 1, 2, 4]), rng.choice([0, 0, -2, 1000, (1 << 32) - 2, (1 << 31) - 1, (1 << 16) - 2]), 600], progs,
                                   core.random_sched(rng, nt, length, rng.randrange(3))))
    for _ in range(150):
        progs = [[(rng.choice([PUSH, POP, DRAIN]), rng.randint(0, 63)) for _ in range(rng.randint(1, 12))]]
        cases.append(core.fmt_case([rng.choice([0, 1, 3]), rng.choice([0, -1]), 400], progs, []))
    ctx.coverage["distfifo_case_distribution"] = {"exhaustive_2thread_interleavings": n_ex, "aba_recycle_schedules": n_aba,
                                                  "random_programs": nrand, "sequential": 150, "total": len(cases)}
    return cases


def gen_msignal(ctx, tier):
    rng = random.Random(ctx.seed * 7919 + 204)
    cases = []
    for a in (WAIT, RAISE, STRICT):
        for b in (WAIT, RAISE):
            for pre in ([], [(RAISE, 0)]):
                ils = core.interleavings([7, 6])
                for il in rng.sample(ils, 150 if tier == "quick" else 1000):
                    cases.append(core.fmt_case([0, 300], [pre + [(a, 0)], [(b, 0)], [(RAISE, 0), (RAISE, 0)]],
                                               [0] * (3 * len(pre)) + il))
    n_ex = len(cases)
    # the schedule of Properties_C20.G.ex_aba_stale_snapshot
    cases.append(core.fmt_case([0, 300], [[(RAISE, 0)], [(WAIT, 0)], [(WAIT, 0), (WAIT, 0)], [(RAISE, 0), (RAISE, 0)]],
                               [1] * 7 + [2] * 7 + [0] * 3 + [3] * 12 + [2] * 8 + [0] * 4))
    # stale snapshot + re-wait: raiser 0 reads the cell and stalls after j accesses while waiters
    # are released by raiser 3 and wait again
    n_aba = 0
    for rop in (RAISE, STRICT):
        for j in ((1, 2, 3) if rop == RAISE else (1, 2, 3, 4, 5)):
            for w in (1, 2):
                for extra in seqs([1, 2, 3], 5 if tier == "thorough" else 4):
                    progs = [[(rop, 0)], [(WAIT, 0)] * 3, [(WAIT, 0)] * 3, [(RAISE, 0)] * 4]
                    sched = [1] * 8 + ([2] * 8 if w == 2 else []) + [0] * j
                    for e in extra:
                        sched += [e] * 9
                    sched += [0] * 12
                    cases.append(core.fmt_case([rng.choice([0, 0, -2]), 400], progs, sched))
                    n_aba += 1
    nrand = 2500 if tier == "quick" else 50000
    for _ in range(nrand):
        nt = rng.choice([2, 3, 3, 4, 5])
        progs = []
        for t in range(nt):
            progs.append([(rng.choice([WAIT, WAIT, RAISE, RAISE, STRICT]), 0) for _ in range(rng.randint(1, 6))])
        length = rng.randint(5, 6 * sum(len(p) for p in progs) + 5)
        cases.append(core.fmt_case([rng.choice([0, 0, -2, 1000, (1 << 32) - 2, (1 << 31) - 1, (1 << 16) - 2]), 400], progs,
                                   core.random_sched(rng, nt, length, rng.randrange(3))))
    for _ in range(100):
        progs = [[(rng.choice([RAISE, RAISE, WAIT]), 0) for _ in range(rng.randint(1, 8))]]
        cases.append(core.fmt_case([0, 300], progs, []))
    ctx.coverage["msignal_case_distribution"] = {"exhaustive_interleavings": n_ex, "aba_rewait_schedules": n_aba,
                                                 "random_programs": nrand, "sequential": 100, "total": len(cases)}
    return cases


HARNESSES = [
    ("lifo", "h_lifo", gen_lifo, mon_lifo),
    ("mstack", "h_mstack", gen_mstack, mon_mstack),
    ("distfifo", "h_distfifo", gen_distfifo, mon_distfifo),
    ("multisignal", "h_msignal", gen_msignal, mon_msignal),
]


def build(ctx, hname):
    return core.build_harness(ctx, hname, hname + ".c")


def run(ctx):
    ctx.trusted = TRUSTED
    core.coq_property(ctx, "Properties_C20.v", THEOREMS)
    exes = {}
    ok = True
    tot = {"cases": 0, "differ": 0, "nontrivial": 0}
    for (model, hname, gen, mon) in HARNESSES:
        exe = build(ctx, hname)
        exes[model] = exe
        if not exe:
            ok = False
            continue
        cases = corpus(model) + gen(ctx, ctx.tier)
        ok = core.correspond(ctx, model, model, exe, cases, mon) and ok
        st = ctx.stats[model]
        for k in tot:
            tot[k] += st[k]
    ctx.coverage.update({"traces_validated_against_impl": tot["cases"] - tot["differ"],
                         "evaluations": tot["cases"], "distinct_nontrivial": tot["nontrivial"],
                         "rule": "case = (nodes/pool/counter start, programs per thread, schedule); non-trivial = at "
                                 "least one failed DCAS/CAS or a NULL/EMPTY/RETRY answer in the implementation trace"})
    if not ok or ctx.failures:
        search(ctx, exes)
    core.init_contract(ctx, ["mpmc_lifo", "mpmc_stack", "dist_fifo", "fiber_multi_signal"])  # rt/h_init.c: real init on dirty memory
    runtime_layer(ctx)
    core.finish(ctx, extra_assumptions=ASSUME)


def search(ctx, exes):
    """something stopped checking: look for a concrete property failure on the
    implementation with more schedules (monitor only)."""
    if ctx.violations:
        return
    rng_ctx = core.Ctx(ctx.pid, "thorough", ctx.seed + 1000)
    try:
        for (model, hname, gen, mon) in HARNESSES:
            exe = exes.get(model)
            if not exe:
                continue
            cases = gen(rng_ctx, "thorough")[:20000]
            # RT_CATCHALL: every byte of the object is a scheduling point (fields the model does not know included)
            scases, impl = core.run_search(ctx, exe, cases)   # plain schedules first, then with every byte of the object a scheduling point
            for c, line in zip(scases, impl):
                why = core.safe_monitor(mon, c, core.parse_trace(line) if line else None, line)
                if why:
                    core.report_violation(ctx, model + "+catchall", c, why, line)
                    if len(ctx.violations) >= 3:
                        return
    finally:
        rng_ctx.cleanup()


def corpus(model):
    p = os.path.join(core.VERIF, "corpus", "C20_%s.txt" % model)
    try:
        return [l.strip() for l in open(p) if l.strip() and not l.startswith("#")]
    except OSError:
        return []


def runtime_layer(ctx):
    """the multi-waiter signal with REAL fibers (the lock-step model MultiSignal.v covers its double-word-CAS protocol on
    plain threads; putting the waiter to sleep, publishing READY_TO_WAKE after its switch, waking it and giving its queue
    node back is runtime code): whole-runtime programs of fiber_multi_signal_wait / _raise (T2 machine of C01); a wait
    must not return without a raise, every waiter is resumed once, from a saved context."""
    import random as _r
    from vf.props import C01
    exe = C01.build(ctx)
    if not exe:
        return
    rng = _r.Random(ctx.seed * 7919 + 2020)
    n = 200 if ctx.tier == "quick" else 4000
    cases = []
    for _ in range(n):
        nk = rng.choice([1, 2, 2, 3, 4])
        progs = [[(rng.choice([19, 19, 19, 20, 20, 1, 3]), rng.randint(0, 1)) for _ in range(rng.randint(1, 5))]
                 for _f in range(rng.randint(1, 5))]
        cases.append(core.fmt_case([60000, nk], progs,
                                   core.random_sched(rng, nk, rng.randint(30, 2000), rng.choice([0, 1, 2, 3]))))
    impl = core.run_sharded([exe], cases, timeout=900)
    bad = 0
    for c, line in zip(cases, impl):
        why = core.safe_monitor(C01.monitor, c, core.parse_trace(line) if line is not None else None, line)
        if why:
            bad += 1
            if bad <= 3:
                core.report_violation(ctx, "kernel", c, "multi-waiter signal on the whole runtime: " + why, line)
    ctx.coverage["multisignal_runtime_layer_t2"] = {"runs": len(cases), "violations": bad}
    ctx.oblige("multisignal-t2(%d runs)" % len(cases), bad == 0, "%d runs judged a violation" % bad)


def replay(ctx, payload):
    if payload.get("harness") == "kernel":
        from vf.props import C01
        return C01.replay(ctx, payload)
    if payload.get("harness") == "h_init":
        return core.replay_init(ctx, payload)
    c = payload.get("case")
    label = str(payload.get("harness", ""))
    catchall = label.endswith("+catchall")
    label = label[:-len("+catchall")] if catchall else label
    ent = [h for h in HARNESSES if h[0] == label]
    if not c or not ent:
        print("nothing to replay (no concrete case in this file)")
        return 2
    (model, hname, gen, mon) = ent[0]
    exe = build(ctx, hname)
    if not exe:
        print("harness does not build")
        return 2
    if catchall:
        impl = core.run_sharded(["env", "RT_CATCHALL=1", exe], [c])[0]
        why = core.safe_monitor(mon, c, core.parse_trace(impl) if impl is not None else None, impl)
        print("harness: %s\ncase:  %s\nimpl (every byte of the object a scheduling point):  %s\nmonitor: %s" % (label, c, impl, why or "ok"))
        return 1 if why else 0
    impl = core.run_sharded([exe], [c])[0]
    mod = core.model_run(model, [c])[0]
    why = mon(c, core.parse_trace(impl), impl)
    print("harness: %s\ncase:  %s\nimpl:  %s\nmodel: %s\nmonitor: %s\nlock-step: %s" %
          (label, c, impl, mod, why or "ok", "identical" if impl == mod else "DIFFER"))
    return 1 if (why or impl != mod) else 0


TRUSTED = [
    "Coq 8.16.1 kernel + vm_compute (no native_compute)",
    "Print Assumptions of each theorem (recorded under print_assumptions)",
    "extraction: Require Extraction + ExtrOcamlBasic only; no Extract Constant",
    "OCaml driver coq/extract/driver.ml (int <-> Z conversion, line I/O)",
    "rt/rt.c: gcc -fsanitize=thread access hooks as the source of access events, baton scheduler, "
    "the guarded verif_dcas_before/after hook around lock cmpxchg16b in machine_specific.h",
    "models written by hand (coq/Lifo.v, MStack.v, DistFifo.v, MultiSignal.v); tie = identical per-access traces",
    "SC interleaving of accesses; weak CAS modelled as strong (x86 cmpxchg); -O0 instrumented build",
    "harness stubs of fiber_manager_get/yield/schedule for the multi-signal (thread-with-sleep abstraction)",
    "the inline-asm operand binding of compare_and_swap2 (rdx:rax / rcx:rbx, setz) is exercised, not proved",
]
ASSUME = ["fewer than 2^64 successful updates between a thread's counter load and its DCAS (unbounded Z in the models)",
          "node ownership: a thread pushes only nodes it owns; dist_fifo has a single pusher (thread 0)",
          "reading a node that was already popped is memory-safe (nodes are never freed in the harnesses)"]
