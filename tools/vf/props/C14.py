"""C14 hazard pointers: Coq theorems (Properties_C14.v) + lock-step correspondence of
include/hazard_pointer.h + src/hazard_pointer.c with coq/Hazard.v + monitors.

Harness rt/h_hazard.c (the .c file is #included there, so the static
binary_search is exercised directly in the differential mode K = 0)."""
import itertools
import os
import random

from vf import core

THEOREMS = ["hp_safe", "hp_validated", "hp_gc_is_gc_list", "hp_use_live", "hp_binary_search_correct",
            "hp_scan_partition", "hp_reclaim_once", "hp_bounded_garbage", "hp_threshold_ok",
            "hp_threshold_exact_refuted", "hp_plist_in_bounds", "hp_comparator_obligation",
            "hp_truncating_compare_refuted"]
JOIN, PROTECT, CLEAR, SWAP, USE, SCAN = 1, 2, 3, 4, 5, 6
NODE = 1000


L_REST = 20000     # search mode: byte b of the record of thread t = 20000 + 256 t + b (bytes registered otherwise keep their locs)


def parse_case(case):
    v = [int(x) for x in case.split()]
    np_ = v[0]
    params = v[1:1 + np_]
    nthreads = v[1 + np_]
    progs, i = [], 2 + np_
    for _ in range(nthreads):
        n = v[i]; i += 1
        progs.append([(v[i + 2 * j], v[i + 2 * j + 1]) for j in range(n)])
        i += 2 * n
    return params, progs


def monitor_cmp(params, tr):
    a = (params[1] << 32) | params[2]
    b = (params[3] << 32) | params[4]
    want = (a > b) - (a < b)
    if len(tr) != 1 or tr[0][2] != 909:
        return "comparator mode produced no result"
    got = tr[0][3]
    if got != want:
        return ("hazard_pointer_compare(0x%x, 0x%x) has sign %d, the unsigned order of the addresses is %d"
                % (a, b, got, want))
    return None


def cmp_pairs(rng, nrandom):
    """boundary + seeded random address pairs for the comparator"""
    bases = [0, 1, 0x1000, 0x7fffffff, 0x80000000, 0xffffffff, 0x100000000, 0x7f0012345678,
             0x00007fffffffffff, 0x7fffffffffffffff, 0x8000000000000000, 0xffff800000000000,
             0xffffffffffffffff - (1 << 34)]
    deltas = [0, 1, 8, 4096, (1 << 31) - 1, 1 << 31, (1 << 31) + 1, (1 << 32) - 1, 1 << 32, (1 << 32) + 5,
              1 << 33, 5 << 30, (1 << 34) + 3, 1 << 47, 1 << 62, 1 << 63]
    pairs = []
    for x in bases:
        for d in deltas:
            y = x + d
            if y < (1 << 64):
                pairs += [(x, y), (y, x)]
    pairs += [(0x7fffffffffffffff, 0), (0, 0x7fffffffffffffff), (0x8000000000000000, 1), (1, 0x8000000000000000),
              (0xffffffffffffffff, 0), (0, 0xffffffffffffffff), (0xffffffffffffffff, 0xffffffffffffffff)]
    for _ in range(nrandom):
        x = rng.getrandbits(rng.choice([20, 33, 47, 64]))
        y = (x + rng.choice([1, -1]) * rng.getrandbits(rng.choice([4, 31, 32, 33, 40, 63]))) % (1 << 64) \
            if rng.random() < 0.7 else rng.getrandbits(64)
        pairs.append((x, y))
    return pairs


def monitor_bs(params, tr):
    n = params[1]
    hay = params[2:2 + n]
    for (t, loc, kind, val) in tr:
        if kind == 9:
            if not (500 <= loc < 500 + n):
                return "binary_search probed index %d of a haystack of %d" % (loc - 500, n)
        elif kind == 909:
            needle = loc - 1
            if bool(val) != (needle in hay):
                return "binary_search(%s, %d) = %d" % (hay, needle, val)
    if sum(1 for e in tr if e[2] == 909) != 10:
        return "binary_search did not return for every needle"
    return None


def monitor(case, tr, raw):
    """property oracle on an implementation trace (None = fine)."""
    if tr is None:
        return "implementation produced no trace: %s" % (raw or "")[:80]
    # search mode (RT_CATCHALL=1): accesses to bytes of the object(s) that have no location of their own are
    # scheduling points, not events of the protocol judged here
    tr = [e for e in tr if e[1] < L_REST or e[2] in (909, 919)]
    params, progs = parse_case(case)
    if tr == [(-1,)] or (raw or "").strip() == "-1":
        return None
    K = params[0]
    if K == -1:
        return monitor_cmp(params, tr)
    if K == 0:
        return monitor_bs(params, tr)
    P, C = params[1], params[2]
    nthreads = len(progs)
    records = list(range(P, 0, -1))         # list order, head first
    validated = {}                          # slot loc -> node
    pending = {}                            # tid -> (slot loc, node) published in the current protect
    retired = {t: [] for t in range(nthreads)}
    free = set(range(NODE + C, NODE + params[3]))
    opidx = [0] * nthreads
    scan = {}                               # tid -> dict(head, read, snap, before, gc)
    must_scan = {}
    for (t, loc, kind, val) in tr:
        if kind == 919:
            return "thread %d never finished" % t
        if kind == 909:
            # skipped calls return -1 without any access
            while opidx[t] < len(progs[t]) and opidx[t] + 1 < loc:
                opidx[t] += 1
            op = progs[t][opidx[t]] if opidx[t] < len(progs[t]) else (0, 0)
            if t in must_scan:
                return "retire with retired_count %d >= retire_threshold %d did not scan" % must_scan[t]
            if t in scan:
                sc = scan.pop(t)
                if not sc["done"]:
                    return "scan returned before reaching the end of the record list"
                want = [n for n in sc["before"] if n not in sc["snap"]]
                if sorted(want) != sorted(sc["gc"]):
                    return ("scan partition: snapshot %s retired %s reclaimed %s (expected %s)"
                            % (sorted(sc["snap"]), sc["before"], sc["gc"], want))
                if len(retired[t]) > K * sc["nrec"]:
                    return "after a scan %d nodes stay retired > N*K = %d" % (len(retired[t]), K * sc["nrec"])
            if op[0] in (SWAP, SCAN) and val >= 0:
                if val != len(retired[t]):
                    return "retired_count %d but %d nodes are retired by thread %d" % (val, len(retired[t]), t)
                if val > 2 * K * max(1, len(records)):
                    return "retired_count %d exceeds 2*N*K = %d" % (val, 2 * K * len(records))
            pending.pop(t, None)
            opidx[t] += 1
            continue
        if kind == 929:                                     # gc callback
            if val != 0:
                pass
            n = loc
            holders = [l for (l, m) in validated.items() if m == n]
            if holders:
                return "node %d reclaimed while slot %d holds a validated protection of it" % (n, holders[0])
            if n not in retired[t]:
                return "node %d passed to the gc callback but not retired by thread %d (or reclaimed twice)" % (n, t)
            retired[t].remove(n)
            free.add(n)
            if t in scan:
                scan[t]["gc"].append(n)
            continue
        if kind == 939:
            free.discard(loc)
            continue
        cur_op = progs[t][opidx_of(progs, opidx, t)][0] if progs[t] else 0
        if loc == 0 and kind // 10 == 7:
            records.insert(0, val)
            continue
        if loc == 0 and kind // 10 == 2 and cur_op != JOIN:  # scan starts: head read
            must_scan.pop(t, None)
            lst = records[records.index(val):] if val in records else []
            scan[t] = {"head": val, "expect": set(100 * r + 10 + i for r in lst for i in range(K)),
                       "snap": set(), "before": list(retired[t]), "gc": [], "done": False,
                       "nrec": len(lst), "last": None}
            continue
        if loc >= 2000:
            if kind // 10 in (0, 2) and val != 1:
                return "validated node %d used after it was reclaimed (payload %d)" % (loc - 2000 + NODE, val)
            continue
        if 10 <= loc < 100:
            if kind // 10 == 2 and t in pending:
                sl, n = pending.pop(t)
                if val == n and n != 0:
                    validated[sl] = n
            elif kind // 10 == 4:                           # unlink by exchange: old value retired by t
                retired[t].append(val)
            continue
        if loc >= 100:
            r, off = divmod(loc, 100)
            if off >= 10:
                if kind // 10 in (1, 3):
                    validated.pop(loc, None)
                    if r == t + 1:
                        pending[t] = (loc, val)
                elif kind // 10 in (0, 2) and t in scan:
                    scan[t]["expect"].discard(loc)
                    if val:
                        scan[t]["snap"].add(val)
            elif off == 1:
                if kind // 10 in (2, 5) and val > 2 * K * max(1, len(records)):
                    return "retire_threshold %d of record %d exceeds 2*N*K = %d" % (val, r, 2 * K * len(records))
                if kind // 10 == 2 and r == t + 1 and t not in scan and cur_op == SWAP:
                    if len(retired[t]) >= val:
                        must_scan[t] = (len(retired[t]), val)
            elif off == 0 and kind // 10 in (0, 2) and t in scan and val == 0:
                sc = scan[t]
                sc["done"] = True
                if sc["expect"]:
                    return ("scan from head %d finished without reading hazard slots %s"
                            % (sc["head"], sorted(sc["expect"])))
    return None


def opidx_of(progs, opidx, t):
    return min(opidx[t], len(progs[t]) - 1)


def sorted_arrays(maxlen=6, nvals=8):
    for n in range(maxlen + 1):
        for c in itertools.combinations_with_replacement(range(1, nvals + 1), n):
            yield list(c)


def rand_prog(rng, K, C, n, joined):
    p = []
    for _ in range(n):
        x = rng.random()
        if not joined and x < 0.35:
            p.append((JOIN, 0)); joined = True
        elif x < 0.30:
            p.append((PROTECT, rng.randrange(K) * 8 + rng.randrange(C)))
        elif x < 0.40:
            p.append((CLEAR, rng.randrange(K)))
        elif x < 0.75:
            p.append((SWAP, rng.randrange(C)))
        elif x < 0.88:
            p.append((USE, rng.randrange(K)))
        elif x < 0.97:
            p.append((SCAN, 0))
        else:
            p.append((rng.choice([JOIN, PROTECT, CLEAR, SWAP, USE, 7]), rng.choice([-1, 5, 40, 63])))
    return p


def far_directed():
    """every slot of one or two records protects a node of a different far-apart region while another
    thread unlinks, retires and scans them"""
    out = []
    for Kf in (4, 3, 2):
        for order in ([0, 1, 2, 3], [3, 1, 0, 2], [2, 3, 1, 0]):
            cs = order[:Kf] if Kf < 4 else order
            prot = [(PROTECT, s * 8 + cs[s]) for s in range(len(cs))]
            p0 = prot + [(USE, s) for s in range(len(cs))]
            p1 = [(SWAP, j) for j in cs] + [(SCAN, 0)] + [(SWAP, j) for j in cs] + [(SCAN, 0)]
            out.append(core.fmt_case([Kf, 2, 4, 16, 900, 1], [p0, p1], [0] * (3 * len(cs)) + [1] * 200))
            pa = [(PROTECT, cs[0]), (PROTECT, 8 + cs[1])]
            pb = [(PROTECT, cs[-1])] + ([(PROTECT, 8 + cs[2])] if len(cs) > 2 else [])
            out.append(core.fmt_case([Kf, 3, 4, 16, 900, 1], [pa, pb, p1], [0] * 6 + [1] * 6 + [2] * 200))
    return out


def gen_cases(ctx, tier):
    rng = random.Random(ctx.seed * 7919 + 14)
    # a few end-to-end far-apart cases first, so that their replays are among the stored ones
    cases = far_directed()[:3]
    # binary search: every sorted array of length <= 6 over 8 values, needles 0..9
    arrays = list(sorted_arrays())
    for a in arrays:
        cases.append(core.fmt_case([0, len(a)] + a, [], []))
    # comparator: sign of hazard_pointer_compare vs unsigned order, boundary + random pairs
    for (x, y) in cmp_pairs(rng, 400 if tier == "quick" else 5000):
        cases.append(core.fmt_case([-1, x >> 32, x & 0xffffffff, y >> 32, y & 0xffffffff], [], []))
    n_bs = len(cases)
    # exhaustive interleavings of pairs of calls, K=1, one cell
    pro_use = [(PROTECT, 0), (USE, 0)]
    pairs = [
        # (params, prefix run alone by thread 0, thread 0 call, thread 1 call, step bounds)
        ([1, 2, 1, 4, 300], [], pro_use, [(SWAP, 0), (SCAN, 0)], [4, 9]),
        ([1, 2, 1, 4, 300], [(SWAP, 0)], [(SWAP, 0)], pro_use + [(CLEAR, 0)], [9, 5]),
        ([1, 1, 1, 4, 300], [], [(SCAN, 0)], [(JOIN, 0), (PROTECT, 0)], [6, 12]),
        ([2, 1, 2, 5, 300], [], [(SWAP, 1), (SCAN, 0)], [(JOIN, 0)], [9, 9]) if tier == "thorough" else None,
        ([1, 0, 1, 3, 300], [], [(JOIN, 0)], [(JOIN, 0)], [9, 9]) if tier == "thorough" else None,
    ]
    for pr in pairs:
        if pr is None:
            continue
        params, pre, a, b, bounds = pr
        pre_steps = 9 * len(pre)
        for il in core.interleavings(bounds):
            cases.append(core.fmt_case(params, [pre + a, b], [0] * pre_steps + il))
    n_ex = len(cases) - n_bs
    nrand = 2500 if tier == "quick" else 50000
    for _ in range(nrand):
        K = rng.choice([1, 1, 2, 2, 3, 4])
        nt = rng.choice([2, 2, 3, 3, 4, 6])
        P = rng.randint(0, nt)
        C = rng.choice([1, 1, 2, 3])
        NN = C + rng.choice([0, 1, 2, 4, 8, 12])
        progs = [rand_prog(rng, K, C, rng.randint(1, 10), t < P) for t in range(nt)]
        length = rng.randint(5, 8 * sum(len(p) for p in progs) + 5)
        cases.append(core.fmt_case([K, P, C, NN, 600], progs,
                                   core.random_sched(rng, nt, length, rng.randrange(3))))
    # sequential programs
    for _ in range(200):
        K = rng.choice([1, 2])
        C = rng.choice([1, 2])
        cases.append(core.fmt_case([K, rng.choice([0, 1]), C, C + rng.choice([0, 3, 10]), 600],
                                   [rand_prog(rng, K, C, rng.randint(1, 30), False)], []))
    # far-apart layout (params[5] = 1): node k at {0, 2.5, 5, 8} GiB [k mod 4]; the published hazard
    # pointers are >= 2^31 apart, the snapshot sort and the binary search work on real far addresses
    n_far0 = len(cases)
    cases += far_directed()[3:]
    for _ in range(500 if tier == "quick" else 8000):
        K = rng.choice([2, 3, 4, 4])
        nt = rng.choice([2, 3, 4])
        P = rng.randint(1, nt)
        C = rng.choice([2, 3, 4, 4])
        NN = C + rng.choice([2, 4, 8, 12])
        progs = [rand_prog(rng, K, C, rng.randint(2, 10), t < P) for t in range(nt)]
        length = rng.randint(5, 8 * sum(len(p) for p in progs) + 5)
        cases.append(core.fmt_case([K, P, C, NN, 600, 1], progs,
                                   core.random_sched(rng, nt, length, rng.randrange(3))))
    n_far = len(cases) - n_far0 + 3
    # boundaries: threshold reached exactly (K=1,P=1 -> threshold 2), empty pool, max K,
    # every slot protected at the scan, late joiners bumping thresholds during a retire
    cases.append(core.fmt_case([1, 1, 1, 6, 300], [[(SWAP, 0), (SWAP, 0), (SWAP, 0)]], []))
    cases.append(core.fmt_case([1, 1, 1, 1, 300], [[(SWAP, 0), (SCAN, 0)]], []))
    cases.append(core.fmt_case([4, 2, 4, 12, 600],
                               [[(PROTECT, s * 8 + s) for s in range(4)] + [(USE, s) for s in range(4)],
                                [(SWAP, j % 4) for j in range(8)] + [(SCAN, 0)]],
                               [0] * 12 + [1] * 80 + [0] * 8))
    cases.append(core.fmt_case([1, 1, 1, 8, 600],
                               [[(SWAP, 0)] * 4, [(JOIN, 0)], [(JOIN, 0)]], [0, 0, 1, 1, 1, 1, 1, 1, 2, 2, 0, 0, 0, 2, 2, 2, 2]))
    cases.append(core.fmt_case([4, 1, 1, 2, 300], [[(PROTECT, 3 * 8), (PROTECT, 4 * 8), (CLEAR, 4), (USE, 3), (USE, 2)]], []))
    ctx.coverage["case_distribution"] = {"comparator_pairs_and_binary_search_arrays": n_bs,
                                         "far_apart_layout": n_far,
                                         "exhaustive_2thread_interleavings": n_ex,
                                         "random_programs": nrand, "sequential": 200,
                                         "total": len(cases)}
    return cases


def build(ctx):
    return core.build_harness(ctx, "h_hazard", "h_hazard.c")


def run(ctx):
    ctx.trusted = TRUSTED
    core.coq_property(ctx, "Properties_C14.v", THEOREMS)
    exe = build(ctx)
    if exe:
        cases = corpus(ctx) + gen_cases(ctx, ctx.tier)
        ok = core.correspond(ctx, "hazard", "hazard", exe, cases, monitor)
        st = ctx.stats["hazard"]
        ctx.coverage.update({"traces_validated_against_impl": st["cases"] - st["differ"],
                             "evaluations": st["cases"], "distinct_nontrivial": st["nontrivial"],
                             "rule": "case = an address pair for hazard_pointer_compare, or (K, pre-joined records, "
                                     "cells, nodes, layout [one array / pages 2.5 GiB apart], programs of "
                                     "join/protect/clear/swap+retire/use/scan per thread, schedule) or a sorted "
                                     "haystack for binary_search; non-trivial = a failed CAS or a call returning 0 "
                                     "(failed validation / empty retired list) in the implementation trace"})
        if not ok or ctx.failures:
            search(ctx, exe)
    client_layer(ctx)
    tso_layer(ctx)
    core.init_contract(ctx, ["hazard_pointer", "mpmc_fifo"])  # rt/h_init.c: real init on dirty memory
    core.finish(ctx, extra_assumptions=ASSUME)


TSO_THEOREMS = ["hp_tso_safe", "hp_tso_no_use_after_free", "hp_tso_validated_visible", "hp_tso_retired_unlinked",
                "hp_tso_shared_pointer_never_buffered", "hp_tso_scan_sees", "hp_tso_unfenced_refuted",
                "hp_tso_sc_refines_step", "hp_tso_sc_refines", "hp_tso_fence_invisible_under_sc", "hp_tso_sc_safe"]


def tso_layer(ctx):
    """'publish then full fence before the validating re-read' on x86-TSO: coq/HazardTSO.v is a store-buffer machine of
    hazard_pointer_using + the caller's re-read against unlink / retire / scan / free, with the fence as a parameter:
    safe with it (hp_tso_safe), an 11-step use-after-free without it (hp_tso_unfenced_refuted), and invisible to any
    sequentially consistent model (hp_tso_fence_invisible_under_sc).  Tie to the source: the shape check below (the
    parameter `fenced = true` is what the source says) and the store-buffer runs of the real code (C13.tso_pass)."""
    import re
    core.coq_property(ctx, "Properties_C14_tso.v", TSO_THEOREMS)
    try:
        hp = open(os.path.join(core.REPO, "include", "hazard_pointer.h")).read()
        ms = open(os.path.join(core.REPO, "include", "machine_specific.h")).read()
    except OSError as ex:
        ctx.oblige("source-shape:hazard_pointer_using", False, str(ex))
        return
    strip = lambda t: re.sub(r"//[^\n]*|/\*.*?\*/", "", t, flags=re.S)
    m = re.search(r"static inline void hazard_pointer_using\s*\([^)]*\)\s*\{(.*?)\n\}", hp, re.S)
    body = [x.strip() for x in strip(m.group(1)).split(";") if x.strip()] if m else []
    body = [x for x in body if not x.startswith("assert")]
    ok_using = body == ["hptr->hazard_pointers[n] = node", "store_load_barrier()"]
    ctx.oblige("source-shape:hazard_pointer_using = slot store; store_load_barrier()", ok_using,
               "body found: %r (HazardTSO.v models A2 = the slot store followed by A3 = a full fence)" % body)
    m = re.search(r"static inline void store_load_barrier\s*\(\)\s*\{(.*?)\n\}", ms, re.S)
    fb = strip(m.group(1)) if m else ""
    x64 = re.search(r"defined\(__x86_64__\)\s*\n\s*__asm__ __volatile__\(\"(lock; addq \$0,0\(%%rsp\)|mfence)\"\s*:\s*:\s*:\s*\"memory\"\)", fb)
    ctx.oblige("source-shape:store_load_barrier is a locked instruction / mfence with a memory clobber", bool(x64),
               "x86_64 branch of store_load_barrier: %r" % fb[:300])


CLIENT_THEOREMS = ["mpmc_no_deref_reclaimed", "mpmc_hp_safe", "mpmc_aba_safe"]


def client_layer(ctx):
    """'no structure built on it dereferences a reclaimed node': the structure built on the hazard-pointer API in this
    repository is include/mpmc_fifo.h; its theorems (Properties_C13.v) and its lock-step correspondence (real
    mpmc_fifo.h + hazard_pointer.c against coq/MpmcHp.v, with the reclaimed-node oracle) are obligations of C14 too."""
    from vf.props import C13
    core.coq_property(ctx, "Properties_C13.v", CLIENT_THEOREMS)
    exe = C13.build(ctx)
    if not exe:
        return
    dist = ctx.coverage.get("case_distribution")
    nf = len(ctx.failures)
    cases = C13.corpus(ctx) + C13.gen_cases(ctx, ctx.tier)
    ctx.coverage["client_case_distribution"] = ctx.coverage.get("case_distribution")
    ctx.coverage["case_distribution"] = dist
    ok = core.correspond(ctx, "mpmc", "mpmchp", exe, cases, C13.monitor)
    if (not ok or len(ctx.failures) > nf) and not ctx.violations:
        C13.search(ctx, exe)
    C13.tso_pass(ctx, exe)     # 'publish then full fence before the validating re-read': only visible with store buffers


def search(ctx, exe):
    """something stopped checking: look for a concrete property failure on the
    implementation with more schedules (monitor only)."""
    if ctx.violations:
        return
    rng_ctx = core.Ctx(ctx.pid, "thorough", ctx.seed + 1000)
    try:
        cases = gen_cases(rng_ctx, "thorough")[:40000]
    finally:
        rng_ctx.cleanup()
    # RT_CATCHALL: every byte of the hazard records is a scheduling point (fields the model does not know included)
    scases, impl = core.run_search(ctx, exe, cases)   # plain schedules first, then with every byte of the object a scheduling point
    for c, line in zip(scases, impl):
        why = core.safe_monitor(monitor, c, core.parse_trace(line) if line else None, line)
        if why:
            core.report_violation(ctx, "hazard+catchall", c, why, line)
            if len(ctx.violations) >= 3:
                break


def corpus(ctx):
    import os
    p = os.path.join(core.VERIF, "corpus", "C14.txt")
    try:
        return [l.strip() for l in open(p) if l.strip() and not l.startswith("#")]
    except OSError:
        return []


def replay(ctx, payload):
    if payload.get("harness") == "h_init":
        return core.replay_init(ctx, payload)
    if str(payload.get("harness", "")).split("+")[0] == "mpmc":
        from vf.props import C13
        return C13.replay(ctx, payload)
    exe = build(ctx)
    c = payload.get("case")
    if not exe or not c:
        print("nothing to replay (no concrete case in this file)")
        return 2
    if str(payload.get("harness", "")).endswith("+catchall"):
        impl = core.run_sharded(["env", "RT_CATCHALL=1", exe], [c])[0]
        why = core.safe_monitor(monitor, c, core.parse_trace(impl) if impl is not None else None, impl)
        print("case:  %s\nimpl (every byte of the object a scheduling point):  %s\nmonitor: %s" % (c, impl, why or "ok"))
        return 1 if why else 0
    impl = core.run_sharded([exe], [c])[0]
    mod = core.model_run("hazard", [c])[0]
    why = monitor(c, core.parse_trace(impl), impl)
    print("case:  %s\nimpl:  %s\nmodel: %s\nmonitor: %s\nlock-step: %s" %
          (c, impl, mod, why or "ok", "identical" if impl == mod else "DIFFER"))
    return 1 if (why or impl != mod) else 0


TRUSTED = [
    "Coq 8.16.1 kernel + vm_compute (no native_compute)",
    "Print Assumptions of each theorem (recorded under print_assumptions)",
    "extraction: Require Extraction + ExtrOcamlBasic only; no Extract Constant",
    "OCaml driver coq/extract/driver.ml (int <-> Z conversion, line I/O)",
    "rt/rt.c: gcc -fsanitize=thread access hooks as the source of access events, baton scheduler",
    "rt/h_hazard.c: op language, node pool (LIFO), record pool substituted for calloc, gc callback events",
    "model of hazard_pointer.h/.c written by hand (coq/Hazard.v); tie = identical per-access traces",
    "SC interleaving of accesses (store_load_barrier is a no-op under SC; TSO is outside this check); "
    "weak CAS modelled as strong (x86 cmpxchg); -O0 instrumented build",
    "qsort: assumed to return a sorted permutation for a comparator that is a total order (good_sort; "
    "hp_comparator_obligation shows any comparator-driven sort is one); hazard_pointer_compare is tied to the "
    "model comparator cmp64 by the differential mode (sign on boundary/random address pairs, also >= 2^31 apart) "
    "and end to end by the far-apart node layout",
]
ASSUME = ["a thread owns at most one record and uses slot indices < K (asserted by the C code)",
          "retired_count / retire_threshold do not overflow size_t (unbounded nat in the model)",
          "a node is retired only after it was unlinked, by the thread that unlinked it, once"]
