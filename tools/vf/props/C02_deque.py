"""C02 (deque half): Chase-Lev work-stealing deque.  Coq theorems
(Properties_C02_deque.v) + lock-step correspondence of src/work_stealing_deque.c
with coq/Wsd.v + implementation-side monitor.

This is a helper for C02.py: call `run_part(ctx)` (everything except
core.finish).  `run(ctx)` = run_part + finish, so `./check C02_deque quick`
works standalone."""
import random

from vf import core

PROPFILE = "Properties_C02_deque.v"
THEOREMS = ["wsd_exactly_once", "wsd_no_loss", "wsd_quiescent_content",
            "wsd_steal_fifo_pop_lifo", "wsd_abort_justified", "wsd_empty_justified",
            "wsd_growth_preserves", "wsd_safety_core",
            "wsd_tso_exactly_once", "wsd_tso_no_loss", "wsd_tso_release_store_refuted"]
PUSH, POP, STEAL = 1, 2, 3
EMPTY, ABORT = -1, -2
POISON = (0x5a5a5a5a5a5a5a5a, -777777)   # h_wsd_free fills a freed array with 0x5a bytes
LABEL = "wsd"
H_MAX_OPS = 64
MODEL = "wsd"


# --------------------------------------------------------------------------
# case helpers
# --------------------------------------------------------------------------
L_REST = 200000     # search mode: byte b of the wsd_work_stealing_deque_t = 200000 + b (bytes registered otherwise keep their locs)


def parse_case(case):
    v = [int(x) for x in case.split()]
    params = v[1:1 + v[0]]
    nthreads = v[1 + v[0]]
    progs, i = [], 2 + v[0]
    for _ in range(nthreads):
        n = v[i]; i += 1
        progs.append([(v[i + 2 * j], v[i + 2 * j + 1]) for j in range(n)])
        i += 2 * n
    return params, progs


def seq_steps(lg, prog):
    """number of accesses of an owner-only program run alone from an empty
    deque whose first array has 2^lg slots; returns (steps, lg, size)."""
    steps, size = 0, 0
    for (o, _) in prog:
        if o == PUSH:
            if size >= (1 << lg) - 1:
                steps += 6 + 2 * size
                lg += 1
            else:
                steps += 5
            size += 1
        elif o == POP:
            if size == 0:
                steps += 5
            elif size == 1:
                steps += 7
                size = 0
            else:
                steps += 5
                size -= 1
        else:
            if size == 0:
                steps += 3
            else:
                steps += 5
                size -= 1
    return steps, lg, size


def drained(prog):
    """owner program followed by enough pops to empty the deque."""
    n = sum(1 for (o, _) in prog if o == PUSH)
    return list(prog) + [(POP, 0)] * n


# --------------------------------------------------------------------------
# implementation-side monitor: the property itself, from the trace alone
# --------------------------------------------------------------------------
def monitor(case, tr, raw):
    if tr is None:
        return "implementation produced no trace: %s" % (raw or "")[:80]
    # search mode (RT_CATCHALL=1): accesses to bytes of the object(s) that have no location of their own are
    # scheduling points, not events of the protocol judged here
    tr = [e for e in tr if e[1] < L_REST or e[2] in (909, 919)]
    params, progs = parse_case(case)
    nthreads = len(progs)
    for t in range(1, nthreads):
        if any(o != STEAL for (o, _) in progs[t]):
            return None          # not a one-owner case: the property does not apply
    order = {}                   # token -> push sequence number (publication order)
    returned = {}                # token -> (tid, call)
    stolen_seq = []
    opidx = [0] * nthreads
    inop = [False] * nthreads
    top_moves = 0
    moves_at_start = [0] * nthreads
    steals_at_start = [0] * nthreads
    nsteals_ok = 0
    clean = [True] * nthreads    # no owner call overlapped this (steal) call
    unret_at_start = [0] * nthreads
    stuck = False
    freed = set()                # arrays the implementation freed (h_wsd_free events)
    holding = {}                 # tid -> array whose pointer it loaded and whose slot it has yet to read
    for (t, loc, kind, val) in tr:
        if kind == 919 and loc >= 990:
            k = loc - 990
            freed.add(k)
            for u, a in holding.items():
                if a == k:
                    return "array %d freed while thread %d holds its pointer and has yet to read a slot of it" % (k, u)
            continue
        if kind == 919:
            stuck = True
            continue
        if kind in (9, 19) and loc >= 1000:
            if loc // 1000 in freed:
                return "slot of freed array %d accessed (%s by thread %d, slot %d)" % (
                    loc // 1000, "read" if kind == 9 else "write", t, loc % 1000)
            holding.pop(t, None)
        if loc == 2 and kind == 25:
            holding[t] = val
        if kind == 909:
            holding.pop(t, None)
        if t >= nthreads or opidx[t] >= len(progs[t]):
            return "event of thread %d beyond its program" % t
        if kind != 909 and not inop[t]:
            inop[t] = True
            moves_at_start[t] = top_moves
            steals_at_start[t] = nsteals_ok
            unret_at_start[t] = len(order) - len(returned)
            clean[t] = not inop[0] if t != 0 else True
            if t == 0:
                for u in range(1, nthreads):
                    if inop[u]:
                        clean[u] = False
        if loc == 0 and kind // 10 == 7:
            top_moves += 1
        if kind != 909:
            continue
        op, a = progs[t][opidx[t]]
        if op == PUSH:
            if a in order:
                return None      # tokens not unique: generator error, property not applicable
            order[a] = len(order)
        else:
            who = "pop" if op == POP else "steal"
            if val not in (EMPTY, ABORT):
                if val in POISON:
                    return "%s by thread %d returned the content of freed memory" % (who, t)
                if val not in order:
                    return "%s by thread %d returned %d, which was never pushed" % (who, t, val)
                if val in returned:
                    return "token %d returned twice (thread %d call %d, then thread %d call %d)" % (
                        (val,) + returned[val] + (t, opidx[t] + 1))
                unret = [x for x in order if x not in returned]
                if op == POP and order[val] != max(order[x] for x in unret):
                    return "pop returned %d, not the most recently pushed unreturned token" % val
                if op == STEAL:
                    if stolen_seq and order[stolen_seq[-1]] > order[val]:
                        return "steals out of push order: %d after %d" % (val, stolen_seq[-1])
                    stolen_seq.append(val)
                    nsteals_ok += 1
                returned[val] = (t, opidx[t] + 1)
            elif op == POP:
                if len(order) != len(returned):
                    return "pop returned %d while %d pushed token(s) were not yet returned" % (
                        val, len(order) - len(returned))
                if val == ABORT and nsteals_ok == steals_at_start[t]:
                    return "pop returned ABORT although no steal succeeded during the call"
            else:
                if val == ABORT and top_moves == moves_at_start[t]:
                    return "steal returned ABORT although top did not move during the call"
                if val == EMPTY and clean[t] and unret_at_start[t] > 0 and top_moves == moves_at_start[t]:
                    return "steal returned EMPTY on a non-empty deque with no concurrent owner call or take"
        inop[t] = False
        opidx[t] += 1
    if not stuck and all(opidx[t] == len(progs[t]) for t in range(nthreads)):
        npush = sum(1 for (o, _) in progs[0] if o == PUSH)
        k = 0
        for (o, _) in reversed(progs[0]):
            if o != POP:
                break
            k += 1
        if k >= npush:
            lost = [x for x in order if x not in returned]
            if lost:
                return "token(s) %s pushed but never returned although the owner drained the deque" % lost[:4]
    return None


def monitor_big(case, tr, raw):
    """long-queue cases (P tokens pushed during set-up, thieves stealing until EMPTY): exactly-once / no loss only"""
    if tr is None:
        return "implementation produced no trace: %s" % (raw or "")[:80]
    params, progs = parse_case(case)
    P = params[3]
    universe = set(range(1000000, 1000000 + P)) | set(a for (o, a) in progs[0] if o == PUSH)
    returned = {}
    stuck = False
    for (t, loc, kind, val) in tr:
        tok = None
        if kind == -9:
            return "the deque code crashed (signal %d)" % val
        if kind == 919 and loc == 5000:
            tok = val
        elif kind == 919:
            stuck = True
        elif kind == 909 and val not in (EMPTY, ABORT) and not (t == 0 and val == 1 and False):
            tok = val
        if tok is None:
            continue
        if t == 0 and kind == 909 and val == 1:
            continue       # return value of a push
        if tok not in universe:
            return "thread %d took %d, which was never pushed" % (t, tok)
        if tok in returned:
            return "token %d handed to two takers (thread %d, then thread %d) with %d tokens queued at the start" % (
                tok, returned[tok], t, P)
        returned[tok] = t
    if stuck:
        return "a thread never finished"
    lost = sorted(universe - set(returned))
    if lost:
        return "token(s) %s were pushed but never returned although every taker ran until EMPTY" % lost[:4]
    return None


def monitor_tso(case, tr, raw):
    """the clauses of the property that do not depend on when a completed store becomes visible: every token taken at
    most once, only pushed tokens, nothing lost once the owner has drained, no access to a freed array"""
    if tr is None:
        return "implementation produced no trace: %s" % (raw or "")[:80]
    params, progs = parse_case(case)
    nthreads = len(progs)
    for t in range(1, nthreads):
        if any(o != STEAL for (o, _) in progs[t]):
            return None
    pushed = [a for (o, a) in progs[0] if o == PUSH]
    if len(set(pushed)) != len(pushed):
        return None
    universe = set(pushed)
    returned = {}
    opidx = [0] * nthreads
    stuck = False
    freed = set()
    for (t, loc, kind, val) in tr:
        if kind == -9:
            return "the deque code crashed (signal %d)" % val
        if kind == 919 and loc >= 990:
            freed.add(loc - 990)
            continue
        if kind == 919:
            stuck = True
            continue
        if kind in (9, 19) and loc >= 1000 and loc // 1000 in freed:
            return "slot of freed array %d accessed" % (loc // 1000)
        if kind != 909:
            continue
        if t >= nthreads or opidx[t] >= len(progs[t]):
            return "return event of thread %d beyond its program" % t
        op, a = progs[t][opidx[t]]
        opidx[t] += 1
        if op == PUSH or val in (EMPTY, ABORT):
            continue
        if val in POISON:
            return "a take by thread %d returned the content of freed memory" % t
        if val not in universe:
            return "thread %d took %d, which was never pushed" % (t, val)
        if val in returned:
            return "token %d handed to two takers (thread %d, then thread %d)" % (val, returned[val], t)
        returned[val] = t
    if not stuck and all(opidx[t] == len(progs[t]) for t in range(nthreads)):
        k = 0
        for (o, _) in reversed(progs[0]):
            if o != POP:
                break
            k += 1
        if k >= len(pushed):
            lost = sorted(universe - set(returned))
            if lost:
                return "token(s) %s pushed but never returned although the owner drained the deque" % lost[:4]
    return None


def big_cases():
    """the owner's pop is stalled j steps in, one or two thieves then steal until EMPTY, the owner finishes, pushes one
    more token and drains.  P spans the sizes at which a length-dependent shortcut could switch on."""
    cases = []
    for P in (70, 300, 1100, 4200, 9000):
        lg = max(3, P.bit_length())
        for j in range(0, 9):
            for nth in (1, 2):
                p0 = [(POP, 0), (PUSH, 77), (POP, 0), (POP, 0), (POP, 0)]
                thieves = [[(4, 0)] for _ in range(nth)]
                sched = [0] * j
                if nth == 1:
                    sched += [1] * (8 * P + 100)
                else:
                    sched += [1, 1, 1, 2, 2, 2, 1, 1, 2, 2, 2, 1] * (P + 50)
                cases.append(core.fmt_case([lg, 0, 30000, P], [p0] + thieves, sched))
    return cases


# --------------------------------------------------------------------------
# case generation
# --------------------------------------------------------------------------
def pair_cases(lg, start, pre, owner_op, nthieves, limit=None, rng=None, sample=None):
    """owner does `pre` pushes alone, then owner_op races `nthieves` steals:
    every interleaving (or a sample)."""
    prefill = [(PUSH, 100 + j) for j in range(pre)]
    psteps, lg2, size = seq_steps(lg, prefill)
    # steps of the racing owner call when run alone from that state
    def call_steps(op):
        if op == PUSH:
            return 6 + 2 * size if size >= (1 << lg2) - 1 else 5
        return 5 if size != 1 else 7
    osteps = call_steps(owner_op)
    p0 = drained(prefill + [(owner_op, 7)])
    thieves = [[(STEAL, 0)] for _ in range(nthieves)]
    ils = core.interleavings([osteps] + [5] * nthieves, limit=limit)
    if sample is not None and len(ils) > sample:
        ils = rng.sample(ils, sample)
    return [core.fmt_case([lg, start, 400], [p0] + thieves, [0] * psteps + il) for il in ils]


def random_case(rng, big=False):
    lg = rng.choice([0, 1, 1, 1, 2, 3])
    start = rng.choice([0, 0, 0, 5, -3, 1000, -1, (1 << 31) - 2, (1 << 32) - 3, (1 << 16) - 1, -(1 << 31) + 1])
    nth = rng.choice([1, 1, 2, 2, 3])
    n0 = rng.randint(1, 14 if big else 9)
    tok = list(range(1, 60))
    rng.shuffle(tok)
    p0 = []
    for _ in range(n0):
        r = rng.random()
        if r < 0.6:
            p0.append((PUSH, tok.pop()))
        elif r < 0.95:
            p0.append((POP, 0))
        else:
            p0.append((STEAL, 0))
    p0 = drained(p0)
    progs = [p0] + [[(STEAL, 0)] * rng.randint(1, 6) for _ in range(nth)]
    total = 8 * len(p0) + 5 * sum(len(p) for p in progs[1:])
    length = rng.randint(5, total + 5)
    return core.fmt_case([lg, start, 600], progs,
                         core.random_sched(rng, 1 + nth, length, rng.randrange(3)))


def gen_cases(ctx, tier):
    rng = random.Random(ctx.seed * 7919 + 2)
    cases = []
    # (1) exhaustive: owner call x one steal, from 0..2 elements, first array of 2 slots
    #     (prefill 1 + push = growth while the thief may hold the old array;
    #      prefill 1 + pop = the last-element race, every pc x every pc)
    for pre in (0, 1, 2):
        for op in (PUSH, POP):
            cases += pair_cases(1, 0, pre, op, 1)
    # first array of 1 slot (every push grows at first), and indexes crossing 0
    for pre in (0, 1):
        cases += pair_cases(0, 0, pre, POP, 1)
        cases += pair_cases(1, -1, pre, POP, 1)
    n_ex = len(cases)
    # growth of a 4-slot array (3 elements copied) against a steal: sample
    cases += pair_cases(2, 0, 3, PUSH, 1, rng=rng, sample=700 if tier == "quick" else 6188)
    # last-element race with two thieves: sample
    cases += pair_cases(1, 0, 1, POP, 2, limit=400000, rng=rng, sample=800 if tier == "quick" else 20000)
    cases += pair_cases(1, 0, 2, POP, 2, limit=400000, rng=rng, sample=400 if tier == "quick" else 8000)
    n_cov = len(cases) - n_ex
    # (2) random programs x schedules
    nrand = 3000 if tier == "quick" else 50000
    for _ in range(nrand):
        cases.append(random_case(rng, big=(tier != "quick")))
    # (3) sequential programs (one thread, all three calls)
    nseq = 200
    for _ in range(nseq):
        tok = list(range(1, 40)); rng.shuffle(tok)
        p = []
        for _ in range(rng.randint(1, 14)):
            o = rng.choice([PUSH, PUSH, POP, STEAL])
            p.append((o, tok.pop() if o == PUSH else 0))
        cases.append(core.fmt_case([rng.choice([0, 1, 2]), rng.choice([0, -2, 7]), 600], [drained(p)], []))
    # (4) boundaries: many growths in a row from a 1-slot array; a thief holding
    #     the old array across two growths; stale thief reading a never-written slot
    nb = 0
    for lg in (0, 1):
        p0 = drained([(PUSH, 10 + j) for j in range(9)])
        for _ in range(60 if tier == "quick" else 600):
            progs = [p0, [(STEAL, 0)] * 4, [(STEAL, 0)] * 4]
            cases.append(core.fmt_case([lg, 0, 800], progs,
                                       core.random_sched(rng, 3, rng.randint(10, 140), rng.randrange(3))))
            nb += 1
    for hold in (3, 4):          # thief has read top,bottom,array (3) or also the slot (4)
        for k in range(0, 30):
            p0 = drained([(PUSH, 21), (PUSH, 22), (PUSH, 23), (PUSH, 24), (PUSH, 25)])
            sched = [0] * 5 + [1] * hold + [0] * k + [1] * 2
            cases.append(core.fmt_case([1, 0, 800], [p0, [(STEAL, 0), (STEAL, 0)]], sched))
            sched = [0] * 5 + [1] * 1 + [2] * 5 + [0] * k + [1] * 4
            cases.append(core.fmt_case([1, 0, 800], [p0, [(STEAL, 0)], [(STEAL, 0)]], sched))
            nb += 2
    # (5) a thief stalled right after loading the array pointer (3 accesses into
    #     steal) while the owner grows the deque two and three times, resumed at
    #     every later point of the owner's run; plus random variants
    ns = 0
    for npush in (4, 5, 8, 9):
        p0 = drained([(PUSH, 30 + j) for j in range(npush)])
        osteps, _, _ = seq_steps(1, [(PUSH, 0)] * npush)
        for hold in (3, 4):
            ks = range(0, osteps - 5 + 1) if hold == 3 else range(0, osteps - 5 + 1, 5)
            for k in ks:
                sched = [0] * 5 + [1] * hold + [0] * k + [1] * (6 - hold)
                cases.append(core.fmt_case([1, 0, 900], [p0, [(STEAL, 0), (STEAL, 0)]], sched))
                ns += 1
    for _ in range(300 if tier == "quick" else 3000):
        lg = rng.choice([0, 1, 1, 2])
        pre = rng.randint(1, 3)
        body = [(PUSH, 40 + j) for j in range(pre)]
        tok = 60
        for _ in range(rng.randint(4, 12)):
            if rng.random() < 0.85:
                body.append((PUSH, tok)); tok += 1
            else:
                body.append((POP, 0))
        p0 = drained(body)[:H_MAX_OPS]
        nth = rng.choice([1, 2, 2])
        psteps, _, _ = seq_steps(lg, body[:pre])
        total, _, _ = seq_steps(lg, body)
        sched = [0] * psteps
        for th in range(1, nth + 1):
            sched += [th] * 3                      # loaded top, bottom, array pointer
        sched += [0] * rng.randint(0, total - psteps + 6)
        sched += core.random_sched(rng, 1 + nth, rng.randint(2, 30), rng.randrange(3))
        cases.append(core.fmt_case([lg, rng.choice([0, 0, -2]), 900],
                                   [p0] + [[(STEAL, 0)] * rng.randint(1, 3) for _ in range(nth)], sched))
        ns += 1
    ctx.coverage["case_distribution"] = {"exhaustive_owner_call_x_steal": n_ex,
                                         "sampled_growth_and_two_thief_races": n_cov,
                                         "random_programs": nrand, "sequential": nseq,
                                         "boundary": nb, "stalled_thief_across_growths": ns,
                                         "total": len(cases)}
    return cases


# --------------------------------------------------------------------------
def build(ctx):
    return core.build_harness(ctx, "h_wsd", "h_wsd.c", repo_sources=["src/work_stealing_deque.c"],
                              extra_flags=["-Dmalloc=h_wsd_malloc", "-Dfree=h_wsd_free"])


def run_part(ctx):
    """Coq obligations + build + lock-step correspondence + search on failure.
    Does not call core.finish.  Returns True when everything checked."""
    ctx.trusted = list(getattr(ctx, "trusted", [])) + [x for x in TRUSTED if x not in getattr(ctx, "trusted", [])]
    core.coq_property(ctx, PROPFILE, THEOREMS)
    exe = build(ctx)
    ok = False
    if exe:
        cases = corpus(ctx) + gen_cases(ctx, ctx.tier)
        ok = core.correspond(ctx, LABEL, MODEL, exe, cases, monitor)
        st = ctx.stats[LABEL]
        ctx.coverage.update({"wsd_traces_validated_against_impl": st["cases"] - st["differ"],
                             "wsd_evaluations": st["cases"], "wsd_distinct_nontrivial": st["nontrivial"],
                             "wsd_rule": "case = (log2 of first array, start index, owner program of push/pop/steal "
                                         "ending in a drain, steal programs per thief, schedule); non-trivial = at "
                                         "least one CAS failure in the implementation trace"})
        if not ok or ctx.failures:
            search(ctx, exe)
        elif ctx.tier == "thorough":
            n, bad = run_big(ctx, exe)
            ctx.oblige("monitor:wsd-long-queues(%d runs)" % n, bad == 0, "%d long-queue runs judged a violation" % bad)
            ctx.coverage["wsd_long_queue_runs"] = n
            n, bad = run_tso(ctx, exe, 40000)
            ctx.oblige("monitor:wsd-x86-tso(%d runs)" % n, bad == 0, "%d runs with delayed stores judged a violation" % bad)
            ctx.coverage["wsd_tso_runs"] = n
    return ok and not ctx.failures and not ctx.violations


def run(ctx):
    run_part(ctx)
    core.finish(ctx, checker_cmd="cd /verif/coq && coqc -Q . LF " + PROPFILE, extra_assumptions=ASSUME)


def search(ctx, exe):
    """something stopped checking: look for a concrete property failure on the
    implementation with more schedules (monitor only)."""
    if ctx.violations:
        return
    rng_ctx = core.Ctx(ctx.pid, "thorough", ctx.seed + 1000)
    try:
        cases = gen_cases(rng_ctx, "thorough")
    finally:
        rng_ctx.cleanup()
    random.Random(ctx.seed + 5).shuffle(cases)
    cases = cases[:30000]
    # RT_CATCHALL: every byte of the deque object is a scheduling point (fields the model does not know included)
    scases, impl = core.run_search(ctx, exe, cases)   # plain schedules first, then with every byte of the object a scheduling point
    for c, line in zip(scases, impl):
        why = core.safe_monitor(monitor, c, core.parse_trace(line) if line is not None else None, line)
        if why:
            core.report_violation(ctx, LABEL + "+catchall", c, why, line)
            if len(ctx.violations) >= 3:
                break
    if not ctx.violations:
        run_big(ctx, exe)
    if not ctx.violations:
        run_tso(ctx, exe, 60000)


def run_tso(ctx, exe, n):
    """x86-TSO: random programs with randomly delayed (store-buffered) atomic stores, judged by monitor_tso"""
    rng = random.Random(ctx.seed * 7919 + 77)
    return core.tso_search(ctx, LABEL, exe, [random_case(rng) for _ in range(n)], monitor_tso)


def run_big(ctx, exe):
    cases = big_cases()
    impl = core.run_sharded([exe], cases, timeout=900)
    bad = 0
    for c, line in zip(cases, impl):
        why = core.safe_monitor(monitor_big, c, core.parse_trace(line) if line is not None else None, line)
        if why:
            bad += 1
            if bad <= 3:
                core.report_violation(ctx, LABEL, c, why, (line or "")[:4000])
    return len(cases), bad


def corpus(ctx):
    import os
    p = os.path.join(core.VERIF, "corpus", "C02_deque.txt")
    try:
        return [l.strip() for l in open(p) if l.strip() and not l.startswith("#")]
    except OSError:
        return []


def replay(ctx, payload):
    exe = build(ctx)
    c = payload.get("case")
    if not exe or not c:
        print("nothing to replay (no concrete case in this file)")
        return 2
    if str(payload.get("harness", "")).endswith("+tso"):
        impl = core.run_sharded(core.TSO_CMD + [exe], [c])[0]
        why = core.safe_monitor(monitor_tso, c, core.parse_trace(impl) if impl is not None else None, impl)
        print("case:  %s\nimpl (x86-TSO store buffers, flush tokens 100+t in the schedule):  %s\nmonitor: %s" % (c, impl, why or "ok"))
        return 1 if why else 0
    if str(payload.get("harness", "")).endswith("+catchall"):
        impl = core.run_sharded(["env", "RT_CATCHALL=1", exe], [c])[0]
        why = core.safe_monitor(monitor, c, core.parse_trace(impl) if impl is not None else None, impl)
        print("case:  %s\nimpl (every byte of the object a scheduling point):  %s\nmonitor: %s" % (c, impl, why or "ok"))
        return 1 if why else 0
    impl = core.run_sharded([exe], [c])[0]
    mod = core.model_run(MODEL, [c])[0]
    why = monitor(c, core.parse_trace(impl), impl)
    print("case:  %s\nimpl:  %s\nmodel: %s\nmonitor: %s\nlock-step: %s" %
          (c, impl, mod, why or "ok", "identical" if impl == mod else "DIFFER"))
    return 1 if (why or impl != mod) else 0


TRUSTED = [
    "Coq 8.16.1 kernel + vm_compute (no native_compute)",
    "Print Assumptions of each theorem (recorded under print_assumptions)",
    "extraction: Require Extraction + ExtrOcamlBasic only (bool/option/unit/list/prod/sumbool); no Extract Constant",
    "OCaml driver coq/extract/driver.ml (int <-> Z conversion, line I/O)",
    "rt/rt.c: gcc -fsanitize=thread access hooks as the source of access events, baton scheduler",
    "model of work_stealing_deque.c written by hand (coq/Wsd.v); tie = identical per-access traces "
    "(including the memory-order field of every atomic access)",
    "rt/h_wsd.c: arrays allocated by the code under test come from a zeroed bump arena (-Dmalloc=h_wsd_malloc); "
    "array headers (immutable after creation) are not shared locations",
    "SC interleaving of accesses; weak CAS modelled as strong (x86 cmpxchg); -O0 instrumented build",
]
ASSUME = ["top/bottom do not reach 2^63 (Z in the model)",
          "one owner: only thread 0 calls push_bottom/pop_bottom (hypothesis owner_only; the scheduler half of C02 "
          "is responsible for it)",
          "wsd_tso_*: x86-TSO abstract machine with a FIFO store buffer per thread (only the owner's is ever non-empty); "
          "the TSO model is the SC model re-run on a store-buffer machine, it is not itself tied to the C code by traces",
          "malloc never fails (growth always succeeds)"]
