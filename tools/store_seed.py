#!/usr/bin/env python3
"""usage: store_seed.py <id> <check id> <caught-by text>  — copies a confirmed seeded change into /verif/seeded/<id>/"""
import json, os, shutil, sys
pid, chk, caught = sys.argv[1], sys.argv[2], sys.argv[3]
src = "/tmp/seed/%s/seeded_out" % pid
n = 1
while os.path.exists("/verif/seeded/%s_%d" % (pid, n)): n += 1
dst = "/verif/seeded/%s_%d" % (pid, n)
os.makedirs(dst)
for f in os.listdir(src):
    if os.path.isfile(os.path.join(src, f)) and os.path.getsize(os.path.join(src, f)) < 400000:
        shutil.copy(os.path.join(src, f), dst)
meta = json.load(open(os.path.join(src, "meta.json")))
meta["confirmed_by_me"] = "tools/validate_seed.sh %s: pristine demo PASS; with the patch the 35-test suite passes and the demo FAILs" % pid
meta["check_result"] = "tools/try_seed.sh %s patch.diff -> %s" % (chk, caught)
json.dump(meta, open(os.path.join(dst, "meta.json"), "w"), indent=1)
print(dst)
