#!/usr/bin/env python3
"""Regenerates /verif/MANIFEST.json from the table below and validates it."""
import json
import os
import subprocess
import sys

V = os.path.dirname(os.path.dirname(os.path.abspath(__file__)))

# id -> (technique, level text, level note, design ref)
CLAIMED = {
    "C16": ("Coq inductive invariant over an access-granularity model + lock-step trace correspondence (TSan-hook runtime)",
            "Machine-checked (Coq 8.16) theorems over every reachable state of an executable model of "
            "lockfree_ring_buffer.h, one step per shared access, for any capacity 2^k, any number of threads, any "
            "programs and any schedule: bounded, slot written only when empty by its unique claimer, popped values "
            "are a prefix of pushed values in claim order, failures justified. The model is tied to /repo's working "
            "tree on every run by compiling the header with access instrumentation and comparing per-access traces "
            "(location, kind, memory order, value) with the extracted model under the same schedules, including all "
            "interleavings of every pair of calls.",
            "Trusts: Coq kernel; extraction (ExtrOcamlBasic only) + OCaml driver; rt/rt.c and gcc's TSan "
            "instrumentation as the source of access events; SC interleaving (x86 locked RMW; weak CAS = strong); "
            "-O0 build of the header; counters below 2^64.",
            "DESIGN.md 6 C16"),
    "C18": ("Coq inductive invariant + ticket/acquisition history over an access-granularity model; lock-step trace correspondence",
            "Machine-checked theorems over every reachable state of an executable model of src/fiber_spinlock.c (one step per "
            "access, counters mod 2^32 starting anywhere, any number < 2^32 of contenders, any programs, any schedule): mutual "
            "exclusion, FIFO ticket order (also as a history statement), trylock never steals and never spins, unlock advances "
            "now-serving by one. Tied to /repo's working tree on every run by per-access trace comparison of the instrumented "
            "fiber_spinlock.c with the extracted model, including counters crossing the 2^32 wrap.",
            "Trusts: Coq kernel; extraction + OCaml driver; rt/rt.c + gcc TSan instrumentation; SC interleaving (weak CAS = "
            "strong); -O0 build; guard: fewer than 2^32 simultaneous contenders.",
            "DESIGN.md 6 C18"),
    "C17": ("Coq inductive invariant (19 clauses) + ghost logs over an access-granularity model; lock-step trace correspondence",
            "Machine-checked theorems over every reachable state of an executable model of src/work_queue.c with the MPSC push/pop "
            "inlined (one step per access; any number of pushing threads, any item lists, any schedule): at most one worker between "
            "START_WORKING and EMPTY, items handed out form a duplicate-free prefix of the pushes in tail-exchange order, EMPTY only "
            "when every announced item was handed out, an announced item always has a designated worker, only the worker pops. Tied to "
            "/repo's working tree on every run by per-access trace comparison of the instrumented work_queue.c with the extracted model.",
            "Trusts: Coq kernel; extraction + OCaml driver; rt/rt.c + gcc TSan instrumentation; SC interleaving; -O0 build; callers follow "
            "the documented protocol (encoded in the thread programs); pushed items distinct and not the stub; counters below 2^63.",
            "DESIGN.md 6 C17"),
    "C02": ("Coq invariants + ghost histories over three layered models (Chase-Lev deque SC + x86-TSO, scheduler, runtime protocol "
            "machine); lock-step trace correspondence (deque, scheduler) and trace acceptance by the extracted protocol machine (whole runtime)",
            "Deque layer: machine-checked theorems over every reachable state of an access-granularity model of work_stealing_deque.c "
            "(one owner, any number of thieves, any programs, any schedule, any number of growths): every returned token was pushed and "
            "none is returned twice, nothing is lost (content = pushed minus returned), steal FIFO / pop LIFO, EMPTY/ABORT justified, "
            "growth preserves content; the same exactly-once/no-loss on an x86-TSO store-buffer machine, with the release-store variant "
            "of pop_bottom refuted by witness. Scheduler layer (when Properties_C10.v is present): conservation over atomic deques. "
            "Runtime layer (when Properties_C01.v is present): a fiber is never queued twice per wake-up in the protocol machine. Tie: "
            "per-access lock-step for the deque and the scheduler sources; for the whole runtime, the protocol events of real executions "
            "under a deterministic scheduler are accepted by the extracted machine and checked by a conservation monitor (every schedule "
            "followed by exactly one hand-out, nothing queued when all kernel threads idle).",
            "Trusts: Coq kernel; extraction + driver; rt/ runtimes and the guarded event hooks; SC interleaving for the lock-step (the "
            "TSO model is proved but not trace-tied); layering assumptions listed in evidence.assumptions; evidence.coverage."
            "theorem_layers_included says which theorem files this run covered.",
            "DESIGN.md 6 C02"),
}

NOT_YET = "model and proof not built yet in this development (see DESIGN.md 6 for the plan); not claimed until a check exists"


def main():
    props = [json.loads(l) for l in open(os.path.join(V, "properties.jsonl"))]
    checks, na = [], []
    for p in props:
        i = p["id"]
        if i in CLAIMED:
            tech, text, note, ref = CLAIMED[i]
            checks.append({
                "property_id": i,
                "quick_cmd": "./check %s quick" % i,
                "thorough_cmd": "./check %s thorough" % i,
                "evidence_file": "evidence/%s.json" % i,
                "replay_cmd_template": "./check %s --replay {path}" % i,
                "engine": "coq+lockstep",
                "level_claimed": {"category": "proof", "text": text, "design_ref": ref},
                "level_note": note,
                "technique": tech,
            })
        else:
            na.append({"property_id": i, "reason": NA_REASON.get(i, NOT_YET)})
    hooks_commits = []
    try:
        out = subprocess.check_output(["git", "-C", "/repo", "log", "--format=%H %s"]).decode()
        hooks_commits = [l.split()[0] for l in out.splitlines() if " verif-hook:" in l or l.split(" ", 1)[1].startswith("hook:")]
    except Exception:
        pass
    m = {
        "version": 1,
        "setup_cmd": "./setup.sh",
        "hooks": {
            "guard": "LIBFIBER_VERIF",
            "enable": "checks compile the files under test themselves with gcc -O0 -fsanitize=thread -DNDEBUG -DLIBFIBER_VERIF "
                      "(instrumentation hooks resolved by /verif/rt/rt.c, never libtsan) into a scratch dir outside /repo",
            "baseline_off_cmd": "cd /repo && cmake -G Ninja -B _build -DCMAKE_BUILD_TYPE=RelWithDebInfo -DCMAKE_C_FLAGS=-Wno-error "
                                "-DFIBER_RUN_TESTS_WITH_BUILD=OFF && cmake --build _build && ctest --test-dir _build -j8 --timeout 900",
            "source_commits": hooks_commits,
            "add_only": True,
        },
        "engines": [
            {"name": "coq+lockstep", "path": "check",
             "serves_properties": sorted(CLAIMED),
             "kind_free_text": "Coq 8.16 proofs over executable Gallina models (coq/), extracted to OCaml and compared "
                               "step-for-access with the instrumented implementation under a deterministic scheduler (rt/)"},
        ],
        "checks": checks,
        "not_applicable": na,
        "notes": "See DESIGN.md. Known findings: known_findings.json. Seeded changes used to validate the checks: seeded/.",
    }
    with open(os.path.join(V, "MANIFEST.json"), "w") as f:
        json.dump(m, f, indent=1)
    try:
        import jsonschema
        jsonschema.validate(m, json.load(open("/root/.vp/MANIFEST.schema.json")))
        print("MANIFEST.json valid: %d checks, %d not_applicable" % (len(checks), len(na)))
    except ImportError:
        print("MANIFEST.json written (jsonschema not available here)")


NA_REASON = {}

if __name__ == "__main__":
    main()
