#!/usr/bin/env python3
"""Regenerates /verif/MANIFEST.json from the table below and validates it."""
import json
import os
import subprocess
import sys

V = os.path.dirname(os.path.dirname(os.path.abspath(__file__)))

# id -> (technique, level text, level note, design ref)
CLAIMED = {
    "C16": ("Coq inductive invariant over an access-granularity model + lock-step trace correspondence (TSan-hook runtime)",
            "Machine-checked (Coq 8.16) theorems over every reachable state of an executable model of "
            "lockfree_ring_buffer.h, one step per shared access, for any capacity 2^k, any number of threads, any "
            "programs and any schedule: bounded, slot written only when empty by its unique claimer, popped values "
            "are a prefix of pushed values in claim order, failures justified. The model is tied to /repo's working "
            "tree on every run by compiling the header with access instrumentation and comparing per-access traces "
            "(location, kind, memory order, value) with the extracted model under the same schedules, including all "
            "interleavings of every pair of calls.",
            "Trusts: Coq kernel; extraction (ExtrOcamlBasic only) + OCaml driver; rt/rt.c and gcc's TSan "
            "instrumentation as the source of access events; SC interleaving (x86 locked RMW; weak CAS = strong); "
            "-O0 build of the header; counters below 2^64 (cases whose real counters cross 2^16/2^31/2^32/2^33 are run with debiased "
            "values against the model started at the congruent small value: ring_shift_invariant proves the model is shift-invariant).",
            "DESIGN.md 6 C16"),
    "C18": ("Coq inductive invariant + ticket/acquisition history over an access-granularity model; lock-step trace correspondence",
            "Machine-checked theorems over every reachable state of an executable model of src/fiber_spinlock.c (one step per "
            "access, counters mod 2^32 starting anywhere, any number < 2^32 of contenders, any programs, any schedule): mutual "
            "exclusion, FIFO ticket order (also as a history statement), trylock never steals and never spins, unlock advances "
            "now-serving by one. Tied to /repo's working tree on every run by per-access trace comparison of the instrumented "
            "fiber_spinlock.c with the extracted model, including counters crossing the 2^32 wrap.",
            "Trusts: Coq kernel; extraction + OCaml driver; rt/rt.c + gcc TSan instrumentation; SC interleaving (weak CAS = "
            "strong); -O0 build; guard: fewer than 2^32 simultaneous contenders.",
            "DESIGN.md 6 C18"),
    "C17": ("Coq inductive invariant (19 clauses) + ghost logs over an access-granularity model; lock-step trace correspondence",
            "Machine-checked theorems over every reachable state of an executable model of src/work_queue.c with the MPSC push/pop "
            "inlined (one step per access; any number of pushing threads, any item lists, any schedule): at most one worker between "
            "START_WORKING and EMPTY, items handed out form a duplicate-free prefix of the pushes in tail-exchange order, EMPTY only "
            "when every announced item was handed out, an announced item always has a designated worker, only the worker pops. Tied to "
            "/repo's working tree on every run by per-access trace comparison of the instrumented work_queue.c with the extracted model.",
            "Trusts: Coq kernel; extraction + OCaml driver; rt/rt.c + gcc TSan instrumentation; SC interleaving; -O0 build; callers follow "
            "the documented protocol (encoded in the thread programs); pushed items distinct and not the stub; counters below 2^63 (a fast-forward step of model, proofs and harness takes both counters "
            "past 2^32 inside one working session).",
            "DESIGN.md 6 C17"),
    "C02": ("Coq invariants + ghost histories over three layered models (Chase-Lev deque SC + x86-TSO, scheduler, runtime protocol "
            "machine); lock-step trace correspondence (deque, scheduler) and trace acceptance by the extracted protocol machine (whole runtime)",
            "Deque layer: machine-checked theorems over every reachable state of an access-granularity model of work_stealing_deque.c "
            "(one owner, any number of thieves, any programs, any schedule, any number of growths): every returned token was pushed and "
            "none is returned twice, nothing is lost (content = pushed minus returned), steal FIFO / pop LIFO, EMPTY/ABORT justified, "
            "growth preserves content; the same exactly-once/no-loss on an x86-TSO store-buffer machine, with the release-store variant "
            "of pop_bottom refuted by witness. Scheduler layer (when Properties_C10.v is present): conservation over atomic deques. "
            "Runtime layer (when Properties_C01.v is present): a fiber is never queued twice per wake-up in the protocol machine. Tie: "
            "per-access lock-step for the deque and the scheduler sources; for the whole runtime, the protocol events of real executions "
            "under a deterministic scheduler are accepted by the extracted machine and checked by a conservation monitor (every schedule "
            "followed by exactly one hand-out, nothing queued when all kernel threads idle, a run queue pushed/popped only by its owner). "
            "Beyond the model's sizes: long-queue cases (up to 9000 entries queued, owner stalled inside pop while thieves drain) and x86-TSO "
            "store-buffer runs of the real deque code (thorough tier and post-failure search), judged by the exactly-once/no-loss oracle.",
            "Trusts: Coq kernel; extraction + driver; rt/ runtimes and the guarded event hooks; SC interleaving for the lock-step (the "
            "TSO model is proved; the TSO runs of the real code are a search, not a trace tie); layering assumptions listed in evidence.assumptions; evidence.coverage."
            "theorem_layers_included says which theorem files this run covered.",
            "DESIGN.md 6 C02"),
    "C06": ("Coq invariant + ghost counters over the T1K stack-machine model with client Sem.v; lock-step trace correspondence on the T1 machine",
            "Machine-checked theorems over every reachable state of the model of src/fiber_semaphore.c running on the real fiber_manager.c wait/wake "
            "code (T1 machine; MPMC waiter queue atomic by C13), for all initial values >= 0, any number of fibers, programs and schedules: no "
            "over-admission (succeeded <= init + posts begun), exact counter equation, trywait never blocks and succeeds only by its own CAS from a "
            "positive value, a blocked waiter with units available implies a post in progress, value at quiescence. Tied to /repo on every run by "
            "per-access trace comparison of the instrumented fiber_semaphore.c + fiber_manager.c + fiber.c with the extracted model; the MPMC waiter "
            "queue (include/mpmc_fifo.h over hazard pointers), which the semaphore model takes as atomic, is discharged as a layer on every run "
            "(its theorems, its own lock-step correspondence and store-buffer pass). Because the T1 machine has no migration between kernel threads, every run also executes whole-runtime (T2) programs of this primitive's own operations on the real scheduler with work stealing (kernel acceptor of C01 + whole-runtime monitor incl. result codes of the lock sections) and checks the stale-manager source obligation (tools/lint/stale_manager.py).",
            "Trusts: Coq kernel; extraction + driver; rt/rt.c, rt/t1.c (context switch, run queues, event layer replaced: given C01 and C02); MPMC queue "
            "operations atomic (C13); SC interleaving; -O0 build.",
            "DESIGN.md 6 C06, 12.1"),
    "C15": ("Coq invariants + ghost push/pop logs over access-granularity models of the three queues; lock-step trace correspondence",
            "Machine-checked theorems over every reachable state of executable models of mpsc_fifo.h, spsc_fifo.h and mpsc_relaxed_fifo.h (any number "
            "of producers, one consumer, any programs respecting node ownership, any schedule): returned values are exactly a prefix of the pushed "
            "values in tail-exchange order (per queue for the relaxed MPSC), per-producer program order, only pushed values are returned, NULL only "
            "when empty or the oldest push has not linked, the returned node is unreachable from the queue, the relaxed queue reports NULL only after "
            "a NULL visit of every sub-queue. Tied to /repo on every run by per-access trace comparison of the three headers with the extracted models.",
            "Trusts: Coq kernel; extraction + driver; rt/rt.c + gcc TSan instrumentation; SC interleaving (the plain volatile accesses of mpsc_fifo are a "
            "formal C11 race outside the model); -O0 build; single-consumer discipline; round-robin counter below 2^64 (cases whose real cursor crosses 2^16/2^31/2^32 run with a debiased "
            "cursor against the model started at 0).",
            "DESIGN.md 6 C15"),
    "C20": ("Coq invariants + sequential-replay histories over access-granularity models of the four double-word-CAS structures; lock-step trace "
            "correspondence through the guarded DCAS hook",
            "Machine-checked theorems over every reachable state of executable models of mpmc_lifo.h, mpmc_stack.h, dist_fifo.h and the multi-waiter "
            "signal (any number of threads, any programs respecting node ownership, immediate adversarial node reuse, any schedule): a successful DCAS "
            "implies the snapshot it used was current (ABA safety), the history replays as a sequential stack / flush-all stack / FIFO / "
            "(waiters, raised) specification, every node is in exactly one place, a raise releases exactly one waiter or is remembered. Tied to /repo on "
            "every run by per-access trace comparison (the cmpxchg16b is a scheduling point through the LIBFIBER_VERIF hook) incl. ABA recycle schedules.",
            "Trusts: Coq kernel; extraction + driver; rt/rt.c + DCAS hook; SC interleaving; -O0 build; fewer than 2^64 updates between a counter load "
            "and its DCAS; in the lock-step model multi-signal waits run on a thread-with-sleep abstraction (given C01/C02); putting the waiter to "
            "sleep, waking it and giving its queue node back with REAL fibers is judged on the whole runtime (T2 layer: wait must not return without "
            "a raise; every waiter resumed once, from a saved context).",
            "DESIGN.md 6 C20"),
    "C08": ("translator (shim shapes regenerated from fiber_io.c) + Coq theorems over the generated table and a model of the retry loops with the "
            "kernel as an oracle + differential run of the real shims against libc + model replay on recorded real-call results",
            "Partial by nature (the kernel's behaviour is an oracle). Proved in Coq for all descriptor values, argument values and oracle behaviours: the "
            "value a shim returns is that of its last real call and every earlier one failed with EAGAIN; blocking-mode descriptors never return EAGAIN; "
            "non-blocking mode / MSG_DONTWAIT never waits; no out-of-range index of the per-fd tables and an error return for invalid descriptors; every "
            "registered fd waiter is woken by readiness or close. The hypotheses about the code (loop shapes, should_block mask, bounds checks, fcntl mode "
            "tracking, fresh errno) are match lemmas computed on a table REGENERATED FROM THE SOURCE on every run (a `_fails` lemma is a violation). "
            "The real shims are additionally run against plain libc on scripts (pipes, socketpairs, TCP loopback, transfers up to 4x the socket buffer, "
            "mode switches, many waiters per fd, close with waiters, bad descriptors) and the model is replayed on the recorded real-call results.",
            "Outside the model: what the kernel returns, epoll readiness, kernel-returned fds assumed < max_fd, connect's single wait, lock ordering of "
            "fd waits (belongs to C01), int truncation of ssize_t, Solaris/libev back-ends. Trusts: Coq kernel, tools/gen/gen_shims.py (aborts on "
            "unrecognised shapes), extraction + driver, rt/h_io.c.",
            "DESIGN.md 6 C08, 12.3"),
    "C09": ("translator (tick expression + wrappers -> SleepGen.v) + Coq theorems over a tree model, the typed arithmetic and a time-base model + "
            "differential run of the extern tree functions + virtual-time scenarios on the real runtime",
            "Proved in Coq: the sleepers tree (insert/remove_less_than) keeps the BST invariant and removes exactly the nodes below the bound, each once, in "
            "order; the tick arithmetic (generated from the source, evaluated with C types) covers the requested duration for every input once widened "
            "to 64 bits; with the timer read under the sleep lock a sleeper is never woken before its deadline and no wake-up is lost; each sleeper is "
            "scheduled exactly once when the chain walk reads `next` before scheduling. The pre-repair behaviours are kept as `_refuted` theorems with "
            "witnesses. Tie: match lemma on the regenerated expression ASTs, differential run of waiter_insert/waiter_remove_less_than against the "
            "extracted model, and deterministic virtual-time scenarios (timerfd replaced by an eventfd the harness advances) on the real runtime; a whole-runtime "
            "layer (T2 machine with virtual time: sleep-heavy programs, the first blocking call of the main fiber a sleep) judges 'resumed exactly "
            "once, never before the suspension completed' under stealing.",
            "Partial: kernel timerfd/epoll behaviour and the relation of ticks to real time are outside the model; when a woken sleeper actually runs is "
            "C01/C10. Trusts: Coq kernel, tools/gen/gen_sleep.py, extraction + driver, rt/h_sleep.c.",
            "DESIGN.md 6 C09, 12.3"),
    "C19": ("translator (the asm template of fiber_context_swap and the pushes of fiber_context_init -> coq/gen/CtxGen.v, regenerated every run) + Coq "
            "symbolic execution of the generated code + differential run of the compiled switch",
            "The Coq model of the context switch IS the generated instruction list: the theorems (round trip for all register files and memories, "
            "composition over any switch sequence among any set of contexts with disjoint stacks, entry into a fresh context with the argument in rdi "
            "and SysV stack alignment, exact set of registers written vs. declared) are re-proved against what the source says on every run. The compiled "
            "fiber_context_swap/init are run differentially (register files planted by an assembly trampoline, chains of 2-5 contexts, three stack "
            "strategies, malloc/mmap/splitstack balance per create/destroy) and compared with the extracted interpreter. That the RUNTIME only swaps "
            "into contexts whose saving swap has completed is judged on the whole runtime (T2 layer: every switch target is a saved context).",
            "Partial: ucontext back-end and split-stack internals only through the differential oracle; i386 not covered; stack released exactly once is "
            "checked by allocation accounting, not proved; the undeclared clobbers (rax, rcx, rdi) are sound only because the asm ends an out-of-line "
            "function (assumption). Trusts: Coq kernel, tools/gen/gen_ctx.py (aborts on unrecognised instructions), the 9-instruction ISA semantics "
            "of coq/CtxIsa.v, extraction + driver, rt/h_ctx.c.",
            "DESIGN.md 6 C19"),
    "C13": ("Coq invariant (queue shape + hazard-pointer layer) with ghost logs and allocation generations over an access-granularity model; "
            "lock-step trace correspondence with eager node recycling",
            "Machine-checked theorems over every reachable state of an executable model of mpmc_fifo.h on top of the hazard-pointer scan (any "
            "number of pushers/poppers, any programs, any schedule, nodes recycled as soon as a scan reclaims them): popped values are a prefix of "
            "pushed values in tail-CAS order, the pop whose head CAS succeeds returns the oldest value, NULL only when empty or the oldest push is "
            "between its tail CAS and its link write, no field access touches a reclaimed node, the head CAS cannot succeed on a recycled head. "
            "Tied to /repo on every run by per-access trace comparison of mpmc_fifo.h + hazard_pointer.c with the extracted model.",
            "Trusts: Coq kernel; extraction + driver; rt/rt.c + gcc TSan instrumentation; SC interleaving for the lock-step (store_load_barrier is invisible to it: the "
            "hazard-pointer layer incl. its x86-TSO theorem (HazardTSO.v) and store-buffer runs of the real queue are discharged on every run); qsort = any sorted permutation (Section hypothesis); -O0 build.",
            "DESIGN.md 6 C13, Appendix B"),
    "C14": ("Coq invariants over an access-granularity model of hazard_pointer.c incl. scan and binary search; lock-step trace correspondence + "
            "probe-by-probe differential test of binary_search",
            "Machine-checked theorems over every reachable state (any K >= 1, any number of records joining at any time, any programs and schedules): "
            "a node with a published-and-validated protection is never handed to the reclamation callback, scans reclaim exactly the retired nodes "
            "absent from their snapshot (each once), binary search correct on every sorted haystack with all probe indices in range, the snapshot "
            "array is never overrun while records register, retired_count <= 2*N*K always and <= N*K after a scan, threshold bounds (the exact "
            "R = 2NK claim of the header comment is refuted during joins: a documented, safe deviation). The publish / full fence / re-validate protocol "
            "is proved on an x86-TSO store-buffer machine (coq/HazardTSO.v: safe with the fence, an 11-step use-after-free without it, and the fence "
            "invisible to every sequentially consistent model). The client built on it (mpmc_fifo.h) is discharged as a layer (theorems + lock-step "
            "+ reclaimed-node oracle). Tied to /repo by per-access lock-step, by the shape obligations on hazard_pointer_using / store_load_barrier, "
            "and by store-buffer (x86-TSO) runs of the real queue over the real hazard_pointer.c on every run.",
            "Trusts: Coq kernel; extraction + driver; rt/rt.c (incl. its store-buffer mode and the guarded verif_fence hook); SC interleaving for the "
            "lock-step; the TSO runs are a search, the TSO theorem is about a hand-written protocol model tied to the source by shape only; qsort "
            "returns a sorted permutation (Section hypothesis, discharged for the model's insertion sort); -O0 build.",
            "DESIGN.md 6 C14"),
    "C01": ("Coq invariant (21 clauses) over a labelled protocol machine of the runtime + trace acceptance: the extracted machine must accept the "
            "protocol-event sequence of every real execution of the WHOLE runtime under a deterministic scheduler; implementation-side monitor",
            "Machine-checked theorems over every reachable state of coq/Kernel.v (any number of kernel threads and fibers, any event sequence the "
            "protocol enables): the current fiber of a thread is live exactly there and no fiber is current on two threads; a context switch never "
            "targets a fiber whose suspension has not completed (a fiber woken before its switch is SAVING and cannot be handed out); a fiber is "
            "reclaimed only when DONE, saved, unqueued and unreferenced, once, and never touched afterwards; plus the C02 runtime facts. The machine's "
            "enabling conditions are only what the code enforces (control flow, container semantics); the safety facts are theorems. Tie: all of "
            "src/*.c (real assembly switch, deques, managers, mutex/cond/semaphore/join) runs with its kernel threads under the baton scheduler; the "
            "guarded event hooks give create/schedule/next/steal/switch/resumed/destroy + state-word and slot accesses; every event must be enabled in "
            "the extracted machine (a rejected event is a correspondence failure) and a direct C01/C02 monitor judges the same runs.",
            "Trace inclusion is checked on the explored runs (seeded random programs x kernel-thread schedules + corpus), not proved. Abstractions "
            "(all over-approximate what wakers may do): one bag for all run queues; wait objects as availability of entries (P1 at the SAVING mark, "
            "P2/P3 at the start of the successor's maintenance); an entry is obtained by one waker (C13/C15/C03/C18). The T2 programs include "
            "sleeps (virtual time: the timerfd is an eventfd advanced per idle poll), descriptor waits woken by close, channels, joins and detaches; "
            "the monitor also requires a run queue to be pushed/popped only by its owner and a finished fiber to be reclaimed by its successor's "
            "maintenance; a source lint (tools/lint/stale_manager.py) is an obligation: no pointer to the calling kernel thread's manager is used "
            "across a call that may migrate the fiber. Trusts: Coq kernel, extraction + driver, rt/rt.c + rt/t2.c, the label decoder in C01.py, the /repo hooks.",
            "DESIGN.md 6 C01, 12.1, Appendix A"),
    "C03": ("Coq invariant + ghost ownership machine (with erasure theorem) over the T1K stack-machine model of fiber_mutex.c and fiber_manager.c's "
            "wait/wake code; lock-step trace correspondence on the T1 machine",
            "Machine-checked theorems over every reachable state (any number of fibers, any lock/trylock/unlock programs, any schedule, incl. an "
            "unlock landing between a contender's decrement and each step of its enqueue and before/after its switch): at most one owner and a "
            "trylock CAS succeeds only with no owner and no announced waiter; counter = 1 - owners - announced; the value read back in the critical "
            "section is the owner's own write; a contended unlock pops exactly one waiter and wakes exactly that fiber, which owns the mutex from the "
            "pop on; announced waiter and no owner implies an unlocker in its pop loop; at quiescence nobody sleeps on a free mutex. Tied to /repo on "
            "every run by per-access trace comparison of the instrumented fiber_mutex.c + fiber_manager.c + fiber.c with the extracted model. Because the T1 machine has no migration between kernel threads, every run also executes whole-runtime (T2) programs of this primitive's own operations on the real scheduler with work stealing (kernel acceptor of C01 + whole-runtime monitor incl. result codes of the lock sections) and checks the stale-manager source obligation (tools/lint/stale_manager.py).",
            "Trusts: Coq kernel; extraction + driver; rt/rt.c, rt/t1.c (context switch, run queues, event layer replaced: given C01 and C02); SC "
            "interleaving; -O0 build; programs unlock only what they hold. Counter states beyond what a harness can populate (32767..65537 and 2^31-2 "
            "announced waiters) are injected as states (reachable by mutex_counter_inv) for the non-blocking operations only (rt/h_init.c), which also "
            "checks fiber_mutex_init on dirty memory.",
            "DESIGN.md 6 C03, 12.1"),
    "C05": ("Coq invariants over per-thread phases of the T1K model with client Cond.v (user mutex, internal mutex, waiter count, waiter list) + ghost "
            "counters with erasure; lock-step trace correspondence on the T1 machine",
            "Machine-checked theorems over every reachable state (any number of waiters, signallers, broadcasters, with or without the user mutex, any "
            "schedule): waiter_count = registered - claimed - transient; released <= claimed and every release stems from one claim; a signal that "
            "sees >= 1 registered waiter releases exactly one before it returns and a broadcast exactly the number registered at its exchange; when "
            "the user mutex is released on behalf of a waiter the waiter is already registered (atomic unlock-and-wait); cond_wait returns only as the "
            "unique holder of the user mutex; one consumer per waiter list. Tied to /repo by per-access lock-step of fiber_cond.c + fiber_mutex.c + "
            "fiber_manager.c + fiber.c. Because the T1 machine has no migration between kernel threads, every run also executes whole-runtime (T2) programs of this primitive's own operations on the real scheduler with work stealing (kernel acceptor of C01 + whole-runtime monitor incl. result codes of the lock sections) and checks the stale-manager source obligation (tools/lint/stale_manager.py).",
            "Trusts: Coq kernel; extraction + driver; rt/rt.c, rt/t1.c (given C01 and C02); SC interleaving; -O0 build. The yield inside the deferred "
            "unlock is modelled client-side (Cond.kstepC) because T1K models it as the sleeper's own yield.",
            "DESIGN.md 6 C05, 12.1"),
    "C11": ("Coq invariants + ghost logs over the T1K-based channel machine (signal, unbounded MPSC/SPSC channels, bounded channel) and the multi-channel "
            "client; abstract attempt-level protocol for the multi-channel wake-up argument; lock-step trace correspondence on the T1 machine",
            "Machine-checked theorems over every reachable state: signal — the word is NO_WAITER/RAISED/the single waiter, a raise racing a wait is seen "
            "or remembered, the raiser schedules the waiter only after its maintenance set the marker; unbounded and bounded channels — received "
            "sequence is a prefix of the send order (tail-exchange / high-CAS order), per-sender order, capacity and no overwrite, a receiver on its "
            "way to sleep with a message linked has a committed raiser; multi channel (the repaired two-list code) — mutual exclusion of the channel lock (including the deferred "
            "unlock by the successor's maintenance), hence capacity and exactly-once in order unconditionally (Properties_C11_excl.v); "
            "no stranded sender/receiver for arbitrary programs, any number of fibers and any capacity, proved on the access-level model itself (wake-credit invariant, Properties_C11_ref.v; when nobody can run every unfinished fiber is a sender blocked on a full or a receiver blocked on an empty channel, none is left in the mutex queue). The pre-repair one-list protocol is kept as a refuted regression witness. Tied to /repo by "
            "per-access lock-step of fiber_signal.h, fiber_channel.h, fiber_multi_channel.h + fiber_manager.c on five harness/model pairs.",
            "Partial: the "
            "single-producer channel is lock-step + monitor only. Trusts: Coq kernel; extraction + driver; rt/rt.c, rt/t1.c (given C01, C02); SC "
            "interleaving; single-waiter discipline of signals as a hypothesis on programs.",
            "DESIGN.md 6 C11, 12.3"),
    "C04": ("Coq invariant over the T1K model with client Join.v (detach_state exchanges, join_info mailbox, result slots, done_fiber reclamation) + "
            "refutation witnesses for the residual races; lock-step trace correspondence on the T1 machine with quarantined frees",
            "Machine-checked over every reachable state (one target, any number of joiner/try-joiner/detacher fibers, any programs, any schedule, either "
            "side arriving first or mid context-switch): every successful join/tryjoin returns after the target's result store and yields exactly that "
            "value, under the single hypothesis that excludes known finding F-C04c; at most one success under the same hypothesis; a join/tryjoin that "
            "starts after a completed detach fails; the target is reclaimed at most once, only when DONE with its result stored and joined or detached. "
            "The residual races of the join protocol are machine-checked refutations with witnesses that replay on the real code and are listed as "
            "known findings F-C04b (operation overlapping the release touches the freed fiber), F-C04c (second join takes the sleeping joiner), F-C04d "
            "(join overwrites DETACHED), F-C04e (detach and finishing target both consume join_info). F-C04a was repaired (4ff1f32). Tied to /repo by "
            "per-access lock-step of fiber.c + fiber_manager.c (T1 machine; stack and queue-node release observed as monitor-only events) and by a "
            "whole-runtime reclaim layer (T2 machine: join/detach-heavy programs; destroy events, quarantined control blocks, the successor's "
            "maintenance must reclaim a finished predecessor, join results) plus the stale-manager source lint.",
            "Partial: the positive statement 'nothing touches the fiber after reclaim when handles are used by one client at a time' is only proved in a "
            "weaker form (after the free the target never runs again and no waker is mid-sequence on it) and otherwise covered by the monitor. Trusts: "
            "Coq kernel; extraction + driver; rt/rt.c, rt/t1.c (given C01/C02); free() of the target replaced by a quarantine event; SC; -O0.",
            "DESIGN.md 6 C04, 12.3, 12.6"),
    "C07": ("Coq invariant over the T1K model with client Rwlock.v (packed 64-bit word as four 21-bit fields, two waiter lists) with an existential ghost "
            "role assignment; lock-step trace correspondence on the T1 machine",
            "Machine-checked over every reachable state (any mix of rdlock/wrlock/tryrdlock/trywrlock/unlock programs, any schedule, fewer than 2^21 "
            "participants as the header states): a writer in its critical section excludes every other writer and every reader; the four fields equal the "
            "counts of owners/handed/waiting fibers; a releasing CAS that leaves waiters transfers ownership in that CAS to exactly one waiting writer or "
            "to all waiting readers and then wakes exactly that many; nobody blocked on a lock that nobody owns or has been handed; try variants contain no "
            "wait and succeed only when legal; one consumer across both waiter lists; pack/unpack round trip and no carry between fields. Tied to /repo by "
            "per-access lock-step of fiber_rwlock.c + fiber_manager.c. Because the T1 machine has no migration between kernel threads, every run also executes whole-runtime (T2) programs of this primitive's own operations on the real scheduler with work stealing (kernel acceptor of C01 + whole-runtime monitor incl. result codes of the lock sections) and checks the stale-manager source obligation (tools/lint/stale_manager.py).",
            "Trusts: Coq kernel; extraction + driver; rt/rt.c, rt/t1.c (given C01/C02); SC; -O0. Word values >= 2^40 print opaquely in the trace (both "
            "sides), the monitor reconstructs the counts from the events. Beyond 2^21 participants the fields wrap (rw_overflow_refuted; documented limit).",
            "DESIGN.md 6 C07"),
    "C12": ("Coq invariant (BarrierInv.v) over the T1K model with client Barrier.v (two waiter lists by round parity); lock-step trace correspondence on "
            "the T1 machine",
            "Machine-checked over every reachable state of the repaired protocol (exactly `count` fibers, any count >= 1, any number of consecutive rounds, "
            "any schedule): no fiber returns from its k-th wait before count fibers entered their k-th wait; exactly one serial fiber per round; at most "
            "one fiber in any pop loop; at quiescence every fiber returned from every round. The original one-list protocol is kept as a refuted "
            "regression (barrier_round_safety_one_list_refuted); more participants than count is outside the property's setting and documented "
            "(barrier_more_participants_refuted). Tied to /repo by per-access lock-step of fiber_barrier.c + fiber_manager.c.",
            "Trusts: Coq kernel; extraction + driver; rt/rt.c, rt/t1.c (given C01/C02); SC; -O0.",
            "DESIGN.md 6 C12, 12.3"),
    "C10": ("Coq invariants (conservation + bypass potential with a ghost bypass counter, erasure proved) over an access-granularity model of "
            "fiber_scheduler_wsd.c with atomic deques; lock-step trace correspondence",
            "Machine-checked over every reachable state of the scheduler model. One kernel thread (any program of spawn/yield/block/wake/idle/balance/"
            "park-saving/flip, any length): every existing fiber is in exactly one place and at most N exist; a READY queued fiber is bypassed at most "
            "2(N-1) times before `next` hands it out, independently of how long the others keep yielding (so a yield-polling loop cannot starve the "
            "fiber it waits for). N kernel threads, every interleaving (coq/SchedNProofs.v): conservation (each runnable fiber in exactly one place "
            "of one thread; steals and load-balancing preserve it), only the owner adds to its deques, a stolen fiber is the thief's next hand-out or "
            "at the head of its queue, and the per-thread bypass bound 2(n_t-1) + (number of fibers the thread itself stole and pushed in front "
            "meanwhile); the bound without that allowance is machine-checked FALSE with a witness replayed on the real code (the harness lets a "
            "fiber call load_balance at any time; the runtime only does so after an empty `next`, where the allowance is 0); "
            "the originally pinned code (schedule() pushing on the deque being drained) is kept as a refuted regression incl. the unbounded (for every "
            "k) starvation. Tied to /repo by per-access lock-step of fiber_scheduler_wsd.c + work_stealing_deque.c (1-4 kernel threads) and a "
            "bypass/conservation monitor on the real scheduler code.",
            "The scheduler as the RUNTIME drives it (fiber_manager_yield, the wake-up paths of the blocking primitives), which the "
            "harness reproduces by hand, is judged on the whole runtime with one kernel thread (bypass oracle on schedule/hand-out events, bound "
            "2(n-1)). Queue lengths beyond the 32 fibers of the model (thresholds and caps a change may introduce) are exercised monitor-only (BIG cases: up to "
            "1030 ready fibers, run queues started with 4-entry arrays). Trusts: Coq kernel; extraction + driver; rt/rt.c; deque operations atomic (C02 deque theorems); rt/h_sched.c reproduces the "
            "scheduler-visible actions of fiber_manager_yield/switch_to/do_maintenance by hand (the manager itself is checked on T1/T2).",
            "DESIGN.md 6 C10, 12.3"),
}

NOT_YET = "model and proof not built yet in this development (see DESIGN.md 6 for the plan); not claimed until a check exists"


# late additions (DESIGN.md 12.5 round 6): appended to the claim texts
EXTRA = {
    "C03": "Thorough tier: patience of the shared spin-until loop (fiber_manager_wake_from_mpsc_queue, count == 1): the announced waiter is "
           "stopped for 5 million steps of the unlocker (1.25 million loop iterations) and must still be handed the mutex.",
    "C06": "rt/h_init.c also runs the real post natively from the reachable state 'one waiter announced, queue still empty' with a queue stub "
           "that shows the waiter only at look K+1 (K up to 2^22): the post must wait it out (patience of the retry loop).",
    "C07": "rt/h_init.c injects word states that rw_word_inv characterises as reachable (n readers; writer + n waiting; n around the powers of "
           "two inside the 21-bit fields) and runs the real try-operations, unlocks and the blocking calls' decision to wait on them.",
    "C09": "Scenario e of rt/h_sleep.c: 20000-28000 fibers asleep at once sharing one wake tick (more than the unit suite ever has), each must "
           "return exactly once and not early.",
    "C10": "The whole-runtime fairness layer also runs joins followed by yield-polling on 3-4 kernel threads; the runtime monitor checks the "
           "fiber state word as a protocol (only the thread a fiber runs on turns RUNNING into READY).",
    "C11": "Because the T1 machine has no migration and no descriptor waits, every run also executes whole-runtime (T2) programs of channel "
           "sends/receives and multi-signal waits mixed with the other kinds of suspension (descriptor wait ended by close, sleep, join), "
           "judged by the kernel acceptor's monitor.",
    "C12": "The harness object is built by the real fiber_barrier_init on 0x5a-filled memory (only the queue stub nodes are replaced). "
           "Thorough tier: a participant that has arrived but not enqueued is stopped for 5 million steps of the serial fiber (general "
           "path of the shared wake loop) and must still be released.",
    "C16": "Case families include counters crossing 2^16/2^31/2^32/2^33 and a claim stalled across a lap of the ring.",
    "C19": "The whole-runtime layer also runs mixed-suspension programs (what one kind of wait leaves in the fiber is what the next starts from).",
}
for _k, _v in EXTRA.items():
    _t = CLAIMED[_k]
    CLAIMED[_k] = (_t[0], _t[1] + " " + _v) + tuple(_t[2:])


def main():
    props = [json.loads(l) for l in open(os.path.join(V, "properties.jsonl"))]
    checks, na = [], []
    for p in props:
        i = p["id"]
        if i in CLAIMED:
            tech, text, note, ref = CLAIMED[i]
            checks.append({
                "property_id": i,
                "quick_cmd": "./check %s quick" % i,
                "thorough_cmd": "./check %s thorough" % i,
                "evidence_file": "evidence/%s.json" % i,
                "replay_cmd_template": "./check %s --replay {path}" % i,
                "engine": "coq+lockstep",
                "level_claimed": {"category": "proof", "text": text, "design_ref": ref},
                "level_note": note,
                "technique": tech,
            })
        else:
            na.append({"property_id": i, "reason": NA_REASON.get(i, NOT_YET)})
    hooks_commits = []
    try:
        out = subprocess.check_output(["git", "-C", "/repo", "log", "--format=%H %s"]).decode()
        hooks_commits = [l.split()[0] for l in out.splitlines() if " verif-hook:" in l or l.split(" ", 1)[1].startswith("hook:")]
    except Exception:
        pass
    m = {
        "version": 1,
        "setup_cmd": "./setup.sh",
        "hooks": {
            "guard": "LIBFIBER_VERIF",
            "enable": "checks compile the files under test themselves with gcc -O0 -fsanitize=thread -DNDEBUG -DLIBFIBER_VERIF "
                      "(instrumentation hooks resolved by /verif/rt/rt.c, never libtsan) into a scratch dir outside /repo",
            "baseline_off_cmd": "cd /repo && cmake -G Ninja -B _build -DCMAKE_BUILD_TYPE=RelWithDebInfo -DCMAKE_C_FLAGS=-Wno-error "
                                "-DFIBER_RUN_TESTS_WITH_BUILD=OFF && cmake --build _build && ctest --test-dir _build -j8 --timeout 900",
            "source_commits": hooks_commits,
            "add_only": True,
        },
        "engines": [
            {"name": "coq+lockstep", "path": "check",
             "serves_properties": sorted(CLAIMED),
             "kind_free_text": "Coq 8.16 proofs over executable Gallina models (coq/), extracted to OCaml and compared "
                               "step-for-access with the instrumented implementation under a deterministic scheduler (rt/)"},
        ],
        "checks": checks,
        "not_applicable": na,
        "notes": "See DESIGN.md. Known findings: known_findings.json. Seeded changes used to validate the checks: seeded/.",
    }
    with open(os.path.join(V, "MANIFEST.json"), "w") as f:
        json.dump(m, f, indent=1)
    try:
        import jsonschema
        jsonschema.validate(m, json.load(open("/root/.vp/MANIFEST.schema.json")))
        print("MANIFEST.json valid: %d checks, %d not_applicable" % (len(checks), len(na)))
    except ImportError:
        print("MANIFEST.json written (jsonschema not available here)")


NA_REASON = {}

if __name__ == "__main__":
    main()
