#!/bin/sh
# usage: tools/validate_seed.sh <id> [worktree]   -- my own confirmation of a seeded change:
#  (1) pristine tree: demo passes; (2) with patch: suite passes, demo fails; then stores it under /verif/seeded/<id>/
id=$1; wt=${2:-/tmp/seed/$id}; out=$wt/seeded_out
cd "$wt" || exit 2
git checkout -q -- src include 2>/dev/null
rm -rf _b; cmake -G Ninja -S . -B _b -DCMAKE_BUILD_TYPE=RelWithDebInfo -DCMAKE_C_FLAGS=-Wno-error -DFIBER_RUN_TESTS_WITH_BUILD=OFF >/dev/null 2>&1 && cmake --build _b >/dev/null 2>&1
echo "== pristine demo"; sh "$out/run_demo.sh" > "$out/demo_pristine.log" 2>&1; p=$?; tail -2 "$out/demo_pristine.log"; echo "exit=$p"
git apply "$out/patch.diff" || { echo "patch does not apply"; exit 2; }
echo "== suite with the change"
rm -rf _b; cmake -G Ninja -S . -B _b -DCMAKE_BUILD_TYPE=RelWithDebInfo -DCMAKE_C_FLAGS=-Wno-error -DFIBER_RUN_TESTS_WITH_BUILD=OFF >/dev/null 2>&1 && cmake --build _b >/dev/null 2>&1
ctest --test-dir _b -j8 --timeout 900 2>&1 | grep -E "tests passed|Failed|\*\*\*" | head -5
echo "== demo with the change"; sh "$out/run_demo.sh" > "$out/demo_mutant.log" 2>&1; m=$?; tail -2 "$out/demo_mutant.log"; echo "exit=$m"
rm -rf _b
git checkout -q -- src include
if [ "$p" = 0 ] && [ "$m" != 0 ]; then echo "CONFIRMED"; else echo "NOT CONFIRMED (pristine=$p mutant=$m)"; fi
