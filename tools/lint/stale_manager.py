#!/usr/bin/env python3
"""Source lint for C01: a pointer to the calling kernel thread's fiber_manager_t must not be used after a call that may
switch the fiber to another kernel thread, unless it has been fetched again with fiber_manager_get().

The runtime keeps per-kernel-thread state in fiber_manager_t (current fiber, deferred-action slots, run queue).  Every
call that may context-switch (yield, any blocking wait, a contended unlock that yields, completion) can resume the
fiber on ANOTHER kernel thread (work stealing, wake-up by a waker's thread); a manager pointer obtained before is then
the wrong thread's.  Using it resumes/schedules/consumes on behalf of a thread the fiber is not running on: the defect
class of F-C01 and of three seeded changes.  This lint is a syntactic over-approximation per function body:
statements are scanned in textual order (loop bodies twice), a variable is FRESH after `v = fiber_manager_get()` (or
at its declaration from that call, or as the `manager` parameter at entry) and STALE after any statement containing a
may-switch call; a STALE variable occurring in a later statement (other than as the target of a re-fetch) is reported.

usage: stale_manager.py [repo_root]   -> prints one line per finding, exit status 1 if any"""
import os, re, sys

REPO = sys.argv[1] if len(sys.argv) > 1 else os.environ.get("VERIF_REPO", "/repo")
FILES = ["src/fiber_manager.c", "src/fiber.c", "src/fiber_mutex.c", "src/fiber_cond.c", "src/fiber_semaphore.c",
         "src/fiber_rwlock.c", "src/fiber_barrier.c", "src/fiber_event_native.c", "src/fiber_io.c",
         "include/fiber_signal.h", "include/fiber_channel.h", "include/fiber_multi_channel.h"]
MAY_SWITCH = ["fiber_manager_yield", "fiber_yield", "fiber_manager_wait_in_mpsc_queue", "fiber_manager_wait_in_mpsc_queue_and_unlock",
              "fiber_manager_wait_in_mpmc_queue", "fiber_manager_set_and_wait", "fiber_manager_clear_or_wait",
              "fiber_manager_wake_from_mpsc_queue", "fiber_manager_wake_from_mpmc_queue",
              "fiber_mutex_lock", "fiber_mutex_unlock", "fiber_mutex_unlock_internal", "fiber_cond_wait", "fiber_cond_signal",
              "fiber_cond_broadcast", "fiber_semaphore_wait", "fiber_semaphore_post", "fiber_semaphore_post_internal",
              "fiber_rwlock_rdlock", "fiber_rwlock_wrlock", "fiber_rwlock_rdunlock", "fiber_rwlock_wrunlock", "fiber_barrier_wait",
              "fiber_mark_completed", "fiber_join", "fiber_sleep", "fiber_wait_for_event", "fiber_signal_wait",
              "fiber_multi_signal_wait", "fiber_manager_switch_to", "fiber_context_swap", "fiber_manager_do_maintenance",
              "fiber_multi_channel_internal_wait"]
SW = re.compile(r"\b(" + "|".join(MAY_SWITCH) + r")\s*\(")


def strip_comments(t):
    t = re.sub(r"/\*.*?\*/", lambda m: re.sub(r"[^\n]", " ", m.group(0)), t, flags=re.S)
    return re.sub(r"//[^\n]*", "", t)


def functions(text):
    """(name, params, body, line of body start) for every function definition"""
    out = []
    for m in re.finditer(r"\n[A-Za-z_][^\n;{}()]*?\b([A-Za-z_0-9]+)\s*\(([^;{}]*?)\)\s*\{", text):
        i = m.end()
        depth, j = 1, i
        while j < len(text) and depth:
            depth += {"{": 1, "}": -1}.get(text[j], 0)
            j += 1
        out.append((m.group(1), m.group(2), text[i:j - 1], text.count("\n", 0, i) + 1))
    return out


class P:
    """structured statements of a function body: ('simple', text, line) | ('block', [..]) | ('if', cond, line, then, else|None)
    | ('loop', head_text, line, body, is_do) | ('break',) | ('continue',) | ('return', text, line) | ('switch', text, line, body)"""

    def __init__(self, text, line0):
        self.t, self.i, self.line = text, 0, line0

    def ws(self):
        while self.i < len(self.t) and self.t[self.i] in " \t\r\n":
            if self.t[self.i] == "\n":
                self.line += 1
            self.i += 1

    def paren(self):
        """text of a parenthesised group starting at self.i == '('"""
        assert self.t[self.i] == "("
        d, k = 0, self.i
        while True:
            c = self.t[k]
            if c == "\n":
                self.line += 1
            d += (c == "(") - (c == ")")
            k += 1
            if d == 0:
                break
        r = self.t[self.i:k]
        self.i = k
        return r

    def word(self, w):
        return self.t.startswith(w, self.i) and not (self.i + len(w) < len(self.t) and (self.t[self.i + len(w)].isalnum() or self.t[self.i + len(w)] == "_"))

    def stmt(self):
        self.ws()
        if self.i >= len(self.t):
            return None
        line = self.line
        if self.t[self.i] == "{":
            self.i += 1
            items = []
            while True:
                self.ws()
                if self.i >= len(self.t):
                    break
                if self.t[self.i] == "}":
                    self.i += 1
                    break
                x = self.stmt()
                if x is not None:
                    items.append(x)
            return ("block", items)
        for kw in ("if", "while", "for", "switch"):
            if self.word(kw):
                self.i += len(kw)
                self.ws()
                cond = self.paren()
                body = self.stmt()
                if kw == "if":
                    self.ws()
                    els = None
                    if self.word("else"):
                        self.i += 4
                        els = self.stmt()
                    return ("if", cond, line, body, els)
                if kw == "switch":
                    return ("switch", cond, line, body)
                return ("loop", cond, line, body, False)
        if self.word("do"):
            self.i += 2
            body = self.stmt()
            self.ws()
            assert self.word("while"), "do without while"
            self.i += 5
            self.ws()
            cond = self.paren()
            self.ws()
            if self.i < len(self.t) and self.t[self.i] == ";":
                self.i += 1
            return ("loop", cond, line, body, True)
        # simple statement up to ';' at paren depth 0 (labels 'case x:' / 'default:' are swallowed with their statement)
        d, k = 0, self.i
        while k < len(self.t):
            c = self.t[k]
            d += (c in "([{") - (c in ")]}")
            if c == ";" and d == 0:
                break
            k += 1
        text = self.t[self.i:k].strip()
        self.line += self.t.count("\n", self.i, k)
        self.i = k + 1
        text = re.sub(r"^(case\b[^:]*:|default\s*:)\s*", "", text)
        if re.match(r"^break$", text):
            return ("break",)
        if re.match(r"^continue$", text):
            return ("continue",)
        if re.match(r"^return\b", text):
            return ("return", text, line)
        return ("simple", text, line) if text else None


def lint_function(fname, name, params, body, line0):
    body = "\n".join("" if l.lstrip().startswith("#") else l for l in body.split("\n"))
    tree = P("{" + body + "}", line0).stmt()
    findings = []
    DECL = re.compile(r"^(?:fiber_manager_t\s*\*\s*(?:const\s+)?)?([A-Za-z_][A-Za-z_0-9]*)\s*=\s*fiber_manager_get\s*\(\s*\)$")

    def text_effect(st, line, state):
        """state = (fresh:set, stale:dict var->(callee,line)); returns new state"""
        fresh, stale = set(state[0]), dict(state[1])
        decl = DECL.match(st.strip())
        uses = set(v for v in stale if re.search(r"\b%s\b" % re.escape(v), st))
        if decl:
            uses.discard(decl.group(1))
        for v in sorted(uses):
            findings.append("%s:%d: in %s(): `%s` is used after `%s` (line %d) may have moved the fiber to another kernel "
                            "thread, without a new fiber_manager_get()" % (fname, line, name, v, stale[v][0], stale[v][1]))
            del stale[v]
        if decl:
            fresh.add(decl.group(1)); stale.pop(decl.group(1), None)
        m = SW.search(st)
        if m:
            for v in fresh:
                stale[v] = (m.group(1), line)
            fresh = set()
        return (fresh, stale)

    def join(a, b):
        if a is None:
            return b
        if b is None:
            return a
        st = dict(a[1]); st.update(b[1])
        return (set(a[0]) & set(b[0]) - set(st), st)

    def run(node, state):
        """returns (state after normal completion | None, state at break | None, state at continue | None)"""
        if node is None or state is None:
            return state, None, None
        k = node[0]
        if k == "simple":
            return text_effect(node[1], node[2], state), None, None
        if k == "return":
            text_effect(node[1], node[2], state)
            return None, None, None
        if k == "break":
            return None, state, None
        if k == "continue":
            return None, None, state
        if k == "block":
            brk = cont = None
            for x in node[1]:
                state, b, c = run(x, state)
                brk, cont = join(brk, b), join(cont, c)
                if state is None:
                    break
            return state, brk, cont
        if k == "if":
            s0 = text_effect(node[1], node[2], state)
            s1, b1, c1 = run(node[3], s0)
            s2, b2, c2 = run(node[4], s0) if node[4] is not None else (s0, None, None)
            return join(s1, s2), join(b1, b2), join(c1, c2)
        if k == "switch":
            s0 = text_effect(node[1], node[2], state)
            s1, b1, c1 = run(node[3], s0)
            return join(join(s1, b1), s0), None, c1
        if k == "loop":
            cond, line, body, is_do = node[1], node[2], node[3], node[4]
            out = None
            cur = state
            for _ in range(3):          # fixpoint in at most a few rounds (the lattice is tiny)
                if not is_do:
                    cur = text_effect(cond, line, cur)
                    out = join(out, cur)
                s1, b1, c1 = run(body, cur)
                out = join(out, b1)
                nxt = join(s1, c1)
                if is_do and nxt is not None:
                    nxt = text_effect(cond, line, nxt)
                    out = join(out, nxt)
                if nxt is None:
                    break
                cur = join(cur, nxt)
            return out, None, None
        return state, None, None

    fresh = set()
    if re.search(r"fiber_manager_t\s*\*\s*(const\s+)?manager\b", params):
        fresh.add("manager")
    run(tree, (fresh, {}))
    return findings


def main():
    allf = []
    for f in FILES:
        p = os.path.join(REPO, f)
        if not os.path.exists(p):
            continue
        text = "\n" + strip_comments(open(p).read())
        for (name, params, body, line0) in functions(text):
            allf += lint_function(f, name, params, body, line0 - 1)
    seen = set()
    for x in allf:
        if x not in seen:
            print(x); seen.add(x)
    return 1 if seen else 0


if __name__ == "__main__":
    sys.exit(main())
