#!/bin/sh
# runs every claimed check's quick (or $1) command on the unchanged tree and validates the evidence files
cd "$(dirname "$0")/.."
tier=${1:-quick}; shift
ids=${*:-$(python3 -c "import json;print(' '.join(c['property_id'] for c in json.load(open('MANIFEST.json'))['checks']))")}
fail=0
for id in $ids; do
  out=$(./check $id $tier 2>&1); rc=$?
  echo "$id rc=$rc $(echo "$out" | tail -1)"
  echo "$out" | grep -E "^VIOLATION|^KNOWN-FINDING" | cut -c1-160
  [ $rc -ne 0 ] && fail=1
done
python3-vt - <<'PY'
import json,jsonschema,glob
sch=json.load(open('/root/.vp/EVIDENCE.schema.json'))
m=json.load(open('/verif/MANIFEST.json'))
for c in m['checks']:
    f='/verif/'+c['evidence_file']
    try:
        e=json.load(open(f)); jsonschema.validate(e,sch)
        cov=e['coverage']
        ok = e['level']==c['level_claimed']['category'] and cov.get('obligations')==cov.get('discharged') and e.get('violations',0)==0
        print(c['property_id'], 'evidence ok' if ok else 'EVIDENCE PROBLEM: level=%s obligations=%s discharged=%s violations=%s'%(e['level'],cov.get('obligations'),cov.get('discharged'),e.get('violations')))
    except Exception as ex:
        print(c['property_id'],'EVIDENCE INVALID',str(ex)[:200])
PY
exit $fail
