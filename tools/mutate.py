#!/usr/bin/env python3
"""Mutation campaign over /repo's sources (my own, mechanical complement to the seeded changes of sub-agents).

  tools/mutate.py gen                      -> /root/scratch/mut/mutants.jsonl  (single-line mutants of the anchored files)
  tools/mutate.py suite [first [last]]     -> runs the unit suite on each mutant (sequential: test_io binds a fixed port);
                                              appends {"id", "suite": "pass"|"fail"|"nobuild"} to suite.jsonl
  tools/mutate.py checks [jobs]            -> for every mutant that passed the suite, runs the checks of the properties the
                                              file is anchored in (VERIF_REPO = a scratch copy); appends to checks.jsonl
  tools/mutate.py report                   -> table of survivors (suite passes AND no check fires) for manual triage

Nothing here is registered in MANIFEST.json; it is a development tool (results summarised in DESIGN.md 12.5b).
"""
import json, os, re, shutil, subprocess, sys, hashlib
from concurrent.futures import ThreadPoolExecutor

ROOT = os.environ.get("MUT_ROOT", "/root/scratch/mut")
SET2 = os.environ.get("MUT_SET") == "2"
REPO = "/repo"
FILES = {
    "src/fiber_manager.c": ["C01", "C03", "C05", "C06", "C04"],
    "src/fiber.c": ["C01", "C04"],
    "src/fiber_mutex.c": ["C03"],
    "src/fiber_cond.c": ["C05"],
    "src/fiber_semaphore.c": ["C06"],
    "src/fiber_rwlock.c": ["C07"],
    "src/fiber_io.c": ["C08", "C09"],
    "src/fiber_event_native.c": ["C08", "C09", "C01"],
    "src/fiber_scheduler_wsd.c": ["C10", "C02"],
    "src/work_stealing_deque.c": ["C02"],
    "src/fiber_barrier.c": ["C12"],
    "src/hazard_pointer.c": ["C14", "C13"],
    "src/fiber_context.c": ["C19"],
    "src/fiber_spinlock.c": ["C18"],
    "include/fiber_spinlock.h": ["C18"],
    "include/mpmc_fifo.h": ["C13"],
    "include/hazard_pointer.h": ["C14", "C13"],
    "include/mpsc_fifo.h": ["C15", "C03"],
    "include/spsc_fifo.h": ["C15"],
    "include/lockfree_ring_buffer.h": ["C16"],
    "include/lockfree_ring_buffer2.h": ["C16"],
    "include/work_queue.h": ["C17"],
    "include/mpmc_lifo.h": ["C20"],
    "include/mpmc_stack.h": ["C20"],
    "include/dist_fifo.h": ["C20"],
    "include/fiber_multi_signal.h": ["C20"],
    "include/fiber_signal.h": ["C11", "C20"],
    "include/fiber_channel.h": ["C11"],
    "include/fiber_bounded_channel.h": ["C11"],
    "include/fiber_multi_channel.h": ["C11"],
    "include/work_stealing_deque.h": ["C02"],
    "include/fiber_rwlock.h": ["C07"],
}
SKIP_LINE = re.compile(r"assert|printf|_count\b|_count \+|perror|abort\(|#|^\s*//|^\s*\*|^\s*/\*|typedef|extern|static inline|^\s*}|^\s*{|\bcase\b|default:|count \+= 1|statistic")
REL = [(r"(?<![<>=!\-])<(?![<=])", "<="), (r"(?<![<>=!])<=", "<"), (r"(?<![<>=!\-])>(?![>=])", ">="), (r"(?<![<>=!\-])>=", ">"),
       (r"==", "!="), (r"!=", "==")]
ARITH = [(r"\+ 1\b", "+ 0"), (r"- 1\b", "- 0"), (r"\+ 1\b", "+ 2"), (r"& 1\b", "& 3"), (r"\+= 1\b", "+= 2"), (r"-= 1\b", "-= 2")]
MO = [("memory_order_acquire", "memory_order_relaxed"), ("memory_order_release", "memory_order_relaxed"),
      ("memory_order_seq_cst", "memory_order_relaxed"), ("memory_order_acq_rel", "memory_order_relaxed")]
LOGIC = [(r"&&", "||"), (r"\|\|", "&&")]
SIMPLE_STMT = re.compile(r"^\s*[A-Za-z_\*\(][^;{}]*;\s*(//.*)?$")
DECL = re.compile(r"^\s*(const\s+|volatile\s+|unsigned\s+|struct\s+|static\s+)*[A-Za-z_][A-Za-z_0-9]*(\s*\*+\s*|\s+)(const\s+)?[A-Za-z_][A-Za-z_0-9]*\s*(=|;|\[)")


def in_function_bodies(lines):
    """indices of lines that are inside a function body (brace depth >= 1 after a line with '(' ... ')' '{')"""
    depth = 0
    body = []
    infunc = False
    hook = 0
    for i, l in enumerate(lines):
        # the guarded verification hooks are not part of the library under test
        if re.match(r"\s*#\s*if", l):
            if hook or "LIBFIBER_VERIF" in l:
                hook += 1
        elif re.match(r"\s*#\s*endif", l) and hook:
            hook -= 1
            continue
        if hook:
            continue
        code = l.split("//")[0]
        if depth == 0 and "{" in code and ")" in code and not code.strip().startswith(("typedef", "struct", "union", "enum")):
            infunc = True
        if depth >= 1 and infunc:
            body.append(i)
        depth += code.count("{") - code.count("}")
        if depth == 0:
            infunc = False
    return body


def gen():
    os.makedirs(ROOT, exist_ok=True)
    out = []
    for f, checks in FILES.items():
        p = os.path.join(REPO, f)
        if not os.path.exists(p):
            continue
        lines = open(p).read().split("\n")
        body = in_function_bodies(lines)
        for i in body:
            l = lines[i]
            if SKIP_LINE.search(l) or not l.strip():
                continue
            cands = []
            for (pat, rep) in REL + ARITH + LOGIC:
                for m in re.finditer(pat, l):
                    # not inside a '->' or a string or template
                    if '"' in l[:m.start()] and l[:m.start()].count('"') % 2 == 1:
                        continue
                    cands.append(("op:%s->%s" % (m.group(0), rep), l[:m.start()] + rep + l[m.end():]))
            for (a, b) in MO:
                if a in l:
                    cands.append(("mo:%s" % a, l.replace(a, b, 1)))
            if SIMPLE_STMT.match(l) and not DECL.match(l) and "return" not in l and "break" not in l and "goto" not in l \
                    and "continue" not in l:
                cands.append(("delete", ""))
                # swap with the next simple statement
                if i + 1 < len(lines) and SIMPLE_STMT.match(lines[i + 1]) and not DECL.match(lines[i + 1]) \
                        and "return" not in lines[i + 1] and not SKIP_LINE.search(lines[i + 1]):
                    cands.append(("swap-next", None))
            m = re.match(r"^(\s*)(if|while) \((.*)\) \{\s*$", l)
            if m and m.group(2) == "if":
                cands.append(("negate-if", "%sif (!(%s)) {" % (m.group(1), m.group(3))))
            if SET2:
                cands = []
                # (1) integer literals 0 <-> 1, n -> n+1 (not in array sizes / shifts of types)
                for m in re.finditer(r"(?<![A-Za-z_0-9.])(\d+)(?![A-Za-z_0-9.xX])", l):
                    v = int(m.group(1))
                    for nv in ({0: [1], 1: [0, 2]}.get(v, [v + 1, v - 1])):
                        cands.append(("lit:%d->%d" % (v, nv), l[:m.start()] + str(nv) + l[m.end():]))
                # (2) drop one operand of && / ||
                for m in re.finditer(r"\s*(&&|\|\|)\s*", l):
                    mm = re.match(r"^(\s*(?:if|while|\}\s*while|else if)\s*\()(.*)(\)\s*\{?\s*;?\s*)$", l)
                    if mm and mm.group(2).count("(") == mm.group(2).count(")"):
                        a, b = l[:m.start()], l[m.end():]
                        pre, post = mm.group(1), mm.group(3)
                        left = a[len(pre):]
                        right = b[:len(b) - len(post)]
                        if left.count("(") == left.count(")") and right.count("(") == right.count(")"):
                            cands.append(("drop-right:%s" % m.group(1), pre + left + post))
                            cands.append(("drop-left:%s" % m.group(1), pre + right + post))
                # (3) return value
                m = re.match(r"^(\s*)return\s+(.+);\s*$", l)
                if m and m.group(2).strip() not in ("0", "1", "NULL"):
                    cands.append(("return->0", m.group(1) + "return 0;"))
                elif m and m.group(2).strip() == "0":
                    cands.append(("return 0->1", m.group(1) + "return 1;"))
                elif m and m.group(2).strip() == "1":
                    cands.append(("return 1->0", m.group(1) + "return 0;"))
                # (4) atomic op flips
                for (a, b) in (("atomic_fetch_add", "atomic_fetch_sub"), ("atomic_fetch_sub", "atomic_fetch_add"),
                               ("__sync_add_and_fetch", "__sync_sub_and_fetch"), ("__sync_sub_and_fetch", "__sync_add_and_fetch"),
                               ("__sync_fetch_and_add", "__sync_fetch_and_sub"), ("atomic_exchange(", "atomic_load(")):
                    if a in l:
                        cands.append(("atomic:%s" % a, l.replace(a, b, 1)))
                # (5) remove a logical negation
                for m in re.finditer(r"!(?!=)", l):
                    cands.append(("drop-not", l[:m.start()] + l[m.end():]))
                # (6) field swap on the same line pattern x->a / x->b is too file specific: skip
            for (kind, new) in cands:
                mid = hashlib.sha1(("%s:%d:%s:%s" % (f, i, kind, new)).encode()).hexdigest()[:10]
                out.append({"id": mid, "file": f, "line": i + 1, "kind": kind, "old": l.strip(), "new": (new or "").strip(),
                            "checks": checks})
    with open(os.path.join(ROOT, "mutants.jsonl"), "w") as fh:
        for m in out:
            fh.write(json.dumps(m) + "\n")
    print("%d mutants over %d files" % (len(out), len(FILES)))


def load(name):
    p = os.path.join(ROOT, name)
    if not os.path.exists(p):
        return []
    return [json.loads(l) for l in open(p) if l.strip()]


def apply(m, dst):
    """copy include/ and src/ (and for the suite the whole tree) with the mutant applied"""
    p = os.path.join(dst, m["file"])
    lines = open(os.path.join(REPO, m["file"])).read().split("\n")
    i = m["line"] - 1
    if m["kind"] == "swap-next":
        lines[i], lines[i + 1] = lines[i + 1], lines[i]
    elif m["kind"] == "delete":
        lines[i] = ""
    else:
        ind = re.match(r"^\s*", lines[i]).group(0)
        lines[i] = ind + m["new"]
    open(p, "w").write("\n".join(lines))


def prep_worker(w):
    if not os.path.exists(os.path.join(w, "_b")):
        shutil.rmtree(w, ignore_errors=True)
        os.makedirs(w)
        subprocess.check_call("git -C /repo archive HEAD | tar -x -C %s" % w, shell=True)
        subprocess.check_call("cmake -G Ninja -S . -B _b -DCMAKE_BUILD_TYPE=RelWithDebInfo -DCMAKE_C_FLAGS=-Wno-error "
                              "-DFIBER_RUN_TESTS_WITH_BUILD=OFF >/dev/null 2>&1", shell=True, cwd=w)


def suite_one(m, w):
    """all tests except test_io (fixed TCP port: cannot run in several workers at once), twice"""
    for d in ("src", "include"):
        subprocess.check_call("cp -r /repo/%s/. %s/%s/" % (d, w, d), shell=True)
    apply(m, w)
    r = subprocess.run("cmake --build _b 2>&1 | tail -3", shell=True, cwd=w, stdout=subprocess.PIPE, stderr=subprocess.STDOUT, timeout=900)
    if b"FAILED" in r.stdout or b"error" in r.stdout:
        return "nobuild"
    for _rep in range(2):
        t = subprocess.run("ctest --test-dir _b -j4 -E test_io --timeout 20 2>&1 | grep -c '100% tests passed'", shell=True,
                           cwd=w, stdout=subprocess.PIPE).stdout.decode().strip()
        if t != "1":
            return "fail"
    return "pass-but-io"


def suite(jobs=5):
    import queue, threading, time
    ms = load("mutants.jsonl")
    done = set(r["id"] for r in load("suite.jsonl"))
    todo = [m for m in ms if m["id"] not in done]
    out = open(os.path.join(ROOT, "suite.jsonl"), "a")
    lock = threading.Lock()
    iolock = threading.Lock()
    q = queue.Queue()
    for m in todo:
        q.put(m)

    def worker(k):
        w = os.path.join(ROOT, "w%d" % k)
        prep_worker(w)
        while True:
            try:
                m = q.get_nowait()
            except queue.Empty:
                return
            try:
                res = suite_one(m, w)
            except Exception:
                res = "fail"
            if res == "pass-but-io":
                with iolock:             # test_io: one at a time on this machine
                    ok = False
                    for _k in range(3):
                        t2 = subprocess.run("ctest --test-dir _b -R test_io --timeout 30 2>&1 | grep -c '100% tests passed'", shell=True,
                                            cwd=w, stdout=subprocess.PIPE).stdout.decode().strip()
                        if t2 == "1":
                            ok = True
                            break
                        time.sleep(2)
                    res = "pass" if ok else "fail"
            with lock:
                out.write(json.dumps({"id": m["id"], "suite": res}) + "\n")
                out.flush()
                print(m["id"], m["file"], m["line"], m["kind"], res, flush=True)

    ths = [threading.Thread(target=worker, args=(k,)) for k in range(jobs)]
    for t in ths:
        t.start()
    for t in ths:
        t.join()


def run_check(m, chk):
    d = os.path.join(ROOT, "c_%s_%s" % (m["id"], chk))
    shutil.rmtree(d, ignore_errors=True)
    os.makedirs(d)
    subprocess.check_call("cp -r /repo/include /repo/src %s/" % d, shell=True)
    apply(m, d)
    env = dict(os.environ, VERIF_REPO=d, VERIF_EVIDENCE_DIR=os.path.join(d, "ev"), VERIF_REPLAYS_DIR=os.path.join(ROOT, "replays"))
    os.makedirs(os.path.join(d, "ev"), exist_ok=True)
    try:
        r = subprocess.run(["./check", chk, "quick"], cwd="/verif", env=env, stdout=subprocess.PIPE, stderr=subprocess.STDOUT,
                           timeout=1800)
        rc, out = r.returncode, r.stdout.decode("utf-8", "replace")
    except subprocess.TimeoutExpired:
        rc, out = 124, "TIMEOUT"
    shutil.rmtree(d, ignore_errors=True)
    viol = [l for l in out.split("\n") if l.startswith("VIOLATION")]
    concrete = any("no-failing-input-found" not in l for l in viol)
    return {"id": m["id"], "check": chk, "rc": rc, "violations": len(viol), "concrete": concrete,
            "tail": out.strip().split("\n")[-1][:200]}


def checks(jobs=3):
    ms = {m["id"]: m for m in load("mutants.jsonl")}
    passed = [r["id"] for r in load("suite.jsonl") if r["suite"] == "pass"]
    done = set((r["id"], r["check"]) for r in load("checks.jsonl"))
    todo = [(ms[i], c) for i in passed if i in ms for c in ms[i]["checks"] if (i, c) not in done]
    print("%d check runs to do" % len(todo), flush=True)
    out = open(os.path.join(ROOT, "checks.jsonl"), "a")
    with ThreadPoolExecutor(max_workers=jobs) as ex:
        for r in ex.map(lambda a: run_check(*a), todo):
            out.write(json.dumps(r) + "\n")
            out.flush()
            print(r["id"], r["check"], "rc=%d" % r["rc"], "concrete" if r["concrete"] else "", flush=True)


def report():
    ms = {m["id"]: m for m in load("mutants.jsonl")}
    su = {r["id"]: r["suite"] for r in load("suite.jsonl")}
    ch = {}
    for r in load("checks.jsonl"):
        ch.setdefault(r["id"], []).append(r)
    n = {"pass": 0, "fail": 0, "nobuild": 0}
    for v in su.values():
        n[v] += 1
    print("mutants %d; suite: killed %d, not compiling %d, SLIPPED PAST THE SUITE %d" % (len(su), n["fail"], n["nobuild"], n["pass"]))
    caught = concrete = 0
    surv = []
    for i, s in su.items():
        if s != "pass" or i not in ch:
            continue
        rs = ch[i]
        if any(r["rc"] == 1 for r in rs):
            caught += 1
            concrete += any(r["concrete"] for r in rs if r["rc"] == 1)
        else:
            surv.append(i)
    print("of those with check results: caught %d (with a concrete failing input: %d), NOT caught %d" % (caught, concrete, len(surv)))
    for i in surv:
        m = ms[i]
        print("  %s %s:%d %s | %s  =>  %s   [%s]" % (i, m["file"], m["line"], m["kind"], m["old"][:70], m["new"][:70],
                                                  " ".join("%s:%d" % (r["check"], r["rc"]) for r in ch[i])))


if __name__ == "__main__":
    cmd = sys.argv[1]
    if cmd == "gen":
        gen()
    elif cmd == "suite":
        suite(int(sys.argv[2]) if len(sys.argv) > 2 else 5)
    elif cmd == "checks":
        checks(int(sys.argv[2]) if len(sys.argv) > 2 else 3)
    elif cmd == "report":
        report()
