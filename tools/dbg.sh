#!/bin/sh
# usage: tools/dbg.sh File.v LINE [maxlines] -> prints the proof state at LINE of coq/File.v
f=$1; n=$2; id=$$
cd "$(dirname "$0")/../coq"
sed "${n}s/.*/ Show. all: fail./" "$f" > "ZZdbg_$id.v"
timeout 300 coqc -Q . LF "ZZdbg_$id.v" 2>&1 | head -${3:-80}
rm -f ZZdbg_$id.* .ZZdbg_$id.aux
