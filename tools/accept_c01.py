#!/usr/bin/env python3
"""Re-validate coq/Kernel.v against the real runtime: builds a private driver
for Kernel, runs seeds x 250 T2 cases and reports how many real traces the
protocol machine rejects (must be 0 on the unchanged tree).
usage: tools/accept_c01.py [seed ...]"""
import os, subprocess, sys, tempfile
sys.path.insert(0, os.path.dirname(os.path.abspath(__file__)))
from vf import core
from vf.props import C01
d = tempfile.mkdtemp(prefix="acc_c01_", dir=core.scratch_root())
subprocess.check_call([os.path.join(core.VERIF, "tools", "mkdriver.sh"), d, "Kernel"], stdout=subprocess.DEVNULL)
core.DRIVER = os.path.join(d, "driver")
tot = rej = 0
for seed in [int(x) for x in sys.argv[1:]] or [1, 2, 3, 4]:
    ctx = core.Ctx("C01", "quick", seed)
    exe = C01.build(ctx)
    cases = C01.corpus() + C01.gen_cases(ctx, "quick")
    impl = core.run_sharded([exe], cases, timeout=900)
    nacc, rejected = C01.accept_traces(ctx, cases, impl)
    mon = [C01.monitor(c, core.parse_trace(l) if l else None, l) for c, l in zip(cases, impl)]
    tot += len(cases); rej += len(rejected)
    print("seed %d: %d runs, %d rejected by the acceptor, %d monitor violations" %
          (seed, len(cases), len(rejected), sum(1 for m in mon if m)))
    for c, why in rejected[:2]:
        print("   ", why)
    ctx.cleanup()
import shutil; shutil.rmtree(d, ignore_errors=True)
print("TOTAL %d runs, %d rejected" % (tot, rej))
sys.exit(1 if rej else 0)
