/* Lock-step harness for include/mpmc_stack.h (C20, model coq/MStack.v).
 * params: [0] k = nodes initially owned by every thread (ids t*k+1 .. t*k+k),
 *         [1] drain budget.
 * locs:   0 = stack.head, 100 + 2*(id-1) = node.next, 101 + 2*(id-1) = node.data.
 * ops:    1 a = mpmc_stack_push of the owned node at index (a mod #owned);
 *               ret = node id; a thread owning no node skips (ret 0, no access);
 *         4 a = mpmc_stack_push_timeout of the owned node at index
 *               ((a mod 8) mod #owned) with 1 + a/8 tries; ret = node id on
 *               MPMC_SUCCESS, 0 on MPMC_RETRY (the node stays owned);
 *         2   = mpmc_stack_lifo_flush, 3 = mpmc_stack_fifo_flush; the thread
 *               then walks the returned list: per node one read of node->next
 *               followed by a ret event carrying the node id; the node joins
 *               the front of the owned list; a final ret 0 ends the call. */
#include "harness.h"
#include "mpmc_stack.h"

#define MAXN 8
static mpmc_stack_t stack;
static mpmc_stack_node_t nodes[RT_MAX_THREADS * MAXN];
static hcase_t* cur;
static int kper;

static long idof(mpmc_stack_node_t* n) { return n ? (long)(n - nodes) + 1 : 0; }

static void body(int t) {
  mpmc_stack_node_t* own[RT_MAX_THREADS * MAXN + 1];
  int nown = 0;
  for (int j = 0; j < kper; j++) own[nown++] = &nodes[t * kper + j];
  for (int k = 0; k < cur->nops[t]; k++) {
    long opc = cur->ops[t][k][0], a = cur->ops[t][k][1];
    if (opc == 1 || opc == 4) {
      if (nown == 0) { rt_event(k + 1, K_RET, 0); continue; }
      int i = (int)((opc == 1 ? a : a % 8) % nown);
      mpmc_stack_node_t* n = own[i];
      int ok = 1;
      if (opc == 1) mpmc_stack_push(&stack, n);
      else ok = mpmc_stack_push_timeout(&stack, n, (size_t)(1 + a / 8)) == MPMC_SUCCESS;
      if (ok) {
        for (int j = i; j + 1 < nown; j++) own[j] = own[j + 1];
        nown--;
      }
      rt_event(k + 1, K_RET, ok ? idof(n) : 0);
    } else {
      mpmc_stack_node_t* h = opc == 3 ? mpmc_stack_fifo_flush(&stack) : mpmc_stack_lifo_flush(&stack);
      while (h) {
        mpmc_stack_node_t* nx = h->next;
        rt_event(k + 1, K_RET, idof(h));
        for (int j = nown; j > 0; j--) own[j] = own[j - 1];
        own[0] = h; nown++;
        h = nx;
      }
      rt_event(k + 1, K_RET, 0);
    }
  }
}

static void h_run_case(hcase_t* c) {
  cur = c;
  kper = (int)c->params[0]; int dmax = (int)c->params[1];
  if (kper < 0 || kper > MAXN) { printf("-1\n"); return; }
  mpmc_stack_init(&stack);
  memset(nodes, 0, sizeof nodes);
  rt_reg((void*)&stack, 8, 0, 8);
  rt_reg(nodes, sizeof nodes, 100, 8);
  rt_reg_rest(&stack, sizeof stack, 3900);   /* search mode only: fields the model does not know */
  rt_name(nodes, sizeof nodes, 1, sizeof nodes[0]);
  rt_run(c->nthreads, body, c->sched, c->nsched, dmax);
  rt_print_trace();
}
int main(void) { return h_main(); }
