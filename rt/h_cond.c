/* Lock-step harness for src/fiber_cond.c on the T1 machine (C05).
 * Objects: 0 = user mutex (300/301/302), 1 = cond.internal_mutex (310/311/312),
 * 2 = the cond (waiter_count 320, waiters.head/tail 321/322).
 * Cells: 500 = cond.caller_mutex, 501 = predicate flag (protected by the user
 * mutex), 502 = critical-section owner cell (written by whoever believes it
 * holds the user mutex).
 * Ops: 1 wait (lock; cond_wait; unlock)   2 wait-if (lock; if(!flag) cond_wait; unlock)
 *      3 signal   4 lock; signal; unlock  5 broadcast  6 lock; broadcast; unlock
 *      7 lock; flag = 1; unlock           8 read waiter_count
 * Ret events of call k (loc k+1, kind 909): 11 = cond_wait returned; final value
 * 1 = ok, 7 = the owner cell was overwritten while we held the user mutex,
 * 3 = wait-if found the flag set (no wait); op 8 reports the value read. */
#include "harness.h"
#include "t1.h"
#include "fiber_cond.h"
#include "fiber_mutex.h"

static fiber_mutex_t umtx;
static fiber_cond_t cond;
static hcase_t* cur;
static volatile long flag_cell;
static volatile long owner_cell;
#define NN 64
static mpsc_fifo_node_t nodes[NN];

static void user_lock(int t) { fiber_mutex_lock(&umtx); owner_cell = t + 1; }
static long user_unlock(int t) {
  long r = (owner_cell == t + 1) ? 1 : 7;
  fiber_mutex_unlock(&umtx);
  return r;
}

static void prog(int t) {
  for (int k = 0; k < cur->nops[t]; k++) {
    long opc = cur->ops[t][k][0];
    long r = 1;
    if (opc == 1) {
      user_lock(t);
      fiber_cond_wait(&cond, &umtx);
      rt_event(k + 1, K_RET, 11);
      owner_cell = t + 1;
      r = user_unlock(t);
    } else if (opc == 2) {
      user_lock(t);
      if (!flag_cell) {
        fiber_cond_wait(&cond, &umtx);
        rt_event(k + 1, K_RET, 11);
        owner_cell = t + 1;
        r = user_unlock(t);
      } else {
        r = user_unlock(t);
        if (r == 1) r = 3;
      }
    } else if (opc == 3) {
      fiber_cond_signal(&cond);
    } else if (opc == 4) {
      user_lock(t);
      fiber_cond_signal(&cond);
      r = user_unlock(t);
    } else if (opc == 5) {
      fiber_cond_broadcast(&cond);
    } else if (opc == 6) {
      user_lock(t);
      fiber_cond_broadcast(&cond);
      r = user_unlock(t);
    } else if (opc == 7) {
      user_lock(t);
      flag_cell = 1;
      r = user_unlock(t);
    } else {
      r = (long)atomic_load(&cond.waiter_count);
    }
    rt_event(k + 1, K_RET, r);
  }
}

static void mutex_by_hand(fiber_mutex_t* m, mpsc_fifo_node_t* stub) {
  /* real init; only the queue's stub node is replaced by one from our array */
  fiber_mutex_init(m);
  free(m->waiters.head);
  m->waiters.head = stub; m->waiters.tail = stub;
}

static void h_run_case(hcase_t* c) {
  cur = c;
  int dmax = (int)c->params[0];
  int n = c->nthreads;
  memset(nodes, 0, sizeof nodes);
  flag_cell = 0; owner_cell = 0;
  t1_setup(n);
  /* objects by hand, mirroring fiber_mutex_init / fiber_cond_init, stubs from our array */
  mutex_by_hand(&umtx, &nodes[0]);
  memset(&cond, 0x5a, sizeof cond);
  fiber_cond_init(&cond);                     /* the real init sets every field (also any a change adds) */
  free(cond.internal_mutex.waiters.head);
  cond.internal_mutex.waiters.head = &nodes[1]; cond.internal_mutex.waiters.tail = &nodes[1];
  free(cond.waiters.head);
  cond.waiters.head = &nodes[2]; cond.waiters.tail = &nodes[2];
  for (int t = 0; t < n; t++) {
    fiber_t* f = t1_fiber_of(t);
    free(f->mpsc_fifo_node);
    f->mpsc_fifo_node = &nodes[3 + t];
    rt_reg((void*)&f->state, 4, 200 + t, 4);
    rt_name(f, sizeof *f, 1000 + t, sizeof *f);
  }
  rt_reg((void*)&umtx.counter, sizeof umtx.counter, 300, sizeof umtx.counter);
  rt_reg((void*)&umtx.waiters.head, 8, 301, 8);
  rt_reg((void*)&umtx.waiters.tail, 8, 302, 8);
  rt_reg((void*)&cond.internal_mutex.counter, sizeof cond.internal_mutex.counter, 310, sizeof cond.internal_mutex.counter);
  rt_reg((void*)&cond.internal_mutex.waiters.head, 8, 311, 8);
  rt_reg((void*)&cond.internal_mutex.waiters.tail, 8, 312, 8);
  rt_reg((void*)&cond.waiter_count, 8, 320, 8);
  rt_reg((void*)&cond.waiters.head, 8, 321, 8);
  rt_reg((void*)&cond.waiters.tail, 8, 322, 8);
  rt_reg((void*)&cond.caller_mutex, 8, 500, 8);
  rt_reg((void*)&flag_cell, 8, 501, 8);
  rt_reg((void*)&owner_cell, 8, 502, 8);
  rt_name(&umtx, sizeof umtx, 2000, sizeof umtx);
  rt_reg(nodes, sizeof nodes, 100, 8);
  rt_reg_rest(&umtx, sizeof umtx, 3900);   /* search mode only: fields the model does not know */
  rt_reg_rest(&cond, sizeof cond, 4900);
  rt_name(nodes, sizeof nodes, 1, sizeof nodes[0]);
  t1_run(n, prog, c->sched, c->nsched, dmax);
  rt_print_trace();
}
int main(void) { return h_main(); }
