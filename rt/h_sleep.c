/* C09 harness: sleeping fibers wake exactly once and never early.
 *
 * Three modes, all on the REAL /repo code (a libfiber built from the working
 * tree by tools/vf/props/C09.py):
 *
 *   h_sleep tree           differential run of the extern functions
 *                          waiter_insert / waiter_remove_less_than of
 *                          src/fiber_event_native.c against coq/SleepTree.v
 *                          (one case per stdin line, one result line each)
 *   h_sleep arith          the sleep arithmetic probe (expression text lifted
 *                          from the sources by tools/gen/gen_sleep.py into
 *                          sleep_probe.c) against coq/SleepArith.v
 *   h_sleep rt <scn> ...   run-time scenarios under a deterministic VIRTUAL
 *                          time base: fiber_event_native.c is compiled with
 *                            -Dtimerfd_create=h_timerfd_create
 *                            -Dtimerfd_settime=h_timerfd_settime
 *                            -Dfiber_scheduler_schedule=h_fiber_scheduler_schedule
 *                            -Dfiber_load_symbol=h_fiber_load_symbol
 *                          so that the "timer" is an eventfd whose expiration
 *                          count is written by the harness (reading it returns
 *                          the accumulated count, exactly like a timerfd), and
 *                          so that two legal preemption windows can be held
 *                          open (after a sleeper has been scheduled by the
 *                          chain walk; after a poller has read the timer).
 *
 * The harness only OBSERVES (virtual tick at call / at return of every sleep,
 * number of times each fiber was scheduled by the event layer); the verdict is
 * taken by the monitor in tools/vf/props/C09.py.
 */
#ifndef _GNU_SOURCE
#define _GNU_SOURCE
#endif
#include <errno.h>
#include <pthread.h>
#include <signal.h>
#include <stdatomic.h>
#include <stdint.h>
#include <stdio.h>
#include <stdlib.h>
#include <string.h>
#include <sys/epoll.h>
#include <sys/eventfd.h>
#include <sys/syscall.h>
#include <sys/timerfd.h>
#include <time.h>
#include <unistd.h>

#include "fiber.h"
#include "fiber_event.h"
#include "fiber_manager.h"
#include "fiber_scheduler.h"

/* ------------------------------------------------------------------ */
/* mirror of the private node type of src/fiber_event_native.c          */
typedef struct waiter_el {
  uint64_t wake_time;
  void* waiter;
  struct waiter_el* next;
  struct waiter_el* left;
  struct waiter_el* right;
} waiter_el_t;
extern void waiter_insert(waiter_el_t** tree, waiter_el_t* node);
extern waiter_el_t* waiter_remove_less_than(waiter_el_t** tree, const uint64_t wake_time);

/* generated probe (tools/gen/gen_sleep.py --probe) */
extern uint64_t probe_sleep_ms(uint32_t seconds, uint32_t useconds);
extern uint64_t probe_sleep_ms_src(uint32_t seconds, uint32_t useconds);   /* verbatim source text */
extern void probe_sleep(unsigned int seconds, uint32_t* s, uint32_t* us);
extern void probe_usleep(useconds_t useconds, uint32_t* s, uint32_t* us);
extern void probe_nanosleep(long long sec, long nsec, uint32_t* s, uint32_t* us);

/* ------------------------------------------------------------------ */
/* mode: tree                                                           */
/* case: shift n (op arg)*   op 1 = insert key arg<<shift (id = running
 * counter from 1); 2 = one waiter_remove_less_than(arg<<shift); 3 = repeat
 * until NULL.  Output: per removal the ids of the returned chain in `next`
 * order then 0 (NULL: just 0); finally the pre-order dump of the tree:
 * node = key>>shift, chain ids, 0; empty subtree = -1.                    */
#define MAXN 4096
static waiter_el_t tnodes[MAXN];
static long long outbuf[8 * MAXN + 64];
static int outn;
static void emit(long long v) { if (outn < (int)(sizeof outbuf / sizeof *outbuf)) outbuf[outn++] = v; }
static long long idof(waiter_el_t* n) { return n ? (long long)(n - tnodes) + 1 : 0; }
static void emit_chain(waiter_el_t* c) {
  int guard = 0;
  for (; c && guard < MAXN; c = c->next, ++guard) emit(idof(c));
  emit(0);
}
static void dump(waiter_el_t* t, int shift, int depth) {
  if (!t || depth > MAXN) { emit(-1); return; }
  emit((long long)(t->wake_time >> shift));
  emit_chain(t);
  dump(t->left, shift, depth + 1);
  dump(t->right, shift, depth + 1);
}
static int mode_tree(void) {
  char* line = NULL; size_t cap = 0;
  while (getline(&line, &cap, stdin) > 0) {
    long long v[2 * MAXN + 8]; int n = 0;
    for (char* p = strtok(line, " \n"); p && n < (int)(sizeof v / sizeof *v); p = strtok(NULL, " \n")) v[n++] = atoll(p);
    outn = 0;
    if (n < 2) { printf("BAD\n"); continue; }
    int shift = (int)v[0], nops = (int)v[1];
    waiter_el_t* tree = NULL;
    int next_id = 0;
    memset(tnodes, 0, sizeof tnodes);
    for (int i = 0; i < nops && 2 + 2 * i + 1 < n; ++i) {
      long long op = v[2 + 2 * i];
      uint64_t key = ((uint64_t)v[3 + 2 * i]) << shift;
      if (op == 1) {
        if (next_id >= MAXN) break;
        waiter_el_t* nd = &tnodes[next_id++];
        memset(nd, 0, sizeof *nd);           /* fiber_sleep: waiter_el_t wake_info = {} */
        nd->wake_time = key;
        nd->waiter = nd;
        waiter_insert(&tree, nd);
      } else if (op == 2) {
        emit_chain(waiter_remove_less_than(&tree, key));
      } else if (op == 3) {
        waiter_el_t* c;
        int guard = 0;
        while ((c = waiter_remove_less_than(&tree, key)) && guard++ < MAXN) emit_chain(c);
        emit(0);
      }
    }
    dump(tree, shift, 0);
    for (int i = 0; i < outn; ++i) printf(i ? " %lld" : "%lld", outbuf[i]);
    printf("\n");
  }
  return 0;
}

/* ------------------------------------------------------------------ */
/* mode: arith   case: which a b   -> seconds32 useconds32 sleep_ms      */
static int mode_arith(void) {
  char* line = NULL; size_t cap = 0;
  while (getline(&line, &cap, stdin) > 0) {
    long long w = 0, a = 0, b = 0;
    if (sscanf(line, "%lld %lld %lld", &w, &a, &b) < 2) { printf("BAD\n"); continue; }
    uint32_t s = 0, us = 0;
    if (w == 0) { s = (uint32_t)a; us = (uint32_t)b; }
    else if (w == 1) probe_sleep((unsigned int)a, &s, &us);
    else if (w == 2) probe_usleep((useconds_t)a, &s, &us);
    else probe_nanosleep(a, (long)b, &s, &us);
    if (probe_sleep_ms(s, us) != probe_sleep_ms_src(s, us)) { printf("SRCDIFF %u %u\n", s, us); continue; }
    printf("%llu %llu %llu\n", (unsigned long long)s, (unsigned long long)us,
           (unsigned long long)probe_sleep_ms(s, us));
  }
  return 0;
}

/* ------------------------------------------------------------------ */
/* virtual time base                                                     */
static int vt_fd = -1;                       /* the eventfd standing for the timerfd */
static atomic_flag vt_lock = ATOMIC_FLAG_INIT;
static volatile uint64_t vt_T;               /* expirations delivered so far */
static _Atomic uint64_t vt_consumed;         /* expirations read back by the library */
static void vt_acquire(void) { while (atomic_flag_test_and_set_explicit(&vt_lock, memory_order_acquire)) { } }
static void vt_release(void) { atomic_flag_clear_explicit(&vt_lock, memory_order_release); }
static void vt_advance(uint64_t k) {
  vt_acquire();
  uint64_t v = k;
  if (syscall(SYS_write, vt_fd, &v, sizeof v) != sizeof v) { perror("eventfd write"); _exit(9); }
  vt_T += k;
  vt_release();
}
static uint64_t vt_now(void) { vt_acquire(); uint64_t t = vt_T; vt_release(); return t; }

int h_timerfd_create(int clockid, int flags) {
  (void)clockid; (void)flags;
  vt_fd = eventfd(0, EFD_NONBLOCK);
  return vt_fd;
}
int h_timerfd_settime(int fd, int flags, const struct itimerspec* in, struct itimerspec* out) {
  (void)fd; (void)flags; (void)in;
  if (out) memset(out, 0, sizeof *out);
  return 0;
}

static void real_sleep_us(long us) {
  struct timespec ts = {us / 1000000, (us % 1000000) * 1000};
  clock_nanosleep(CLOCK_MONOTONIC, 0, &ts, NULL);
}
static long real_now_us(void) { struct timespec a; clock_gettime(CLOCK_MONOTONIC, &a); return a.tv_sec * 1000000L + a.tv_nsec / 1000; }

/* ------------------------------------------------------------------ */
/* observation tables                                                    */
#define MAXF 600
#define MAXS 64
typedef struct { int kind; long long a, b; uint64_t tc, tw; int done; } srec_t;
static fiber_t* volatile fib[MAXF];
static srec_t rec[MAXF][MAXS];
static volatile int nrec[MAXF];
static _Atomic int sched_count[MAXF];        /* schedules by the event layer */
static _Atomic int resumed[MAXF];            /* sleeps returned (+ stack clobbered) */
static _Atomic int finished;
static int nfib;
static int idx_of(fiber_t* f) { for (int i = 0; i < nfib; ++i) if (fib[i] == f) return i; return -1; }

/* preemption window 1 (F-C09b): after the chain walk has scheduled a sleeper,
 * hold the waking thread until that sleeper has resumed (on another thread)
 * and reused its stack, or hold_ms of real time have passed.               */
static volatile int hold_after_schedule;     /* 0 = off */
static _Atomic int in_hold;                  /* virtual time stands still meanwhile */
extern void fiber_scheduler_schedule(fiber_scheduler_t* scheduler, fiber_t* the_fiber);
void h_fiber_scheduler_schedule(fiber_scheduler_t* scheduler, fiber_t* the_fiber) {
  const int i = idx_of(the_fiber);
  int before = 0;
  if (i >= 0) { atomic_fetch_add(&sched_count[i], 1); before = atomic_load(&resumed[i]); }
  fiber_scheduler_schedule(scheduler, the_fiber);
  if (hold_after_schedule && i >= 0) {
    atomic_fetch_add(&in_hold, 1);
    const long t0 = real_now_us();
    while (atomic_load(&resumed[i]) == before && real_now_us() - t0 < hold_after_schedule * 1000L) { }
    atomic_fetch_sub(&in_hold, 1);
  }
}

/* preemption window 2 (in-flight expirations): after a poller has read the
 * timer, hold it (before it takes the sleep lock) while hold_reads is set. */
static volatile int hold_reads;
static _Atomic int read_held;
static ssize_t h_read(int fd, void* buf, size_t n) {
  const ssize_t r = syscall(SYS_read, fd, buf, n);
  if (fd == vt_fd && r == (ssize_t)sizeof(uint64_t)) atomic_fetch_add(&vt_consumed, *(uint64_t*)buf);
  if (fd == vt_fd && r == (ssize_t)sizeof(uint64_t) && hold_reads) {
    atomic_fetch_add(&in_hold, 1);
    atomic_store(&read_held, 1);
    const long t0 = real_now_us();
    while (hold_reads && real_now_us() - t0 < 2000000L) { }
    atomic_fetch_sub(&in_hold, 1);
  }
  return r;
}
extern void* fiber_load_symbol(const char* symbol);
void* h_fiber_load_symbol(const char* symbol) {
  if (!strcmp(symbol, "read")) return (void*)h_read;
  return fiber_load_symbol(symbol);
}

/* ------------------------------------------------------------------ */
/* the sleep calls                                                       */
enum { K_FSLEEP = 0, K_SLEEP = 1, K_USLEEP = 2, K_NANOSLEEP = 3 };
static volatile uint64_t clobber_word;       /* what the reused stack slots hold */
static __attribute__((noinline)) void clobber(int depth) {
  volatile uint64_t buf[96];
  for (int i = 0; i < 96; ++i) buf[i] = clobber_word;
  if (depth > 0) clobber(depth - 1);
  (void)buf[5];
}
static __attribute__((noinline)) void do_sleep(int kind, long long a, long long b) {
  if (kind == K_FSLEEP) fiber_sleep((uint32_t)a, (uint32_t)b);
  else if (kind == K_SLEEP) sleep((unsigned int)a);
  else if (kind == K_USLEEP) usleep((useconds_t)a);
  else {
    /* request and remainder may be the same object (the POSIX retry idiom nanosleep(&ts, &ts)): odd nanosecond counts
     * use it, even ones pass a separate remainder, multiples of 4 pass NULL */
    struct timespec ts, rem; ts.tv_sec = (time_t)a; ts.tv_nsec = (long)b;
    nanosleep(&ts, (b & 1) ? &ts : (b & 2) ? &rem : NULL);
  }
}
static void one_sleep(int me, int kind, long long a, long long b, int do_clobber) {
  const int j = nrec[me];
  srec_t* r = &rec[me][j];
  r->kind = kind; r->a = a; r->b = b; r->done = 0;
  r->tc = vt_now();
  nrec[me] = j + 1;
  do_sleep(kind, a, b);
  if (do_clobber) clobber(3);
  r->tw = vt_now();
  r->done = 1;
  atomic_fetch_add(&resumed[me], 1);
}

/* ------------------------------------------------------------------ */
/* driver thread: advances virtual time                                   */
typedef struct { long tick_us; uint64_t budget; long start_delay_us; _Atomic int* gate; int gate_n; void (*prologue)(void); } drv_t;
static drv_t drv;
static void report_and_exit(int code);
/* expirations after which THIS design wakes a sleeper: ms + 1, plus one (64-bit arithmetic) */
static uint64_t own_deadline(int kind, long long a, long long b);
/* tick budget exhausted: before declaring anybody lost, give the library real
 * time (slow ticks, up to 1.5 s) to wake every sleeper whose own deadline has
 * long passed -- on a loaded machine the pollers lag behind the tick pace */
static void settle(void);
static void* driver(void* p) {
  (void)p;
  if (drv.gate) { while (atomic_load(drv.gate) < drv.gate_n) real_sleep_us(50); }
  if (drv.start_delay_us) real_sleep_us(drv.start_delay_us);
  if (drv.prologue) drv.prologue();
  uint64_t issued = 0;
  while (!atomic_load(&finished)) {
    if (atomic_load(&in_hold)) { real_sleep_us(20); continue; }
    if (issued >= drv.budget) { settle(); report_and_exit(3); }
    /* do not run far ahead of the pollers when the machine is loaded (lateness
     * is not what is measured); give up after 100 ms of real time */
    for (int w = 0; w < 2000 && vt_T - atomic_load(&vt_consumed) > 32; ++w) real_sleep_us(50);
    vt_advance(1);
    ++issued;
    real_sleep_us(drv.tick_us);
  }
  return NULL;
}
static void start_driver(long tick_us, uint64_t budget, long start_delay_us, _Atomic int* gate, int gate_n) {
  drv.tick_us = tick_us; drv.budget = budget; drv.start_delay_us = start_delay_us; drv.gate = gate; drv.gate_n = gate_n;
  pthread_t th;
  pthread_create(&th, NULL, driver, NULL);
}

static uint64_t own_deadline(int kind, long long a, long long b) {
  unsigned long long s = 0, us = 0;
  if (kind == K_FSLEEP) { s = (uint32_t)a; us = (uint32_t)b; }
  else if (kind == K_SLEEP) { s = (uint32_t)a; }
  else if (kind == K_USLEEP) { s = (uint32_t)a / 1000000; us = (uint32_t)a % 1000000; }
  else { s = (uint32_t)a; us = (unsigned long long)b / 1000 + 1; }
  return s * 1000 + us / 1000 + 2;
}
static int overdue_pending(void) {
  const uint64_t now = vt_now();
  for (int i = 0; i < nfib; ++i) {
    const int n = nrec[i];
    if (n > 0 && !rec[i][n - 1].done) {
      srec_t* r = &rec[i][n - 1];
      if (now - r->tc > own_deadline(r->kind, r->a, r->b) + 20) return 1;
    }
  }
  return 0;
}
static int e_n;
static _Atomic long e_done;
static void settle(void) {
  if (e_n) {
    /* scenario e: nobody is declared lost while sleepers are still returning; give up after 3 s without progress */
    long prev = -1; int idle_rounds = 0;
    while (!atomic_load(&finished) && idle_rounds < 15) {
      const long d = atomic_load(&e_done);
      if (d == prev) ++idle_rounds; else idle_rounds = 0;
      prev = d;
      vt_advance(1);
      real_sleep_us(200000);
    }
    return;
  }
  for (int k = 0; k < 1500 && !atomic_load(&finished) && overdue_pending(); ++k) {
    if (!atomic_load(&in_hold)) vt_advance(1);
    real_sleep_us(1000);
  }
}

static pthread_mutex_t report_mu = PTHREAD_MUTEX_INITIALIZER;
static void e_report(void);
static void report_and_exit(int code) {
  if (pthread_mutex_trylock(&report_mu)) { for (;;) pause(); }
  const uint64_t now = vt_now();
  for (int i = 0; i < nfib; ++i) {
    const int n = nrec[i];
    for (int j = 0; j < n; ++j) {
      srec_t* r = &rec[i][j];
      if (r->done) printf("S %d %d %d %lld %lld %llu %llu\n", i, j, r->kind, r->a, r->b,
                          (unsigned long long)r->tc, (unsigned long long)r->tw);
      else printf("P %d %d %d %lld %lld %llu %llu\n", i, j, r->kind, r->a, r->b,
                  (unsigned long long)r->tc, (unsigned long long)now);
    }
    printf("F %d %d %d\n", i, n, atomic_load(&sched_count[i]));
  }
  e_report();
  printf("END %d\n", code);
  fflush(stdout);
  _exit(code);
}

/* ------------------------------------------------------------------ */
/* scenario a: stale base.  One kernel thread; k expirations accumulate
 * unread while the (main) fiber computes; then it sleeps.                */
static int scn_a(int argc, char** argv) {
  const uint64_t k = argc > 0 ? strtoull(argv[0], NULL, 10) : 100;
  const int kind = argc > 1 ? atoi(argv[1]) : K_USLEEP;
  const long long a = argc > 2 ? atoll(argv[2]) : 10000, b = argc > 3 ? atoll(argv[3]) : 0;
  fiber_manager_init(1);
  nfib = 1;
  fib[0] = fiber_manager_get()->current_fiber;
  start_driver(100, 4000, 0, NULL, 0);
  one_sleep(0, K_USLEEP, 1000, 0, 0);          /* event system is live, base is current */
  atomic_fetch_add(&in_hold, 1);               /* driver pauses: the only ticks now are ours */
  real_sleep_us(1000);
  vt_advance(k);                               /* "k ticks of computation", nobody polls */
  atomic_fetch_sub(&in_hold, 1);
  one_sleep(0, kind, a, b, 0);
  atomic_store(&finished, 1);
  report_and_exit(0);
  return 0;
}

/* scenario a2: in-flight expirations.  Two kernel threads; the idle one reads
 * k expirations from the timer and is preempted before it takes the sleep
 * lock; meanwhile a fiber on the other thread goes to sleep.  The driver
 * thread orchestrates; the main fiber just joins.                          */
static _Atomic int a2_go, a2_started;
static long long a2_req;
static uint64_t a2_k;
static void* a2_fiber(void* p) {
  (void)p;
  atomic_store(&a2_started, 1);
  while (!atomic_load(&a2_go)) { }             /* computing: this kernel thread does not poll */
  one_sleep(0, K_USLEEP, a2_req, 0, 0);
  return NULL;
}
static void a2_prologue(void) {
  real_sleep_us(20000);                        /* the other kernel thread is idle and polling */
  hold_reads = 1;
  vt_advance(a2_k);                            /* k expirations at once: the poller reads them ... */
  const long t0 = real_now_us();
  while (!atomic_load(&read_held) && real_now_us() - t0 < 500000) { }
  atomic_store(&a2_go, 1);                     /* ... and is preempted; the fiber goes to sleep now */
  real_sleep_us(30000);                        /* it is in the tree by now */
  hold_reads = 0;                              /* the poller goes on: lock, add k, wake */
  real_sleep_us(20000);
}
static int scn_a2(int argc, char** argv) {
  a2_k = argc > 0 ? strtoull(argv[0], NULL, 10) : 50;
  a2_req = argc > 1 ? atoll(argv[1]) : 10000;
  fiber_manager_init(2);
  nfib = 1;
  drv.prologue = a2_prologue;
  start_driver(100, 4000, 0, &a2_started, 1);
  fiber_t* f = fiber_create(65536, a2_fiber, NULL);
  fib[0] = f;
  fiber_join(f, NULL);
  atomic_store(&finished, 1);
  printf("I read_held %d\n", atomic_load(&read_held));
  report_and_exit(0);
  return 0;
}

/* scenario b: many sleepers, equal and different deadlines.              */
static unsigned long long rng_state;
static unsigned rnd(void) { rng_state = rng_state * 6364136223846793005ULL + 1442695040888963407ULL; return (unsigned)(rng_state >> 33); }
typedef struct { int me; int n; int kinds[MAXS]; long long a[MAXS], b[MAXS]; int clob; } plan_t;
static plan_t plans[MAXF];
static _Atomic int started;
static void* plan_fiber(void* p) {
  plan_t* pl = (plan_t*)p;
  atomic_fetch_add(&started, 1);
  for (int j = 0; j < pl->n; ++j) one_sleep(pl->me, pl->kinds[j], pl->a[j], pl->b[j], pl->clob);
  return NULL;
}
static int scn_b(int argc, char** argv) {
  const int nthreads = argc > 0 ? atoi(argv[0]) : 2;
  const int nf = argc > 1 ? atoi(argv[1]) : 40;
  const int ns = argc > 2 ? atoi(argv[2]) : 6;
  rng_state = argc > 3 ? strtoull(argv[3], NULL, 10) : 1;
  const long tick_us = argc > 4 ? atol(argv[4]) : 100;
  fiber_manager_init(nthreads);
  nfib = nf;
  static fiber_t* fs[MAXF];
  static const long long durs[] = {0, 1, 400, 999, 1000, 1001, 4999, 5000, 5001, 9000, 10000, 12345, 20000, 30000, 50000};
  for (int i = 0; i < nf; ++i) {
    plan_t* pl = &plans[i];
    pl->me = i; pl->n = ns; pl->clob = 1;
    for (int j = 0; j < ns; ++j) {
      const unsigned r = rnd() % 10;
      const long long us = (rnd() % 3 == 0) ? (long long)(rnd() % 40000) : durs[rnd() % (sizeof durs / sizeof *durs)];
      if (r < 6) { pl->kinds[j] = K_USLEEP; pl->a[j] = us; pl->b[j] = 0; }
      else if (r < 8) { pl->kinds[j] = K_NANOSLEEP; pl->a[j] = 0; pl->b[j] = us * 1000 + rnd() % 1000; }
      else if (r < 9) { pl->kinds[j] = K_FSLEEP; pl->a[j] = 0; pl->b[j] = us; }
      else { pl->kinds[j] = K_SLEEP; pl->a[j] = 0; pl->b[j] = 0; }
    }
  }
  clobber_word = 0;
  start_driver(tick_us, 3000, 0, NULL, 0);
  for (int i = 0; i < nf; ++i) { fs[i] = fiber_create(65536, plan_fiber, &plans[i]); fib[i] = fs[i]; }
  for (int i = 0; i < nf; ++i) fiber_join(fs[i], NULL);
  atomic_store(&finished, 1);
  report_and_exit(0);
  return 0;
}

/* scenario c: chain walk vs. a sleeper that is stolen and runs on at once.
 * nf sleepers share one wake tick; the woken sleeper's stack slot is reused
 * (pattern 0: zeros; pattern 1: address of a decoy node naming a victim
 * fiber that is in a long sleep).                                          */
static waiter_el_t decoy;
static int scn_c(int argc, char** argv) {
  const int nthreads = argc > 0 ? atoi(argv[0]) : 2;
  const int nf = argc > 1 ? atoi(argv[1]) : 3;
  const int pat = argc > 2 ? atoi(argv[2]) : 0;
  const int rounds = argc > 3 ? atoi(argv[3]) : 1;
  const int hold_ms = argc > 4 ? atoi(argv[4]) : 60;   /* 0: no injected preemption, natural timing only */
  fiber_manager_init(nthreads);
  nfib = nf + 1;                               /* last one = victim */
  static fiber_t* fs[MAXF];
  for (int i = 0; i < nf; ++i) {
    plan_t* pl = &plans[i];
    pl->me = i; pl->n = rounds; pl->clob = 1;
    for (int j = 0; j < rounds; ++j) { pl->kinds[j] = K_USLEEP; pl->a[j] = 10000; pl->b[j] = 0; }
  }
  plan_t* vic = &plans[nf];
  vic->me = nf; vic->n = 1; vic->clob = 0; vic->kinds[0] = K_USLEEP; vic->a[0] = 400000; vic->b[0] = 0;
  hold_after_schedule = hold_ms;
  /* ticks start only when every sleeper has started, plus a grace period in
   * which they all reach the tree: they then share one deadline */
  start_driver(150, 1500, 30000, &started, nf + 1);
  for (int i = 0; i <= nf; ++i) { fs[i] = fiber_create(65536, plan_fiber, &plans[i]); fib[i] = fs[i]; }
  decoy.wake_time = 0; decoy.waiter = fs[nf]; decoy.next = NULL; decoy.left = decoy.right = NULL;
  clobber_word = pat ? (uint64_t)(uintptr_t)&decoy : 0;
  for (int i = 0; i <= nf; ++i) fiber_join(fs[i], NULL);
  atomic_store(&finished, 1);
  report_and_exit(0);
  return 0;
}

/* scenario e: N sleepers ("however many fibers sleep concurrently or share a wake-up tick").  Virtual time stands still
 * until every one of them is in the sleeper tree, so they all share one wake tick and become due in one pass of the
 * wake loop.  Compact accounting (the tables above hold 600 fibers): per sleeper the tick of the call, the tick of the
 * return and the number of returns; reported as one summary line
 *   E <N> <returned> <pending> <returned-more-than-once> <min ticks slept> <max ticks slept> <first pending index>    */
static long long e_us;
static uint32_t *e_tc, *e_tw;
static unsigned char* e_cnt;
static void e_report(void) {
  if (!e_n) return;
  long ret = 0, twice = 0, first = -1; uint32_t mn = 0xffffffffu, mx = 0;
  for (int i = 0; i < e_n; ++i) {
    if (e_cnt[i]) { ++ret; const uint32_t d = e_tw[i] - e_tc[i]; if (d < mn) mn = d; if (d > mx) mx = d; }
    else if (first < 0) first = i;
    if (e_cnt[i] > 1) ++twice;
  }
  printf("E %d %ld %ld %ld %u %u %ld %lld %llu\n", e_n, ret, e_n - ret, twice, ret ? mn : 0, mx, first, e_us,
         (unsigned long long)vt_now());
}
static void* e_fiber(void* p) {
  const int i = (int)(intptr_t)p;
  e_tc[i] = (uint32_t)vt_now();
  atomic_fetch_add(&started, 1);
  usleep((useconds_t)e_us);
  e_tw[i] = (uint32_t)vt_now();
  if (e_cnt[i] < 250) e_cnt[i]++;
  atomic_fetch_add(&e_done, 1);
  return NULL;
}
static int scn_e(int argc, char** argv) {
  const int nthreads = argc > 0 ? atoi(argv[0]) : 1;
  e_n = argc > 1 ? atoi(argv[1]) : 20000;
  e_us = argc > 2 ? atoll(argv[2]) : 1000;
  e_tc = calloc(e_n, sizeof *e_tc); e_tw = calloc(e_n, sizeof *e_tw); e_cnt = calloc(e_n, 1);
  fiber_t** fs = calloc(e_n, sizeof *fs);
  fiber_manager_init(nthreads);
  nfib = 0;
  /* ticks start only when every sleeper has started, plus a grace period in which the last ones reach the tree */
  start_driver(1000, 400, 50000, &started, e_n);
  for (int i = 0; i < e_n; ++i) {
    fs[i] = fiber_create(16384, e_fiber, (void*)(intptr_t)i);
    if (!fs[i]) {   /* the machine's limit (vm.max_map_count: two mappings per fiber stack), not the library's */
      printf("I create_failed %d\n", i);
      e_n = 0;
      report_and_exit(5);
    }
  }
  for (int i = 0; i < e_n; ++i) fiber_join(fs[i], NULL);
  atomic_store(&finished, 1);
  report_and_exit(0);
  return 0;
}

/* scenario d: a list of durations through every entry point, one kernel
 * thread or more; `kind a b` triples on the command line.                 */
static int scn_d(int argc, char** argv) {
  const int nthreads = argc > 0 ? atoi(argv[0]) : 1;
  const uint64_t budget = argc > 1 ? strtoull(argv[1], NULL, 10) : 3000;
  fiber_manager_init(nthreads);
  nfib = 1;
  plan_t* pl = &plans[0];
  pl->me = 0; pl->clob = 0; pl->n = 0;
  for (int i = 2; i + 2 < argc && pl->n < MAXS; i += 3) {
    pl->kinds[pl->n] = atoi(argv[i]); pl->a[pl->n] = atoll(argv[i + 1]); pl->b[pl->n] = atoll(argv[i + 2]); pl->n++;
  }
  start_driver(60, budget, 0, NULL, 0);
  fiber_t* f = fiber_create(65536, plan_fiber, pl);
  fib[0] = f;
  fiber_join(f, NULL);
  atomic_store(&finished, 1);
  report_and_exit(0);
  return 0;
}

static void on_fatal(int sig) {
  char msg[64];
  int n = snprintf(msg, sizeof msg, "CRASH signal %d\n", sig);
  fflush(stdout);
  if (write(1, msg, n)) { }
  report_and_exit(4);
}

int main(int argc, char** argv) {
  if (argc < 2) return 2;
  if (!strcmp(argv[1], "tree")) return mode_tree();
  if (!strcmp(argv[1], "arith")) return mode_arith();
  if (!strcmp(argv[1], "rt") && argc >= 3) {
    setvbuf(stdout, NULL, _IOFBF, 1 << 20);
    signal(SIGSEGV, on_fatal); signal(SIGBUS, on_fatal); signal(SIGILL, on_fatal); signal(SIGABRT, on_fatal);
    alarm(argc > 3 && !strcmp(argv[2], "d") ? 60 : 30);
    const char* s = argv[2];
    if (!strcmp(s, "a")) return scn_a(argc - 3, argv + 3);
    if (!strcmp(s, "a2")) return scn_a2(argc - 3, argv + 3);
    if (!strcmp(s, "b")) return scn_b(argc - 3, argv + 3);
    if (!strcmp(s, "c")) return scn_c(argc - 3, argv + 3);
    if (!strcmp(s, "d")) return scn_d(argc - 3, argv + 3);
    if (!strcmp(s, "e")) { alarm(300); return scn_e(argc - 3, argv + 3); }
  }
  return 2;
}
