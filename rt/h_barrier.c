/* Lock-step harness for src/fiber_barrier.c on the T1 machine (C12).
 * params: dmax, count [, lists: ignored here [, start = initial value of barrier->counter]].  A fiber's program = one op ("wait") per consecutive
 * round.  Before its k-th call the fiber emits (k, K_EV, 1) "entered round k",
 * after it (k, K_RET, r) with r = return value (1 = serial fiber). */
#include "harness.h"
#include "t1.h"
#include "fiber_barrier.h"

static fiber_barrier_t bar;
static hcase_t* cur;
#define NN 64
static mpsc_fifo_node_t nodes[NN];

static void prog(int t) {
  for (int k = 0; k < cur->nops[t]; k++) {
    rt_event(k + 1, K_EV, 1);
    long r = fiber_barrier_wait(&bar);
    rt_event(k + 1, K_RET, r);
  }
}

static void h_run_case(hcase_t* c) {
  cur = c;
  int dmax = (int)c->params[0];
  long count = c->nparams > 1 ? c->params[1] : 0;
  int n = c->nthreads;
  if (count < 1 || n < 1) { printf("-1\n"); return; }
  memset(nodes, 0, sizeof nodes);
  t1_setup(n);
  /* barrier by hand, mirroring fiber_barrier_init, with the stub nodes from our array.
   * `waiters` is an array of two lists in the repaired code (one list in the
   * original): address it as an array of mpsc_fifo_t whatever its declared shape,
   * so that this harness also builds against a tree with the fix reverted. */
  mpsc_fifo_t* const w = (mpsc_fifo_t*)&bar.waiters;
  const int nlists = (int)(sizeof bar.waiters / sizeof(mpsc_fifo_t));
  memset(&bar, 0x5a, sizeof bar);
  fiber_barrier_init(&bar, (uint32_t)count);   /* the real init sets every field (also derived ones a change adds) */
  if (c->nparams > 3 && c->params[3]) bar.counter = (uint64_t)c->params[3];   /* a whole number of completed rounds */
  for (int q = 0; q < nlists; q++) {
    free(w[q].head);
    w[q].head = &nodes[q]; w[q].tail = &nodes[q];
    rt_reg((void*)&w[q].head, 8, 301 + 10 * q, 8);
    rt_reg((void*)&w[q].tail, 8, 302 + 10 * q, 8);
  }
  for (int t = 0; t < n; t++) {
    fiber_t* f = t1_fiber_of(t);
    free(f->mpsc_fifo_node);
    f->mpsc_fifo_node = &nodes[2 + t];
    rt_reg((void*)&f->state, 4, 200 + t, 4);
    rt_name(f, sizeof *f, 1000 + t, sizeof *f);
  }
  rt_reg((void*)&bar.counter, sizeof bar.counter, 300, sizeof bar.counter);
  rt_reg(nodes, sizeof nodes, 100, 8);
  rt_reg_rest(&bar, sizeof bar, 3900);
  rt_name(nodes, sizeof nodes, 1, sizeof nodes[0]);
  t1_run(n, prog, c->sched, c->nsched, dmax);
  rt_print_trace();
}
int main(void) { return h_main(); }
