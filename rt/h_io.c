/* C08 differential harness (NOT lock-step): the same small script is executed
 *   (i)  "impl": by fibers over libfiber's I/O shims (real libfiber built from
 *        the working tree, linked statically into this executable, so that
 *        read/write/... resolve to src/fiber_io.c), and
 *   (ii) "ref":  by plain pthreads over libc (function pointers obtained with
 *        dlsym(RTLD_NEXT, ...), libfiber never initialised),
 * one forked child per script with a deadline (HANG) and crash detection.
 * The check module (tools/vf/props/C08.py) compares the two result lines.
 *
 * Compiled twice:
 *   -DH_IO_REC -shared -fPIC  -> libh_io_rec.so, a pass-through interposer that
 *        sits between the shims' dlsym(RTLD_NEXT, ...) and libc and reports each
 *        real call (and each epoll_ctl of the event layer) to a hook, so that
 *        the model replay knows what the kernel answered to every real call;
 *   (no define)               -> the harness.
 *
 * usage: h_io impl|ref   < scripts   (one script per line, integers)
 *   script := nkt timeout_ms nobj kind{nobj} nthr ( nops (op slot a b){nops} ){nthr}
 *   object k owns slots 2k, 2k+1.  kinds: 0 socketpair(AF_UNIX,STREAM)
 *     1 pipe (2k read end, 2k+1 write end)   2 TCP loopback pair (8 KiB buffers)
 *     3 TCP listener in slot 2k   4 socketpair with 4 KiB SO_SNDBUF
 *   slots <0: bad descriptors  -1:-1  -2:max_fd  -3:max_fd+7  -4:INT_MAX
 *     -5: a descriptor closed during setup  -6: max_fd-1 (never opened)
 *   slot 100+t: the descriptor thread t last obtained from ACCEPT/CONNECT/CLOSE_RACE.
 *   slot 200+t: the peer of the socketpair created during thread t's CLOSE_RACE.
 */
#ifndef _GNU_SOURCE
#define _GNU_SOURCE
#endif
#include <dlfcn.h>
#include <errno.h>
#include <fcntl.h>
#include <limits.h>
#include <stdarg.h>
#include <stdint.h>
#include <stdio.h>
#include <stdlib.h>
#include <string.h>
#include <sys/epoll.h>
#include <sys/ioctl.h>
#include <sys/resource.h>
#include <sys/socket.h>
#include <sys/types.h>
#include <sys/uio.h>
#include <unistd.h>

/* codes of the recorded real calls (also the shim codes of the script ops) */
enum { C_READ = 1, C_WRITE, C_RECV, C_SEND, C_READV, C_WRITEV, C_RECVFROM, C_SENDTO,
       C_RECVMSG, C_SENDMSG, C_ACCEPT, C_CONNECT, C_CLOSE, C_FCNTL, C_IOCTL,
       C_PIPE, C_SOCKET, C_SOCKETPAIR, C_EPOLL_CTL = 30 };

typedef void (*h_rec_hook_t)(int code, int fd, long ret, int err, long extra);

#ifdef H_IO_REC
/* ------------------------------------------------------------------------ */
/* pass-through recorder                                                     */
/* ------------------------------------------------------------------------ */
static h_rec_hook_t hook;
void h_rec_set_hook(h_rec_hook_t h) { hook = h; }
#define NEXT(T, name) static __typeof__(T) fn; if (!fn) fn = (__typeof__(T))dlsym(RTLD_NEXT, name)
#define REPORT(code, fd, r, x) do { if (hook) { int e_ = errno; hook(code, fd, (long)(r), e_, (long)(x)); errno = e_; } } while (0)

ssize_t read(int fd, void* b, size_t n) {
  NEXT(ssize_t (*)(int, void*, size_t), "read"); ssize_t r = fn(fd, b, n); REPORT(C_READ, fd, r, n); return r; }
ssize_t write(int fd, const void* b, size_t n) {
  NEXT(ssize_t (*)(int, const void*, size_t), "write"); ssize_t r = fn(fd, b, n); REPORT(C_WRITE, fd, r, n); return r; }
ssize_t readv(int fd, const struct iovec* v, int c) {
  NEXT(ssize_t (*)(int, const struct iovec*, int), "readv"); ssize_t r = fn(fd, v, c); REPORT(C_READV, fd, r, c); return r; }
ssize_t writev(int fd, const struct iovec* v, int c) {
  NEXT(ssize_t (*)(int, const struct iovec*, int), "writev"); ssize_t r = fn(fd, v, c); REPORT(C_WRITEV, fd, r, c); return r; }
ssize_t recv(int fd, void* b, size_t n, int f) {
  NEXT(ssize_t (*)(int, void*, size_t, int), "recv"); ssize_t r = fn(fd, b, n, f); REPORT(C_RECV, fd, r, f); return r; }
ssize_t send(int fd, const void* b, size_t n, int f) {
  NEXT(ssize_t (*)(int, const void*, size_t, int), "send"); ssize_t r = fn(fd, b, n, f); REPORT(C_SEND, fd, r, f); return r; }
ssize_t recvfrom(int fd, void* b, size_t n, int f, struct sockaddr* a, socklen_t* l) {
  NEXT(ssize_t (*)(int, void*, size_t, int, struct sockaddr*, socklen_t*), "recvfrom");
  ssize_t r = fn(fd, b, n, f, a, l); REPORT(C_RECVFROM, fd, r, f); return r; }
ssize_t sendto(int fd, const void* b, size_t n, int f, const struct sockaddr* a, socklen_t l) {
  NEXT(ssize_t (*)(int, const void*, size_t, int, const struct sockaddr*, socklen_t), "sendto");
  ssize_t r = fn(fd, b, n, f, a, l); REPORT(C_SENDTO, fd, r, f); return r; }
ssize_t recvmsg(int fd, struct msghdr* m, int f) {
  NEXT(ssize_t (*)(int, struct msghdr*, int), "recvmsg"); ssize_t r = fn(fd, m, f); REPORT(C_RECVMSG, fd, r, f); return r; }
ssize_t sendmsg(int fd, const struct msghdr* m, int f) {
  NEXT(ssize_t (*)(int, const struct msghdr*, int), "sendmsg"); ssize_t r = fn(fd, m, f); REPORT(C_SENDMSG, fd, r, f); return r; }
int accept(int fd, struct sockaddr* a, socklen_t* l) {
  NEXT(int (*)(int, struct sockaddr*, socklen_t*), "accept"); int r = fn(fd, a, l); REPORT(C_ACCEPT, fd, r, 0); return r; }
int connect(int fd, const struct sockaddr* a, socklen_t l) {
  NEXT(int (*)(int, const struct sockaddr*, socklen_t), "connect"); int r = fn(fd, a, l); REPORT(C_CONNECT, fd, r, 0); return r; }
int close(int fd) {
  NEXT(int (*)(int), "close"); int r = fn(fd); REPORT(C_CLOSE, fd, r, 0); return r; }
int fcntl(int fd, int cmd, ...) {
  va_list ap; va_start(ap, cmd); long v = va_arg(ap, long); va_end(ap);
  NEXT(int (*)(int, int, ...), "fcntl"); int r = fn(fd, cmd, v); REPORT(C_FCNTL, fd, r, cmd); return r; }
int ioctl(int fd, unsigned long req, ...) {
  va_list ap; va_start(ap, req); void* v = va_arg(ap, void*); va_end(ap);
  NEXT(int (*)(int, unsigned long, ...), "ioctl"); int r = fn(fd, req, v); REPORT(C_IOCTL, fd, r, req); return r; }
int socket(int d, int t, int p) {
  NEXT(int (*)(int, int, int), "socket"); int r = fn(d, t, p); REPORT(C_SOCKET, -1, r, 0); return r; }
int socketpair(int d, int t, int p, int sv[2]) {
  NEXT(int (*)(int, int, int, int[2]), "socketpair"); int r = fn(d, t, p, sv); REPORT(C_SOCKETPAIR, -1, r, 0); return r; }
int pipe(int sv[2]) {
  NEXT(int (*)(int[2]), "pipe"); int r = fn(sv); REPORT(C_PIPE, -1, r, 0); return r; }
int epoll_ctl(int ep, int op, int fd, struct epoll_event* e) {
  NEXT(int (*)(int, int, int, struct epoll_event*), "epoll_ctl");
  long ev = e ? (long)e->events : 0; int r = fn(ep, op, fd, e); REPORT(C_EPOLL_CTL, fd, r, op * 0x100000000L + ev); return r; }

#else
/* ------------------------------------------------------------------------ */
/* harness                                                                   */
/* ------------------------------------------------------------------------ */
#include <netinet/in.h>
#include <pthread.h>
#include <signal.h>
#include <sys/mman.h>
#include <sys/wait.h>
#include <time.h>

#include "fiber.h"
#include "fiber_manager.h"

extern void h_rec_set_hook(h_rec_hook_t h);

enum { O_READ = 1, O_WRITE, O_RECV, O_SEND, O_READV, O_WRITEV, O_RECVFROM, O_SENDTO, O_RECVMSG,
       O_SENDMSG, O_READ_ALL, O_WRITE_ALL, O_FCNTL_NB, O_FIONBIO, O_CLOSE, O_ACCEPT, O_CONNECT,
       O_SLEEP, O_BARRIER, O_SHUTWR, O_SETFL, O_GETFL, O_IDIOM, O_CLOSE_RACE };

#define MAXT 12
#define MAXOPS 48
#define MAXOBJ 8
#define MAXLOG 30000
#define NSLOT (2 * MAXOBJ)
#define DYN 100

typedef struct { int op, slot; long a, b; } op_t;
typedef struct { int done; long ret; int ec, en; long calls; } res_t;
typedef struct { long cnt; uint32_t sum, fnv; } rx_t;
typedef struct { int tid, kind; long a, b, c; } log_t;

typedef struct {
  /* script */
  int nkt, timeout_ms, nobj, kind[MAXOBJ], nthr, nops[MAXT + 1];
  op_t ops[MAXT + 1][MAXOPS];
  /* results (shared with the parent) */
  res_t res[MAXT + 1][MAXOPS];
  rx_t rx[MAXT + 1][NSLOT + MAXT + 2];
  long tx[MAXT + 1][NSLOT + MAXT + 2];
  int finished[MAXT + 1];
  int setup_done, all_done;
  int bad_invariant; char bad_text[200];
  volatile int nlog; log_t log[MAXLOG];
  volatile int bar[8];
  int sndbuf[NSLOT];
} shared_t;

static shared_t* S;
static int impl_mode;
static long max_fd;
static int fds[NSLOT], dynfd[MAXT + 2], dynfd2[MAXT + 2], closed_fd = -1;
static volatile int race_arm[MAXT + 1];
static struct sockaddr_in laddr[MAXOBJ];

/* the calls under test: the shims (impl) or libc (ref) */
static struct {
  ssize_t (*read)(int, void*, size_t); ssize_t (*write)(int, const void*, size_t);
  ssize_t (*readv)(int, const struct iovec*, int); ssize_t (*writev)(int, const struct iovec*, int);
  ssize_t (*recv)(int, void*, size_t, int); ssize_t (*send)(int, const void*, size_t, int);
  ssize_t (*recvfrom)(int, void*, size_t, int, struct sockaddr*, socklen_t*);
  ssize_t (*sendto)(int, const void*, size_t, int, const struct sockaddr*, socklen_t);
  ssize_t (*recvmsg)(int, struct msghdr*, int); ssize_t (*sendmsg)(int, const struct msghdr*, int);
  int (*accept)(int, struct sockaddr*, socklen_t*); int (*connect)(int, const struct sockaddr*, socklen_t);
  int (*close)(int); int (*fcntl)(int, int, ...); int (*ioctl)(int, unsigned long, ...);
  int (*pipe)(int[2]); int (*socket)(int, int, int); int (*socketpair)(int, int, int, int[2]);
  int (*usleep)(useconds_t);
} io;

static void io_bind(void) {
  if (impl_mode) {
    io.read = read; io.write = write; io.readv = readv; io.writev = writev; io.recv = recv; io.send = send;
    io.recvfrom = recvfrom; io.sendto = sendto; io.recvmsg = recvmsg; io.sendmsg = sendmsg;
    io.accept = accept; io.connect = connect; io.close = close; io.fcntl = fcntl;
    io.ioctl = (int (*)(int, unsigned long, ...))ioctl;
    io.pipe = pipe; io.socket = socket; io.socketpair = socketpair; io.usleep = usleep;
  } else {
#define L(n) *(void**)&io.n = dlsym(RTLD_NEXT, #n)
    L(read); L(write); L(readv); L(writev); L(recv); L(send); L(recvfrom); L(sendto); L(recvmsg); L(sendmsg);
    L(accept); L(connect); L(close); L(fcntl); L(ioctl); L(pipe); L(socket); L(socketpair); L(usleep);
#undef L
  }
}

/* ---- who is running ---------------------------------------------------- */
static fiber_t* fib[MAXT + 1];
static __thread int ref_tid;
static volatile int inshim[MAXT + 1];

static int cur_tid(void) {
  if (!impl_mode) return ref_tid;
  fiber_manager_t* m = fiber_manager_get();
  if (!m) return -1;
  fiber_t* f = m->current_fiber;
  for (int t = 0; t <= S->nthr; t++) if (fib[t] == f) return t;
  return -1;
}

static void logev(int tid, int kind, long a, long b, long c) {
  int i = __atomic_fetch_add(&S->nlog, 1, __ATOMIC_SEQ_CST);
  if (i >= MAXLOG) { __atomic_store_n(&S->nlog, MAXLOG, __ATOMIC_SEQ_CST); return; }
  S->log[i].tid = tid; S->log[i].kind = kind; S->log[i].a = a; S->log[i].b = b; S->log[i].c = c;
}

static int eclass(long ret, int en) {
  if (ret >= 0) return 0;
  if (en == EAGAIN || en == EWOULDBLOCK) return 1;
  if (en == EBADF) return 2;
  if (en == EINPROGRESS) return 4;
  return 3;
}

static void race_create(int tid);
/* real-call hook (impl only): kind 2 = real call, kind 3 = epoll_ctl of the event layer */
static void rec_hook(int code, int fd, long ret, int err, long extra) {
  int t = cur_tid();
  if (t < 0 || !inshim[t]) return;
  if (code == C_EPOLL_CTL) logev(t, 3, fd, extra >> 32, extra & 0xffffffffL);
  else logev(t, 2, code, ret < 0 ? -1 : ret, eclass(ret, err) * 1000 + (ret < 0 ? err : 0));
  if (code == C_CLOSE && ret == 0 && race_arm[t]) race_create(t);
}

/* a fiber may resume on another kernel thread inside a shim; glibc declares __errno_location()
   const, so errno must be accessed through calls the compiler cannot merge */
static __attribute__((noinline)) int get_errno(void) { return errno; }
static __attribute__((noinline)) void set_errno(int e) { errno = e; }

#define BEGIN(code, fd, fl) do { if (impl_mode) { logev(tid, 1, code, fd, fl); inshim[tid] = 1; } set_errno(0); } while (0)
#define END(r) do { int e_ = get_errno(); if (impl_mode) { inshim[tid] = 0; logev(tid, 4, (r) < 0 ? -1 : (long)(r), eclass((r), e_), e_); } set_errno(e_); } while (0)

#define NEWFD(fd) do { if (impl_mode && (fd) >= 0) logev(tid, 5, (fd), 0, 0); } while (0)

/* CLOSE_RACE: what another kernel thread does the moment close(2) has released the descriptor number: it creates
 * a socketpair (through the calls under test), which normally receives the number just released.  Over the shims this
 * runs from the real-call hook, i.e. exactly when the real close returns inside the close() shim; in the reference
 * run right after close().  The new descriptors must be ordinary blocking-mode descriptors afterwards. */
static void race_create(int tid) {
  int sv[2] = {-1, -1};
  int was = inshim[tid], e = get_errno();
  race_arm[tid] = 0;
  inshim[tid] = 0;
  if (io.socketpair(AF_UNIX, SOCK_STREAM, 0, sv) == 0) { dynfd[tid] = sv[0]; dynfd2[tid] = sv[1]; }
  inshim[tid] = was;
  set_errno(e);
}

/* ---- time -------------------------------------------------------------- */
static long now_ms(void) { struct timespec ts; clock_gettime(CLOCK_MONOTONIC, &ts); return ts.tv_sec * 1000L + ts.tv_nsec / 1000000; }
/* robust against early wake-ups of fiber_sleep (F-C09a): loop on the clock */
static void sleep_ms(long ms) { long end = now_ms() + ms; while (now_ms() < end) io.usleep(500); }

/* ---- descriptors ------------------------------------------------------- */
static int slot_fd(int tid, int slot) {
  switch (slot) {
    case -1: return -1;
    case -2: return (int)max_fd;
    case -3: return (int)max_fd + 7;
    case -4: return INT_MAX;
    case -5: return closed_fd;
    case -6: return (int)max_fd - 1;
  }
  if (slot >= 2 * DYN && slot <= 2 * DYN + MAXT) return dynfd2[slot - 2 * DYN];
  if (slot >= DYN && slot <= DYN + MAXT) return dynfd[slot - DYN];
  if (slot >= 0 && slot < NSLOT) return fds[slot];
  return -1;
}
static int slot_ix(int slot) { return slot >= 2 * DYN ? NSLOT + MAXT + 1 : slot >= DYN ? NSLOT + (slot - DYN) : (slot >= 0 && slot < NSLOT ? slot : NSLOT + MAXT + 1); }

/* byte k that thread t sends on a slot */
static inline unsigned char pat(int tid, int slot, long k) { return (unsigned char)((k * 131 + (k >> 8) * 7 + tid * 29 + slot * 17 + 1) & 0xff); }

static unsigned char* bufs[MAXT + 1];
#define BUFSZ (1 << 21)

static void account_rx(int tid, int slot, const unsigned char* b, long n) {
  rx_t* r = &S->rx[tid][slot_ix(slot)];
  if (!r->cnt && !r->fnv) r->fnv = 2166136261u;
  for (long i = 0; i < n; i++) { r->sum += b[i]; r->fnv = (r->fnv ^ b[i]) * 16777619u; }
  r->cnt += n;
}
static void fill_tx(int tid, int slot, unsigned char* b, long n) {
  long off = S->tx[tid][slot_ix(slot)];
  for (long i = 0; i < n; i++) b[i] = pat(tid, slot, off + i);
}

static void invariant(const char* what, int tid, int i) {
  if (!S->bad_invariant) { S->bad_invariant = 1; snprintf(S->bad_text, sizeof S->bad_text, "%s (thread %d op %d)", what, tid, i); }
}

/* one receive-type call through variant v (0 read 1 recv 2 readv 3 recvfrom 4 recvmsg) */
static long rx_call(int tid, int v, int slot, long n, int fl) {
  int fd = slot_fd(tid, slot); unsigned char* b = bufs[tid]; long r;
  if (n > BUFSZ) n = BUFSZ;
  struct iovec iv[2] = {{b, n / 2}, {b + n / 2, n - n / 2}};
  struct msghdr mh; memset(&mh, 0, sizeof mh); mh.msg_iov = iv; mh.msg_iovlen = 2;
  switch (v) {
    case 0: BEGIN(C_READ, fd, 0); r = io.read(fd, b, n); END(r); break;
    case 1: BEGIN(C_RECV, fd, (fl & MSG_DONTWAIT) ? 1 : 0); r = io.recv(fd, b, n, fl); END(r); break;
    case 2: BEGIN(C_READV, fd, 0); r = io.readv(fd, iv, 2); END(r); break;
    case 3: BEGIN(C_RECVFROM, fd, (fl & MSG_DONTWAIT) ? 1 : 0); r = io.recvfrom(fd, b, n, fl, NULL, NULL); END(r); break;
    default: BEGIN(C_RECVMSG, fd, (fl & MSG_DONTWAIT) ? 1 : 0); r = io.recvmsg(fd, &mh, fl); END(r); break;
  }
  int e = get_errno();
  if (r > 0) account_rx(tid, slot, b, r);
  set_errno(e);
  return r;
}
/* one send-type call through variant v (0 write 1 send 2 writev 3 sendto 4 sendmsg) */
static long tx_call(int tid, int v, int slot, long n, int fl) {
  int fd = slot_fd(tid, slot); unsigned char* b = bufs[tid]; long r;
  if (n > BUFSZ) n = BUFSZ;
  fill_tx(tid, slot, b, n);
  struct iovec iv[2] = {{b, n / 2}, {b + n / 2, n - n / 2}};
  struct msghdr mh; memset(&mh, 0, sizeof mh); mh.msg_iov = iv; mh.msg_iovlen = 2;
  switch (v) {
    case 0: BEGIN(C_WRITE, fd, 0); r = io.write(fd, b, n); END(r); break;
    case 1: BEGIN(C_SEND, fd, (fl & MSG_DONTWAIT) ? 1 : 0); r = io.send(fd, b, n, fl); END(r); break;
    case 2: BEGIN(C_WRITEV, fd, 0); r = io.writev(fd, iv, 2); END(r); break;
    case 3: BEGIN(C_SENDTO, fd, (fl & MSG_DONTWAIT) ? 1 : 0); r = io.sendto(fd, b, n, fl, NULL, 0); END(r); break;
    default: BEGIN(C_SENDMSG, fd, (fl & MSG_DONTWAIT) ? 1 : 0); r = io.sendmsg(fd, &mh, fl); END(r); break;
  }
  int e = get_errno();
  if (r > 0) S->tx[tid][slot_ix(slot)] += r;
  set_errno(e);
  return r;
}

static int mkflags(long b) { return (b & 1 ? MSG_DONTWAIT : 0) | MSG_NOSIGNAL; }

static void run_ops(int tid) {
  for (int i = 0; i < S->nops[tid]; i++) {
    op_t* o = &S->ops[tid][i]; res_t* R = &S->res[tid][i];
    long r = 0; int fd = slot_fd(tid, o->slot); long calls = 1;
    set_errno(0);
    switch (o->op) {
      case O_READ: r = rx_call(tid, 0, o->slot, o->a, 0); break;
      case O_RECV: r = rx_call(tid, 1, o->slot, o->a, mkflags(o->b)); break;
      case O_READV: r = rx_call(tid, 2, o->slot, o->a, 0); break;
      case O_RECVFROM: r = rx_call(tid, 3, o->slot, o->a, mkflags(o->b)); break;
      case O_RECVMSG: r = rx_call(tid, 4, o->slot, o->a, mkflags(o->b)); break;
      case O_WRITE: r = tx_call(tid, 0, o->slot, o->a, 0); break;
      case O_SEND: r = tx_call(tid, 1, o->slot, o->a, mkflags(o->b)); break;
      case O_WRITEV: r = tx_call(tid, 2, o->slot, o->a, 0); break;
      case O_SENDTO: r = tx_call(tid, 3, o->slot, o->a, mkflags(o->b)); break;
      case O_SENDMSG: r = tx_call(tid, 4, o->slot, o->a, mkflags(o->b)); break;
      case O_READ_ALL: {  /* what a blocking-mode program does: loop until n bytes, EOF or error */
        long tot = 0; calls = 0;
        while (tot < o->a) {
          long k = rx_call(tid, (int)o->b, o->slot, o->a - tot, MSG_NOSIGNAL); calls++;
          if (k == 0) break;
          if (k < 0) { r = -1; break; }
          if (k > o->a - tot) invariant("receive returned more than requested", tid, i);
          tot += k;
        }
        if (r >= 0) r = tot;
        break;
      }
      case O_WRITE_ALL: {
        long tot = 0; calls = 0;
        while (tot < o->a) {
          long k = tx_call(tid, (int)o->b, o->slot, o->a - tot, MSG_NOSIGNAL); calls++;
          if (k < 0) { r = -1; break; }
          if (k == 0) { invariant("send of a non-empty buffer returned 0", tid, i); break; }
          if (k > o->a - tot) invariant("send returned more than requested", tid, i);
          tot += k;
        }
        if (r >= 0) r = tot;
        break;
      }
      case O_FCNTL_NB: BEGIN(C_FCNTL, fd, 1); r = io.fcntl(fd, F_SETFL, O_NONBLOCK); END(r); break;
      case O_SETFL: BEGIN(C_FCNTL, fd, o->a == O_NONBLOCK ? 1 : 2 + (o->a & O_NONBLOCK ? 1 : 0)); r = io.fcntl(fd, F_SETFL, o->a); END(r); break;
      case O_GETFL: BEGIN(C_FCNTL, fd, 0); r = io.fcntl(fd, F_GETFL, 0); END(r); if (r >= 0) r = (r & O_NONBLOCK) ? 1 : 0; break;
      case O_IDIOM: {  /* fl = fcntl(F_GETFL); fcntl(F_SETFL, fl | O_NONBLOCK) or fl & ~O_NONBLOCK */
        BEGIN(C_FCNTL, fd, 0); long fl = io.fcntl(fd, F_GETFL, 0); END(fl);
        if (fl < 0) { r = fl; break; }
        fl = o->a ? (fl | O_NONBLOCK) : (fl & ~O_NONBLOCK);
        BEGIN(C_FCNTL, fd, fl == O_NONBLOCK ? 1 : 2 + (o->a ? 1 : 0)); r = io.fcntl(fd, F_SETFL, fl); END(r); calls = 2; break;
      }
      case O_FIONBIO: { int on = (int)o->a; BEGIN(C_IOCTL, fd, on); r = io.ioctl(fd, FIONBIO, &on); END(r); break; }
      case O_CLOSE:
        BEGIN(C_CLOSE, fd, 0); r = io.close(fd); END(r);
        break;
      case O_CLOSE_RACE:
        race_arm[tid] = 1;
        BEGIN(C_CLOSE, fd, 0); r = io.close(fd); END(r);
        if (race_arm[tid]) { int e = get_errno(); race_create(tid); set_errno(e); }
        break;
      case O_SHUTWR: r = shutdown(fd, SHUT_WR); break;
      case O_ACCEPT: {
        BEGIN(C_ACCEPT, fd, 0); r = io.accept(fd, NULL, NULL); END(r);
        int e = get_errno(); NEWFD((int)r); if (r >= 0) { dynfd[tid] = (int)r; r = 1; } set_errno(e); break;
      }
      case O_CONNECT: {
        int e, obj = o->slot / 2;
        BEGIN(C_SOCKET, -1, 0); int s = io.socket(AF_INET, SOCK_STREAM, 0); END(s);
        if (s < 0) { r = -1; break; }
        NEWFD(s);
        BEGIN(C_CONNECT, s, 0); r = io.connect(s, (struct sockaddr*)&laddr[obj], sizeof laddr[obj]); END(r);
        e = get_errno(); dynfd[tid] = s; set_errno(e); calls = 2; break;
      }
      case O_SLEEP: sleep_ms(o->a); break;
      case O_BARRIER: {
        __atomic_fetch_add(&S->bar[o->a & 7], 1, __ATOMIC_SEQ_CST);
        while (__atomic_load_n(&S->bar[o->a & 7], __ATOMIC_SEQ_CST) < o->b) io.usleep(300);
        break;
      }
      default: r = -2; break;
    }
    R->en = get_errno(); R->ret = r; R->ec = eclass(r, R->en); R->calls = calls;
    __atomic_store_n(&R->done, 1, __ATOMIC_SEQ_CST);
  }
  __atomic_store_n(&S->finished[tid], 1, __ATOMIC_SEQ_CST);
}

static void* fiber_body(void* p) { run_ops((int)(intptr_t)p); return NULL; }
static void* thread_body(void* p) { ref_tid = (int)(intptr_t)p; run_ops(ref_tid); return NULL; }

/* ---- setup (thread 0 = the main fiber / main thread) ------------------- */
static int setbuf_sz(int fd, int sz) {
  return setsockopt(fd, SOL_SOCKET, SO_SNDBUF, &sz, sizeof sz) | setsockopt(fd, SOL_SOCKET, SO_RCVBUF, &sz, sizeof sz);
}
static int setup(void) {
  const int tid = 0;
  for (int i = 0; i < NSLOT; i++) fds[i] = -1;
  for (int k = 0; k < S->nobj; k++) {
    int sv[2] = {-1, -1}, r = 0;
    switch (S->kind[k]) {
      case 0: case 4:
        BEGIN(C_SOCKETPAIR, -1, 0); r = io.socketpair(AF_UNIX, SOCK_STREAM, 0, sv); END(r);
        if (!r) { NEWFD(sv[0]); NEWFD(sv[1]); }
        if (!r && S->kind[k] == 4) { int sz = 4096; setsockopt(sv[0], SOL_SOCKET, SO_SNDBUF, &sz, sizeof sz); setsockopt(sv[1], SOL_SOCKET, SO_SNDBUF, &sz, sizeof sz); }
        break;
      case 1: BEGIN(C_PIPE, -1, 0); r = io.pipe(sv); END(r); if (!r) { NEWFD(sv[0]); NEWFD(sv[1]); } break;
      case 2: case 3: {
        BEGIN(C_SOCKET, -1, 0); int ls = io.socket(AF_INET, SOCK_STREAM, 0); END(ls);
        if (ls < 0) return -1;
        NEWFD(ls);
        struct sockaddr_in a; memset(&a, 0, sizeof a); a.sin_family = AF_INET; a.sin_addr.s_addr = htonl(INADDR_LOOPBACK);
        if (S->kind[k] == 2) setbuf_sz(ls, 8192);
        if (bind(ls, (struct sockaddr*)&a, sizeof a) || listen(ls, 16)) return -1;
        socklen_t l = sizeof a; getsockname(ls, (struct sockaddr*)&a, &l); laddr[k] = a;
        if (S->kind[k] == 3) { sv[0] = ls; break; }
        BEGIN(C_SOCKET, -1, 0); int c = io.socket(AF_INET, SOCK_STREAM, 0); END(c);
        if (c < 0) return -1;
        NEWFD(c);
        setbuf_sz(c, 8192);
        BEGIN(C_CONNECT, c, 0); r = io.connect(c, (struct sockaddr*)&a, sizeof a); END(r);
        if (r) return -1;
        BEGIN(C_ACCEPT, ls, 0); int s = io.accept(ls, NULL, NULL); END(s);
        if (s < 0) return -1;
        NEWFD(s);
        BEGIN(C_CLOSE, ls, 0); io.close(ls); END(0);
        sv[0] = s; sv[1] = c; r = 0; break;
      }
      default: return -1;
    }
    if (r) return -1;
    fds[2 * k] = sv[0]; fds[2 * k + 1] = sv[1];
    for (int j = 0; j < 2; j++) {
      int v = 0; socklen_t l = sizeof v;
      if (sv[j] >= 0 && !getsockopt(sv[j], SOL_SOCKET, SO_SNDBUF, &v, &l)) S->sndbuf[2 * k + j] = v;
    }
  }
  /* a descriptor number that is in range and closed */
  closed_fd = dup2(2, 1500);
  if (closed_fd >= 0) { BEGIN(C_CLOSE, closed_fd, 0); io.close(closed_fd); END(0); }
  return 0;
}

static void child(void) {
  struct rlimit rl; getrlimit(RLIMIT_NOFILE, &rl); max_fd = (long)rl.rlim_max;
  signal(SIGPIPE, SIG_IGN);
  for (int t = 0; t <= S->nthr; t++) { bufs[t] = malloc(BUFSZ); dynfd[t] = -1; dynfd2[t] = -1; }
  io_bind();
  if (impl_mode) {
    fiber_manager_init(S->nkt);
    fib[0] = fiber_manager_get()->current_fiber;
    h_rec_set_hook(rec_hook);
    if (setup()) _exit(9);
    __atomic_store_n(&S->setup_done, 1, __ATOMIC_SEQ_CST);
    for (int t = 1; t <= S->nthr; t++) fib[t] = fiber_create(256 * 1024, fiber_body, (void*)(intptr_t)t);
    for (int t = 1; t <= S->nthr; t++) fiber_join(fib[t], NULL);
  } else {
    pthread_t th[MAXT + 1];
    if (setup()) _exit(9);
    __atomic_store_n(&S->setup_done, 1, __ATOMIC_SEQ_CST);
    for (int t = 1; t <= S->nthr; t++) pthread_create(&th[t], NULL, thread_body, (void*)(intptr_t)t);
    for (int t = 1; t <= S->nthr; t++) pthread_join(th[t], NULL);
  }
  __atomic_store_n(&S->all_done, 1, __ATOMIC_SEQ_CST);
  _exit(0);
}

/* ---- parent ------------------------------------------------------------ */
static int parse(char* line) {
  long v[4096]; int n = 0; char* p = line; char* e;
  for (;;) { long x = strtol(p, &e, 10); if (e == p) break; if (n < 4096) v[n++] = x; p = e; }
  int i = 0;
#define NEED(k) if (i + (k) > n) return 0
  NEED(3); S->nkt = (int)v[i++]; S->timeout_ms = (int)v[i++]; S->nobj = (int)v[i++];
  if (S->nkt < 1 || S->nkt > 4 || S->nobj < 0 || S->nobj > MAXOBJ) return 0;
  NEED(S->nobj); for (int k = 0; k < S->nobj; k++) S->kind[k] = (int)v[i++];
  NEED(1); S->nthr = (int)v[i++];
  if (S->nthr < 0 || S->nthr > MAXT) return 0;
  for (int t = 1; t <= S->nthr; t++) {
    NEED(1); S->nops[t] = (int)v[i++];
    if (S->nops[t] < 0 || S->nops[t] > MAXOPS) return 0;
    NEED(4 * S->nops[t]);
    for (int k = 0; k < S->nops[t]; k++) { op_t* o = &S->ops[t][k]; o->op = (int)v[i++]; o->slot = (int)v[i++]; o->a = v[i++]; o->b = v[i++]; }
  }
  return 1;
}

static void report(const char* status, long code) {
  printf("STATUS %s %ld %d;", status, code, S->setup_done);
  if (S->bad_invariant) { printf("INV %s;", S->bad_text); }
  for (int t = 1; t <= S->nthr; t++) {
    for (int i = 0; i < S->nops[t]; i++) {
      res_t* R = &S->res[t][i];
      if (R->done) printf("r %d %d %ld %d %d %ld;", t, i, R->ret, R->ec, R->en, R->calls);
      else { printf("u %d %d %d;", t, i, S->ops[t][i].op); break; }
    }
    for (int s = 0; s < NSLOT + MAXT + 2; s++) {
      if (S->rx[t][s].cnt) printf("x %d %d %ld %u %u;", t, s, S->rx[t][s].cnt, S->rx[t][s].sum, S->rx[t][s].fnv);
      if (S->tx[t][s]) printf("w %d %d %ld;", t, s, S->tx[t][s]);
    }
  }
  printf("B"); for (int s = 0; s < 2 * S->nobj; s++) printf(" %d", S->sndbuf[s]); printf(";");
  int n = S->nlog; if (n > MAXLOG) n = MAXLOG;
  if (S->nlog >= MAXLOG) printf("LOGFULL;");
  for (int i = 0; i < n; i++) printf("L %d %d %ld %ld %ld;", S->log[i].tid, S->log[i].kind, S->log[i].a, S->log[i].b, S->log[i].c);
  printf("\n");
  fflush(stdout);
}

int main(int argc, char** argv) {
  impl_mode = argc > 1 && !strcmp(argv[1], "impl");
  S = mmap(NULL, sizeof *S, PROT_READ | PROT_WRITE, MAP_SHARED | MAP_ANONYMOUS, -1, 0);
  if (S == MAP_FAILED) return 2;
  char* line = NULL; size_t cap = 0;
  while (getline(&line, &cap, stdin) > 0) {
    memset(S, 0, sizeof *S);
    if (!parse(line)) { printf("STATUS BADSCRIPT 0 0;\n"); fflush(stdout); continue; }
    fflush(stdout);
    pid_t pid = fork();
    if (pid == 0) { child(); _exit(0); }
    long end = now_ms() + S->timeout_ms; int status = 0, got = 0;
    while (now_ms() < end) {
      if (waitpid(pid, &status, WNOHANG) == pid) { got = 1; break; }
      struct timespec ts = {0, 500000}; nanosleep(&ts, NULL);
    }
    if (!got) { kill(pid, SIGKILL); waitpid(pid, &status, 0); report("HANG", 0); }
    else if (WIFSIGNALED(status)) report("CRASH", WTERMSIG(status));
    else if (WEXITSTATUS(status)) report("EXIT", WEXITSTATUS(status));
    else report("OK", 0);
  }
  return 0;
}
#endif
