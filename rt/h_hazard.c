/* Lock-step harness for include/hazard_pointer.h + src/hazard_pointer.c (C14).
 *
 * src/hazard_pointer.c is #included (not linked) so that the static
 * binary_search() is callable and so that the record allocation (calloc) can be
 * served from a harness pool: a record is registered with the runtime the
 * moment it is allocated, i.e. every access create_and_push makes to the new
 * record is a scheduling point, also before the record is published.
 *
 * params: [0] K   = hazard slots per record (1..4); K = 0 selects the
 *                   binary-search differential mode (see bs_case below)
 *         [1] P   = threads 0..P-1 own a record before the run starts
 *                   (created by the main thread in tid order)
 *         [2] C   = number of shared cells (1..8); cell[j] initially = node j
 *         [3] NN  = number of nodes (C..32); nodes C..NN-1 start in the pool
 *         [4] drain budget
 *         [5] layout: 0 = nodes in one array; 1 = every node on its own page
 *                   inside a 9 GiB PROT_NONE reservation, node k at offset
 *                   {0, 2.5, 5, 8} GiB [k mod 4] + 4096 * (k / 4), so that
 *                   published hazard pointers are >= 2^31 apart (the model
 *                   does not depend on the layout: node names are abstract)
 *         K = -1 selects the comparator differential mode (see cmp_case below)
 * ops (op arg):
 *   1 join            create_and_push for this thread (once; else skipped)
 *   2 protect s*8+j   n = cell[j]; using(rec, n, s); validated iff cell[j]==n
 *   3 clear s         done_using(rec, s)
 *   4 swap j          scheduling point; f = pool_alloc(); old = xchg(cell[j], f);
 *                     hazard_pointer_free(rec, old)      (may scan)
 *   5 use s           read the payload of the node validated in slot s
 *   6 scan            hazard_pointer_scan(rec)
 * A call that is not applicable (no record yet, slot/cell out of range, pool
 * empty, nothing validated in the slot) is skipped and returns -1.
 * ret values: join 1; protect = node name if validated else 0; clear 1;
 *             swap / scan = retired_count after the call; use = payload read
 *             (1 = live, 0 = the node is in the free pool).
 * locs: 0 head; 5 the swap scheduling point; 10+j cell[j];
 *       100r + 0 / 1 / 10+i = record r's next / retire_threshold / slot i
 *       (record of thread t is r = t+1); 2000+k payload of node k.
 * names: record r -> r; node k -> 1000+k.
 * events: (node name) 929 0 = gc callback; (node name) 939 0 = allocation. */
#include "harness.h"
#include <malloc.h>
#include <stdlib.h>
#include <sys/mman.h>

#define MAXK 4
#define MAXC 8
#define MAXN 32
#define NODE_ID 1000
#define K_GC 92
#define K_ALLOC 93
#define NOSAN __attribute__((no_sanitize_thread))

static void* h_calloc(size_t n, size_t sz);
#define calloc(n, sz) h_calloc((n), (sz))
#include "../src/hazard_pointer.c"
#undef calloc

typedef struct { hazard_node_t hz; long payload; } hnode_t;

static hcase_t* cur;
static int K, P, C, NN;
static _Atomic(hazard_pointer_thread_record_t*) hp_head;
static _Atomic(hnode_t*) cell[MAXC];
static hnode_t node_array[MAXN];
static hnode_t* nodev[MAXN]; /* node k lives at nodev[k] */
static int pool[MAXN], npool;
static _Alignas(64) char recpool[RT_MAX_THREADS][256];
static hazard_pointer_thread_record_t* rec_of[RT_MAX_THREADS];
static int creating = -1; /* tid whose record the main thread is creating */

/* everything below touches harness-private bookkeeping or registered memory on
 * behalf of the harness (not of the code under test): no scheduling points */
NOSAN static void* h_calloc(size_t n, size_t sz) {
  int t = creating >= 0 ? creating : rt_self();
  size_t bytes = n * sz;
  if (t < 0 || t >= RT_MAX_THREADS || bytes > sizeof recpool[0]) abort();
  hazard_pointer_thread_record_t* r = (hazard_pointer_thread_record_t*)recpool[t];
  memset(r, 0, sizeof recpool[0]);
  int id = t + 1;
  rt_name(r, sizeof recpool[0], id, sizeof recpool[0]);
  rt_reg(&r->next, sizeof r->next, 100 * id, 8);
  rt_reg((void*)&r->retire_threshold, sizeof r->retire_threshold, 100 * id + 1, 8);
  rt_reg(r->hazard_pointers, sizeof(void*) * K, 100 * id + 10, 8);
  /* search mode only: the rest of this record (fields the model does not know; retired list, plist, counts) */
  rt_reg_rest(r, sizeof recpool[0], 20000 + 256 * t);
  return r;
}
NOSAN static int node_index(hazard_node_t* n) {
  for (int k = 0; k < MAXN; k++) if ((hazard_node_t*)nodev[k] == n) return k;
  abort();
}
NOSAN static long node_name(hazard_node_t* n) { return n ? NODE_ID + node_index(n) : 0; }
NOSAN static void gc_cb(void* data, hazard_node_t* n) {
  (void)data;
  hnode_t* h = (hnode_t*)n;
  h->payload = 0;
  pool[npool++] = node_index(n);
  rt_event(node_name(n), K_GC, 0);
}
NOSAN static hnode_t* pool_alloc(void) {
  if (!npool) return NULL;
  hnode_t* h = nodev[pool[--npool]];
  h->payload = 1;
  rt_event(node_name(&h->hz), K_ALLOC, 0);
  return h;
}
NOSAN static long retired_count_of(hazard_pointer_thread_record_t* r) { return (long)r->retired_count; }

static void body(int t) {
  hazard_pointer_thread_record_t* rec = rec_of[t];
  hnode_t* held[MAXK] = {0};
  for (int k = 0; k < cur->nops[t]; k++) {
    long opc = cur->ops[t][k][0], a = cur->ops[t][k][1];
    long r = -1;
    switch (opc) {
      case 1:
        if (rec) break;
        rec = hazard_pointer_thread_record_create_and_push(&hp_head, K);
        r = 1;
        break;
      case 2: {
        long s = a / 8, j = a % 8;
        if (!rec || a < 0 || s >= K || j >= C) break;
        held[s] = NULL;
        hnode_t* n = atomic_load_explicit(&cell[j], memory_order_acquire);
        hazard_pointer_using(rec, &n->hz, s);
        if (n == atomic_load_explicit(&cell[j], memory_order_acquire)) { held[s] = n; r = node_name(&n->hz); }
        else r = 0;
        break;
      }
      case 3:
        if (!rec || a < 0 || a >= K) break;
        held[a] = NULL;
        hazard_pointer_done_using(rec, a);
        r = 1;
        break;
      case 4: {
        if (!rec || a < 0 || a >= C) break;
        rt_point(5, K_RELAX, 0);
        hnode_t* f = pool_alloc();
        if (!f) break;
        hnode_t* old = atomic_exchange_explicit(&cell[a], f, memory_order_acq_rel);
        hazard_pointer_free(rec, &old->hz);
        r = retired_count_of(rec);
        break;
      }
      case 5:
        if (!rec || a < 0 || a >= K || !held[a]) break;
        r = held[a]->payload;
        break;
      case 6:
        if (!rec) break;
        hazard_pointer_scan(rec);
        r = retired_count_of(rec);
        break;
      default: break;
    }
    rt_event(k + 1, K_RET, r);
  }
}

/* ---- binary-search differential mode -------------------------------------
 * params: 0 len a0 .. a(len-1)   (sorted, values 1..8); one thread, no ops.
 * The haystack (with one guard word on each side) is registered, so every
 * probe haystack[middle] is a trace line whose loc is 500+middle; the needles
 * 0..9 are searched in turn, each followed by a ret event with the result. */
static void* hay[MAXC + 2];
static int haylen;
static void bs_body(int t) {
  (void)t;
  for (long needle = 0; needle <= 9; needle++) {
    int r = binary_search(hay + 1, haylen, (void*)(uintptr_t)needle);
    rt_event(needle + 1, K_RET, r);
  }
}
static void bs_case(hcase_t* c) {
  haylen = (int)c->params[1];
  if (haylen < 0 || haylen > 6 || c->nparams < 2 + haylen) { printf("-1\n"); return; }
  hay[0] = (void*)(uintptr_t)77; hay[haylen + 1] = (void*)(uintptr_t)77;
  for (int i = 0; i < haylen; i++) hay[i + 1] = (void*)(uintptr_t)c->params[2 + i];
  rt_reg(hay, sizeof(void*) * (haylen + 2), 499, 8);
  rt_run(1, bs_body, c->sched, 0, 1000);
  rt_print_trace();
}

/* ---- comparator differential mode ---------------------------------------
 * params: -1 ahi alo bhi blo  (two addresses as 32-bit halves); prints the
 * SIGN of hazard_pointer_compare(&a, &b) as a ret event. */
static void cmp_case(hcase_t* c) {
  for (int i = 1; i <= 4; i++)
    if (c->params[i] < 0 || c->params[i] > 4294967295L) { printf("-1\n"); return; }
  uintptr_t a = ((uintptr_t)c->params[1] << 32) | (uintptr_t)c->params[2];
  uintptr_t b = ((uintptr_t)c->params[3] << 32) | (uintptr_t)c->params[4];
  int r = hazard_pointer_compare(&a, &b);
  printf("0 0 909 %d\n", r < 0 ? -1 : r > 0 ? 1 : 0);
}

/* node placement: layout 0 = one array; layout 1 = far-apart pages */
NOSAN static void place_nodes(int layout) {
  if (layout != 1) { for (int k = 0; k < MAXN; k++) nodev[k] = &node_array[k]; return; }
  static const size_t region[4] = {0, 2560ul << 20, 5120ul << 20, 8192ul << 20};
  size_t total = (9216ul << 20);
  char* base = mmap(NULL, total, PROT_NONE, MAP_PRIVATE | MAP_ANONYMOUS | MAP_NORESERVE, -1, 0);
  if (base == MAP_FAILED) { printf("EXIT mmap\n"); fflush(stdout); _exit(5); }
  for (int k = 0; k < MAXN; k++) {
    char* p = base + region[k % 4] + 4096ul * (size_t)(k / 4);
    if (mprotect(p, 4096, PROT_READ | PROT_WRITE)) { printf("EXIT mprotect\n"); fflush(stdout); _exit(5); }
    nodev[k] = (hnode_t*)p;
  }
}

static void h_run_case(hcase_t* c) {
  cur = c;
  K = (int)c->params[0];
  if (K == -1) { cmp_case(c); return; }
  if (K == 0) { bs_case(c); return; }
  P = (int)c->params[1]; C = (int)c->params[2]; NN = (int)c->params[3];
  int dmax = (int)c->params[4];
  if (K < 1 || K > MAXK || P < 0 || P > c->nthreads || C < 1 || C > MAXC || NN < C || NN > MAXN) {
    printf("-1\n"); return;
  }
  rt_reg((void*)&hp_head, sizeof hp_head, 0, 8);
  rt_reg((void*)cell, sizeof cell, 10, 8);
  place_nodes((int)c->params[5]);
  for (int k = 0; k < NN; k++) {
    rt_name(nodev[k], sizeof(hnode_t), NODE_ID + k, sizeof(hnode_t));
    nodev[k]->hz.gc_function = gc_cb;
    nodev[k]->payload = k < C ? 1 : 0;
    rt_reg(&nodev[k]->payload, sizeof(long), 2000 + k, 8);
  }
  for (int j = 0; j < C; j++) cell[j] = nodev[j];
  /* LIFO pool: node C is allocated first */
  for (int k = NN - 1; k >= C; k--) pool[npool++] = k;
  for (int t = 0; t < P; t++) {
    creating = t;
    rec_of[t] = hazard_pointer_thread_record_create_and_push(&hp_head, K);
  }
  creating = -1;
  rt_run(c->nthreads, body, c->sched, c->nsched, dmax);
  rt_print_trace();
}
int main(void) { return h_main(); }
