/* Lock-step correspondence runtime (DESIGN.md 4.2).
 * The files under test are compiled from /repo's working tree with
 *   gcc -O0 -fsanitize=thread   (but linked WITHOUT libtsan)
 * so every memory access becomes a call into this runtime.  Accesses that fall
 * into a registered address range are scheduling points of a deterministic
 * baton controller and are appended to the trace; everything else passes
 * through.  Exactly one participating thread runs at any time. */
#ifndef VERIF_RT_H
#define VERIF_RT_H
#include <stddef.h>
#include <stdint.h>

#define RT_MAX_THREADS 96

/* access kinds as they appear in the trace (and in the Coq models) */
enum {
  K_READ = 0, K_WRITE = 1, K_ALOAD = 2, K_ASTORE = 3, K_XCHG = 4, K_FADD = 5,
  K_FSUB = 6, K_CAS_OK = 7, K_CAS_FAIL = 8, K_RELAX = 9, K_FENCE = 10,
  K_DCAS_OK = 11, K_DCAS_FAIL = 12, K_RANGE_W = 13, K_RANGE_R = 14,
  K_RET = 90, K_EV = 91,
  K_AUX = 97   /* monitor-only observation (979): never a scheduling point, stripped before the lock-step comparison */
};

/* trace kind = kind*10 + memory order (0 relaxed,1 consume,2 acquire,
 * 3 release,4 acq_rel,5 seq_cst; plain accesses use 9) */

void rt_reset(void);
/* addresses in [base, base+bytes) are shared: loc = loc_base + (addr-base)/elem */
void rt_reg(const void* base, size_t bytes, int loc_base, int elem);
/* values in [base, base+bytes) print as id_base + (v-base)/elem */
void rt_name(const void* base, size_t bytes, long id_base, int elem);
void rt_bias(long loc, long bias);   /* report the values at loc minus bias */
void rt_reg_rest(const void* base, size_t bytes, int loc_base);   /* catch-all, only with RT_CATCHALL=1 (search mode) */
/* run one case: nthreads bodies under the schedule, then round-robin drain of
 * at most drain_max steps.  returns 0 ok, 1 if threads were still live. */
int rt_run(int nthreads, void (*body)(int tid), const int* sched, int nsched,
           int drain_max);
/* harness events (no scheduling point) */
void rt_event(long loc, long kind, long val);
/* explicit scheduling point + trace line, for things the compiler cannot see */
void rt_point(long loc, long kind, long val);
/* thread-with-sleep abstraction for the L2 harnesses */
void rt_block_self(void);          /* sleep until rt_wake(self) */
void rt_wake(int tid);
int rt_self(void);
long rt_canon(uint64_t v);
/* print the trace of the last run as one line of integers */
void rt_print_trace(void);
void rt_print_trace_crash(int sig);
extern long rt_stat_steps, rt_stat_cas_fail;
extern volatile int rt_stop_now;

#endif
