/* Lock-step harness for src/fiber_scheduler_wsd.c (C10, scheduler half of C02).
 * Each participating thread plays one kernel thread: it owns scheduler t and
 * performs, in the order of fiber_manager_yield / switch_to / do_maintenance /
 * thread_func, exactly their scheduler-visible actions (next, requeue of the
 * yielding fiber by its successor, load_balance when idle).  Deque internals are
 * not registered: deque operations are atomic here (justified by C02-deque). */
#include "harness.h"
#include "fiber_manager.h"

/* mirror of the private struct in src/fiber_scheduler_wsd.c (layout only) */
typedef struct {
  wsd_work_stealing_deque_t* queue_one;
  wsd_work_stealing_deque_t* queue_two;
  wsd_work_stealing_deque_t* volatile schedule_from;
  wsd_work_stealing_deque_t* volatile store_to;
  size_t id;
  uint64_t steal_count;
  uint64_t failed_steal_count;
} sched_mirror_t;

#define NF 32            /* ids 1..NF: the fibers of the model (coq/Sched.v) */
#define NFBIG 1100       /* ids NF+1..NFBIG: only in the monitor-only BIG cases (ops 11, 12) */
static fiber_t fibers[NFBIG + 1];
static long next_big;    /* last id handed out by op 11 */
static int inwq[NFBIG + 1];      /* fiber is parked in a wait queue outside the scheduler (blocked and switched away from, wake-up not yet consumed) */
static hcase_t* cur;
static int nthreads;

static long fid(fiber_t* f) { return f ? (long)(f - fibers) : 0; }

/* fiber_manager_yield / switch_to / do_maintenance as seen by the scheduler; returns the id handed out (0: none) */
static long do_yield(fiber_scheduler_t* s, fiber_t** pcur, int block) {
  fiber_t* current = *pcur;
  if (block) current->state = FIBER_STATE_WAITING;
  const fiber_state_t st = current->state;
  fiber_t* nf = fiber_scheduler_next(s);
  if (nf) {
    fiber_t* to_schedule = NULL;
    if (current->state == FIBER_STATE_RUNNING) { current->state = FIBER_STATE_READY; to_schedule = current; }
    nf->state = FIBER_STATE_RUNNING;
    /* context switch; the successor's maintenance requeues the old fiber */
    if (to_schedule) fiber_scheduler_schedule(s, to_schedule);
    else inwq[fid(current)] = 1;      /* the old fiber is now parked in its wait queue */
    current = nf;
  } else if (st == FIBER_STATE_WAITING) {
    inwq[fid(current)] = 1;           /* parked */
    current = NULL;                   /* switch to the maintenance (scheduler loop) fiber */
  }
  *pcur = current;
  return fid(nf);
}

static void prog(int t) {
  fiber_scheduler_t* s = fiber_scheduler_for_thread(t);
  fiber_t* current = NULL;      /* fiber running on this kernel thread (NULL = the thread's scheduler loop) */
  for (int k = 0; k < cur->nops[t]; k++) {
    long opc = cur->ops[t][k][0], a = cur->ops[t][k][1];
    long r = 0;
    if ((opc == 1 || opc == 5 || opc == 7 || opc == 8) && (a < 1 || a > NF)) {   /* no such fiber: refused */
      rt_event(k + 1, K_RET, -1); continue;
    }
    if (opc == 1) {                       /* spawn fiber a (fiber_create): READY + schedule */
      fiber_t* f = &fibers[a];
      if (f->state != 0) { rt_event(k + 1, K_RET, -1); continue; }   /* already exists: refused */
      f->state = FIBER_STATE_READY;
      fiber_scheduler_schedule(s, f);
      r = a;
    } else if (opc == 2 || opc == 4) {    /* 2: fiber_yield   4: block (state WAITING, then yield) */
      if (!current) { rt_event(k + 1, K_RET, -1); continue; }
      do_yield(s, &current, opc == 4);
      r = fid(current);
    } else if (opc == 11) {               /* BIG cases only: spawn a further fibers (ids above NF) */
      for (long j = 0; j < a && next_big < NFBIG; j++) {
        fiber_t* f = &fibers[++next_big];
        f->state = FIBER_STATE_READY;
        fiber_scheduler_schedule(s, f);
      }
      r = next_big;
    } else if (opc == 12) {               /* BIG cases only: a yields in a row, one event per hand-out */
      if (!current) { rt_event(k + 1, K_RET, -1); continue; }
      for (long j = 0; j < a; j++) {
        long h = do_yield(s, &current, 0);
        if (h) rt_event(5001, K_EV, h);
      }
      r = fid(current);
    } else if (opc == 3) {                /* one iteration of the thread's scheduler loop (only when idle) */
      if (current) { rt_event(k + 1, K_RET, -1); continue; }
      fiber_scheduler_load_balance(s);
      fiber_t* nf = fiber_scheduler_next(s);
      if (nf) { nf->state = FIBER_STATE_RUNNING; current = nf; }
      r = fid(current);
    } else if (opc == 5) {                /* wake fiber a (as wake_from_* does) */
      fiber_t* f = &fibers[a];
      if (f->state == FIBER_STATE_WAITING && inwq[a]) {   /* the waker pops f from its wait queue */
        inwq[a] = 0; f->state = FIBER_STATE_READY; fiber_scheduler_schedule(s, f); r = a;
      }
    } else if (opc == 7) {                /* park-saving a: a waker finds the waiter before it finished switching away:
                                             it is scheduled while its state is SAVING_STATE_TO_WAIT */
      fiber_t* f = &fibers[a];
      if (f->state == FIBER_STATE_WAITING && inwq[a]) {
        inwq[a] = 0; f->state = FIBER_STATE_SAVING_STATE_TO_WAIT; fiber_scheduler_schedule(s, f); r = a;
      }
    } else if (opc == 8) {                /* flip a: the successor's maintenance (SAVING -> WAITING) */
      fiber_t* f = &fibers[a];
      if (f->state == FIBER_STATE_SAVING_STATE_TO_WAIT) { f->state = FIBER_STATE_WAITING; r = a; }
    } else {                              /* 6 (and any other code, as in Sched.dec_op): occasional load balance from a running fiber (yield_count & 1023) */
      fiber_scheduler_load_balance(s);
      r = 0;
    }
    rt_event(k + 1, K_RET, r);
  }
}

static void h_run_case(hcase_t* c) {
  cur = c;
  int dmax = (int)c->params[0];
  nthreads = c->nthreads;
  memset(fibers, 0, sizeof fibers);
  memset(inwq, 0, sizeof inwq);
  next_big = NF;
  fiber_scheduler_init(nthreads);
  for (int t = 0; t < nthreads; t++) {
    sched_mirror_t* m = (sched_mirror_t*)fiber_scheduler_for_thread(t);
    rt_reg((void*)&m->schedule_from, 8, 10 + 2 * t, 8);
    rt_reg((void*)&m->store_to, 8, 11 + 2 * t, 8);
    /* start each run queue with a 4-entry array instead of the 256-entry one of wsd_work_stealing_deque_create: the
     * growth boundary (and anything the scheduler does differently near it) is then crossed by ordinary cases; the
     * scheduler model treats the deques as unbounded, so this is invisible in the traces of the unchanged code */
    m->queue_one->underlying_array = wsd_circular_array_create(2);
    m->queue_two->underlying_array = wsd_circular_array_create(2);
    rt_name(m->queue_one, sizeof(wsd_work_stealing_deque_t), 2 * t + 1, 1 << 20);
    rt_name(m->queue_two, sizeof(wsd_work_stealing_deque_t), 2 * t + 2, 1 << 20);
  }
  for (int f = 0; f <= NF; f++) rt_reg((void*)&fibers[f].state, 4, 200 + f, 4);
  {
    /* search mode only (RT_CATCHALL=1): the rest of every scheduler struct, 1000 locs apart.  The struct is private to
     * fiber_scheduler_wsd.c: its real size (a changed tree may have added fields) is the stride of the scheduler array */
    size_t stride = sizeof(sched_mirror_t);
    if (nthreads >= 2) stride = (size_t)((char*)fiber_scheduler_for_thread(1) - (char*)fiber_scheduler_for_thread(0));
    if (stride > 1000) stride = 1000;
    for (int t = 0; t < nthreads; t++) rt_reg_rest(fiber_scheduler_for_thread(t), stride, 3900 + 1000 * t);
  }
  rt_run(c->nthreads, prog, c->sched, c->nsched, dmax);
  rt_print_trace();
}
int main(void) { return h_main(); }
