/* T1 adapter (see t1.c): real fiber_manager.c / fiber.c, one pthread per fiber. */
#ifndef VERIF_T1_H
#define VERIF_T1_H
#include "rt.h"
#include "fiber_manager.h"
#include "fiber.h"

#define T1_LOC_NEXT 900   /* trace loc of a yield (fiber_scheduler_next) */
#define T1_LOC_SCHED 901  /* trace loc of fiber_manager_schedule(f): val = tid of f */

void t1_setup(int nthreads);
int t1_run(int nthreads, void (*prog)(int), const int* sched, int nsched, int drain_max);
fiber_t* t1_fiber_of(int t);
int t1_tid_of(fiber_t* f);
#endif
