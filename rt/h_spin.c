/* Lock-step harness for src/fiber_spinlock.c (C18).
 * params: [0] initial value of both counters (ticket = users = start, taken
 *             mod 2^32 so tests can start just below the wrap),
 *         [1] drain budget.
 * ops: 1 = lock, 2 = trylock, 3 = unlock-if-held (the harness knows whether
 *      this thread holds the lock; if not the call is skipped and the ret
 *      event carries 2).
 * ret values: lock -> FIBER_SUCCESS (1); trylock -> 1 / 0;
 *             unlock -> 1, skipped unlock -> 2.
 * A lock/trylock issued while this thread already holds the lock is skipped
 * too (ret 2): a ticket lock self-deadlocks on re-entry and the generated
 * programs are meant to be well formed. */
#include "harness.h"
#include "fiber_manager.h"
#include "fiber_spinlock.h"

static fiber_spinlock_t the_lock;
static hcase_t* cur;

/* fiber_spinlock_lock() bumps fiber_manager_get()->spin_count in its spin
 * loop.  The dummy manager is NOT registered: those accesses are not
 * scheduling points.  One per thread so the unsynchronised += is harmless. */
static fiber_manager_t dummy_manager[RT_MAX_THREADS + 1];
fiber_manager_t* fiber_manager_get() {
  int t = rt_self();
  return &dummy_manager[t < 0 ? RT_MAX_THREADS : t];
}

static void body(int t) {
  int held = 0;
  for (int k = 0; k < cur->nops[t]; k++) {
    long opc = cur->ops[t][k][0];
    if (opc == 1) {
      if (held) { rt_event(k + 1, K_RET, 2); continue; }
      int r = fiber_spinlock_lock(&the_lock);
      held = 1;
      rt_event(k + 1, K_RET, r);
    } else if (opc == 2) {
      if (held) { rt_event(k + 1, K_RET, 2); continue; }
      int r = fiber_spinlock_trylock(&the_lock);
      if (r == FIBER_SUCCESS) held = 1;
      rt_event(k + 1, K_RET, r);
    } else {
      if (!held) { rt_event(k + 1, K_RET, 2); continue; }
      int r = fiber_spinlock_unlock(&the_lock);
      held = 0;
      rt_event(k + 1, K_RET, r);
    }
  }
}

static void h_run_case(hcase_t* c) {
  cur = c;
  uint32_t start = (uint32_t)c->params[0]; int dmax = (int)c->params[1];
  fiber_spinlock_init(&the_lock);
  the_lock.state.counters.ticket = start;
  the_lock.state.counters.users = start;
  rt_reg((void*)&the_lock, 8, 0, 4);
  rt_reg_rest(&the_lock, sizeof the_lock, 3900);   /* search mode only: fields the model does not know */
  rt_run(c->nthreads, body, c->sched, c->nsched, dmax);
  rt_print_trace();
}
int main(void) { return h_main(); }
