/* Lock-step harness for src/work_stealing_deque.c (C02, deque half).
 *
 * Build: work_stealing_deque.c is compiled with -Dmalloc=h_wsd_malloc
 * -Dfree=h_wsd_free so that every circular array the code under test
 * allocates (initial array and every growth) comes from the bump allocator
 * below, which registers the element area of the k-th array as locs
 * 1000*k + slot and names the array pointer k.  The arena is static (zeroed)
 * and never reused, so a read of a never-written slot yields 0, as in the
 * model.  The array header (log_size/size/size_minus_one/prev) is immutable
 * after creation and is NOT registered.
 *
 * locs: 0 = top, 1 = bottom, 2 = underlying_array, 1000*k + j = array k slot j.
 * ops:  1 v = push_bottom(token v), 2 = pop_bottom, 3 = steal.
 * ret:  push 1; pop/steal: token, -1 (WSD_EMPTY), -2 (WSD_ABORT).
 * params: log_size of the initial array, initial value of top = bottom,
 *         drain budget [, P = number of tokens 1000000.. pushed before the run starts (untraced set-up; "big" cases
 *         for thresholds that depend on the queue length, judged by the monitor only)].
 *       4 = steal until EMPTY (each token taken is reported as the event  tid 5000 919 token). */
#undef malloc
#undef free
#include "harness.h"
#include "work_stealing_deque.h"

#define ARENA_BYTES (1 << 22)
#define MAX_ARRAYS 64
static char arena[ARENA_BYTES] __attribute__((aligned(64)));
static size_t arena_used;
static int narrays;
static struct { char* p; size_t n; int freed; } arr_tab[MAX_ARRAYS + 1];

void* h_wsd_malloc(size_t n) {
  size_t need = (n + 63) & ~(size_t)63;
  if (arena_used + need > ARENA_BYTES || narrays >= MAX_ARRAYS) return NULL;
  char* p = arena + arena_used;
  arena_used += need;
  int k = ++narrays;
  arr_tab[k].p = p; arr_tab[k].n = n; arr_tab[k].freed = 0;
  rt_reg(p + sizeof(wsd_circular_array_t), n - sizeof(wsd_circular_array_t), 1000 * k, 8);
  rt_name(p, n, k, (int)n);
  return p;
}

/* The code under test never frees an array while the deque is in use (only in
 * wsd_work_stealing_deque_destroy, which the harness never calls), so a
 * pristine trace contains no free event.  If it does free array k:
 *   - the trace gets the event  tid (990+k) 919 1  (the model has no such event),
 *   - the element area is poisoned with 0x5a bytes, the way re-used memory
 *     would hold foreign data: a later read of a slot yields 0x5a5a5a5a5a5a5a5a
 *     (printed -777777 by rt_canon, returned raw as H_WSD_POISON),
 *   - the range stays registered, so any later access to it is in the trace.
 * The header is left intact (prev chain stays walkable).  The poisoning loop is
 * not instrumented: it must not be a scheduling point. */
__attribute__((no_sanitize_thread, noinline))
static void h_wsd_poison(char* q, size_t n) {
  volatile unsigned char* v = (volatile unsigned char*)q;
  for (size_t i = 0; i < n; i++) v[i] = 0x5a;
}
void h_wsd_free(void* p) {
  for (int k = 1; k <= narrays; k++) {
    if (arr_tab[k].p == (char*)p && !arr_tab[k].freed) {
      arr_tab[k].freed = 1;
      rt_event(990 + k, K_EV, 1);
      h_wsd_poison(arr_tab[k].p + sizeof(wsd_circular_array_t), arr_tab[k].n - sizeof(wsd_circular_array_t));
      return;
    }
  }
}

static wsd_work_stealing_deque_t D;
static hcase_t* cur;

static void body(int t) {
  for (int k = 0; k < cur->nops[t]; k++) {
    long opc = cur->ops[t][k][0], a = cur->ops[t][k][1];
    if (opc == 1) {
      wsd_work_stealing_deque_push_bottom(&D, (void*)(uintptr_t)a);
      rt_event(k + 1, K_RET, 1);
    } else if (opc == 2) {
      void* r = wsd_work_stealing_deque_pop_bottom(&D);
      rt_event(k + 1, K_RET, (long)(intptr_t)r);
    } else if (opc == 4) {
      for (;;) {
        void* r = wsd_work_stealing_deque_steal(&D);
        if ((long)(intptr_t)r == -1) break;
        if ((long)(intptr_t)r != -2) rt_event(5000, K_EV, (long)(intptr_t)r);
      }
      rt_event(k + 1, K_RET, -1);
    } else {
      void* r = wsd_work_stealing_deque_steal(&D);
      rt_event(k + 1, K_RET, (long)(intptr_t)r);
    }
  }
}

static void h_run_case(hcase_t* c) {
  cur = c;
  int lg = (int)c->params[0]; long start = c->params[1]; int dmax = (int)c->params[2];
  long prefill = c->nparams >= 4 ? c->params[3] : 0;
  if (lg < 0 || lg > (prefill > 0 ? 15 : 10) || prefill < 0 || prefill > 30000) { printf("-1\n"); return; }
  D.top = start; D.bottom = start;
  D.underlying_array = wsd_circular_array_create((size_t)lg);
  for (long i = 0; i < prefill; i++) wsd_work_stealing_deque_push_bottom(&D, (void*)(uintptr_t)(1000000 + i));
  rt_reg((void*)&D.top, 8, 0, 8);
  rt_reg((void*)&D.bottom, 8, 1, 8);
  rt_reg((void*)&D.underlying_array, 8, 2, 8);
  rt_reg_rest(&D, sizeof D, 200000);   /* search mode only: fields the model does not know (array locs end below 100000) */
  rt_run(c->nthreads, body, c->sched, c->nsched, dmax);
  rt_print_trace();
}
int main(void) { return h_main(); }
