/* Lock-step harness for include/lockfree_ring_buffer.h (C16). */
#include "harness.h"
#include "lockfree_ring_buffer.h"

static lockfree_ring_buffer_t* rb;
static hcase_t* cur;

static void body(int t) {
  for (int k = 0; k < cur->nops[t]; k++) {
    long opc = cur->ops[t][k][0], a = cur->ops[t][k][1];
    if (opc == 1) {
      int r = lockfree_ring_buffer_trypush(rb, (void*)(uintptr_t)(a + 1));
      rt_event(k + 1, K_RET, r);
    } else {
      void* r = lockfree_ring_buffer_trypop(rb);
      rt_event(k + 1, K_RET, (long)(uintptr_t)r);
    }
  }
}

static void h_run_case(hcase_t* c) {
  cur = c;
  int k = (int)c->params[0]; long start = c->params[1]; int dmax = (int)c->params[2];
  rb = lockfree_ring_buffer_create(k);
  /* optional 4th parameter: the real counters start at start + bias (bias a multiple of the ring size, so that the
   * slot indices are those of the model run from `start`); reported counter values are debiased */
  long bias = c->nparams >= 4 ? c->params[3] : 0;
  rb->high = start + bias; rb->low = start + bias;
  if (bias) { rt_bias(0, bias); rt_bias(1, bias); }
  rt_reg((void*)&rb->high, 8, 0, 8);
  rt_reg((void*)&rb->low, 8, 1, 8);
  rt_reg(rb->buffer, sizeof(void*) * rb->size, 10, 8);
  rt_reg_rest(rb, sizeof *rb + sizeof(void*) * rb->size, 3900);   /* search mode only: fields the model does not know */
  rt_run(c->nthreads, body, c->sched, c->nsched, dmax);
  rt_print_trace();
}
int main(void) { return h_main(); }
