/* Lock-step harness for src/fiber_rwlock.c on the T1 machine (C07).
 * ops: 1 rdlock, 2 wrlock, 3 tryrdlock, 4 trywrlock, 5 unlock (rdunlock or
 * wrunlock according to what the fiber holds; skipped -> ret 2 if it holds
 * nothing; lock calls are skipped -> ret 2 while it holds the lock).
 * Writers write shared_cell := t+1 after acquiring and read it back before
 * releasing; readers read it after acquiring and again before releasing:
 * ret 7 = the cell changed under the holder (exclusion violated). */
#include "harness.h"
#include "t1.h"
#include "fiber_rwlock.h"

static fiber_rwlock_t rw;
static hcase_t* cur;
static volatile long shared_cell;
#define NN 128
static mpsc_fifo_node_t nodes[NN];

static void prog(int t) {
  int held = 0;          /* 0 nothing, 1 read lock, 2 write lock */
  long seen = 0;
  for (int k = 0; k < cur->nops[t]; k++) {
    long opc = cur->ops[t][k][0];
    long r;
    if (opc >= 1 && opc <= 4) {
      if (held) { rt_event(k + 1, K_RET, 2); continue; }
      if (opc == 1) { r = fiber_rwlock_rdlock(&rw); held = 1; seen = shared_cell; }
      else if (opc == 2) { r = fiber_rwlock_wrlock(&rw); held = 2; shared_cell = t + 1; }
      else if (opc == 3) { r = fiber_rwlock_tryrdlock(&rw); if (r == FIBER_SUCCESS) { held = 1; seen = shared_cell; } }
      else { r = fiber_rwlock_trywrlock(&rw); if (r == FIBER_SUCCESS) { held = 2; shared_cell = t + 1; } }
    } else {
      if (!held) { rt_event(k + 1, K_RET, 2); continue; }
      if (held == 1) { r = (shared_cell == seen) ? 1 : 7; fiber_rwlock_rdunlock(&rw); }
      else { r = (shared_cell == t + 1) ? 1 : 7; fiber_rwlock_wrunlock(&rw); }
      held = 0;
    }
    rt_event(k + 1, K_RET, r);
  }
}

static void h_run_case(hcase_t* c) {
  cur = c;
  int dmax = (int)c->params[0];
  int n = c->nthreads;
  memset(nodes, 0, sizeof nodes);
  shared_cell = 0;
  t1_setup(n);
  /* rwlock by hand, mirroring fiber_rwlock_init, with stub nodes from our array */
  memset(&rw, 0x5a, sizeof rw);
  fiber_rwlock_init(&rw);                      /* the real init sets every field (also any a change adds) */
  free(rw.write_waiters.head); free(rw.read_waiters.head);
  rw.write_waiters.head = &nodes[0]; rw.write_waiters.tail = &nodes[0];
  rw.read_waiters.head = &nodes[1]; rw.read_waiters.tail = &nodes[1];
  for (int t = 0; t < n; t++) {
    fiber_t* f = t1_fiber_of(t);
    free(f->mpsc_fifo_node);
    f->mpsc_fifo_node = &nodes[2 + t];
    rt_reg((void*)&f->state, 4, 200 + t, 4);
    rt_name(f, sizeof *f, 1000 + t, sizeof *f);
  }
  rt_reg((void*)&rw.state, 8, 300, 8);
  rt_reg((void*)&rw.write_waiters.head, 8, 301, 8);
  rt_reg((void*)&rw.write_waiters.tail, 8, 302, 8);
  rt_reg((void*)&rw.read_waiters.head, 8, 311, 8);
  rt_reg((void*)&rw.read_waiters.tail, 8, 312, 8);
  rt_reg((void*)&shared_cell, 8, 500, 8);
  rt_reg(nodes, sizeof nodes, 100, 8);
  rt_reg_rest(&rw, sizeof rw, 3900);   /* search mode only: fields the model does not know */
  rt_name(nodes, sizeof nodes, 1, sizeof nodes[0]);
  t1_run(n, prog, c->sched, c->nsched, dmax);
  rt_print_trace();
}
int main(void) { return h_main(); }
