/* Lock-step harness for src/fiber_semaphore.c on the T1 machine (C06).
 * params: dmax, initial value (>= 0).
 * ops per fiber: 1 = fiber_semaphore_wait, 2 = fiber_semaphore_trywait,
 * 3 = fiber_semaphore_post.  After its k-th call a fiber emits
 * (k, K_RET, r) with r = the call's return value.
 *
 * The semaphore is initialised with the real fiber_semaphore_init from the
 * harness main thread (not a participant: its accesses pass through);
 * fiber_manager_get_mpmc_node() only touches the global free-node ring.  The
 * MPMC waiter queue, its nodes and the hazard records are NOT registered: its
 * push / trypop are atomic in T1 (justified by property C13). */
#include "harness.h"
#include "t1.h"
#include "fiber_semaphore.h"

static fiber_semaphore_t sem;
static hcase_t* cur;

static void prog(int t) {
  for (int k = 0; k < cur->nops[t]; k++) {
    long opc = cur->ops[t][k][0];
    long r;
    if (opc == 1) r = fiber_semaphore_wait(&sem);
    else if (opc == 2) r = fiber_semaphore_trywait(&sem);
    else r = fiber_semaphore_post(&sem);
    rt_event(k + 1, K_RET, r);
  }
}

static void h_run_case(hcase_t* c) {
  cur = c;
  int dmax = (int)c->params[0];
  long init = c->nparams > 1 ? c->params[1] : 0;
  int n = c->nthreads;
  if (init < 0 || init > 1000000 || n < 1) { printf("-1\n"); return; }
  t1_setup(n);
  if (fiber_semaphore_init(&sem, (int)init) != FIBER_SUCCESS) { printf("-1\n"); return; }
  for (int t = 0; t < n; t++) {
    fiber_t* f = t1_fiber_of(t);
    rt_reg((void*)&f->state, 4, 200 + t, 4);
    rt_name(f, sizeof *f, 1000 + t, sizeof *f);
  }
  rt_reg((void*)&sem.counter, sizeof sem.counter, 300, sizeof sem.counter);
  rt_reg_rest(&sem, sizeof sem, 3900);   /* search mode only: fields the model does not know (here also the waiter queue's head/tail) */
  t1_run(n, prog, c->sched, c->nsched, dmax);
  rt_print_trace();
}
int main(void) { return h_main(); }
