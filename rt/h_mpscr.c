/* Lock-step harness for include/mpsc_relaxed_fifo.h (C15, relaxed MPSC queue =
 * one SPSC queue per producer + a plain round-robin counter).
 * params: dmax, num_producers (np).
 * locs: 0 = f->counter, 10+2q = f->fifos[q].head, 11+2q = f->fifos[q].tail,
 * node id n (= index+1): data = 98+2n, next = 99+2n.  Pointer values print as
 * node ids (0 = NULL); nodes 1..np are the initial stubs of queues 0..np-1
 * (the calloc'd stubs made by mpscr_fifo_create are replaced by zeroed nodes
 * of the static array so that they have names).
 * ops: (1, q*10000000 + n*1000 + v) push node n carrying data v as producer q
 *      (2, _) trypop
 *      (3, q*10000000 + v) take the node most recently handed back by the
 *             consumer and push it as producer q carrying data v (one explicit
 *             scheduling point, then the decision; returns 0 without pushing
 *             if no node is free)
 * Every node returned by trypop is handed back through one free stack in plain
 * (unregistered) harness memory; a recycled node keeps its stale next pointer.
 * The write of node->data before a push and the read of the returned node's
 * data after a pop are harness accesses to registered memory: they are
 * scheduling points and trace lines like any other access. */
#include "harness.h"
#include "mpsc_relaxed_fifo.h"

#define NN 1100
static spsc_node_t nodes[NN];
static mpscr_fifo_t* f;
static hcase_t* cur;
static volatile long sink;
static spsc_node_t* freestk[NN + 64 * RT_MAX_THREADS];
static int nfree;

static void body(int t) {
  for (int k = 0; k < cur->nops[t]; k++) {
    long opc = cur->ops[t][k][0], a = cur->ops[t][k][1];
    if (opc == 1) {
      long q = a / 10000000, n = (a / 1000) % 10000, v = a % 1000;
      spsc_node_t* nd = &nodes[n - 1];
      nd->data = (void*)(uintptr_t)v;
      mpscr_fifo_push(f, (size_t)q, nd);
      rt_event(k + 1, K_RET, n);
    } else if (opc == 3) {
      long q = a / 10000000, v = a % 1000;
      rt_point(0, K_RELAX, 0);
      if (nfree == 0) {
        rt_event(k + 1, K_RET, 0);
      } else {
        spsc_node_t* nd = freestk[--nfree];
        nd->data = (void*)(uintptr_t)v;
        mpscr_fifo_push(f, (size_t)q, nd);
        rt_event(k + 1, K_RET, rt_canon((uint64_t)(uintptr_t)nd));
      }
    } else {
      spsc_node_t* r = mpscr_fifo_trypop(f);
      if (r) {
        sink = (long)(uintptr_t)r->data; /* the consumer uses the item */
        freestk[nfree++] = r;
        rt_event(k + 1, K_RET, rt_canon((uint64_t)(uintptr_t)r));
      } else {
        rt_event(k + 1, K_RET, 0);
      }
    }
  }
}

static void h_run_case(hcase_t* c) {
  cur = c;
  int dmax = (int)c->params[0];
  long np = c->params[1];
  if (np < 1 || np > 16) { printf("-1\n"); return; }
  for (int t = 0; t < c->nthreads; t++)
    for (int k = 0; k < c->nops[t]; k++)
      if (c->ops[t][k][0] == 1 || c->ops[t][k][0] == 3) {
        long a = c->ops[t][k][1];
        long q = a / 10000000, n = (a / 1000) % 10000;
        if (c->ops[t][k][0] == 3) n = 1;
        if (n < 1 || n > NN || q < 0 || q >= np) { printf("-1\n"); return; }
      }
  memset(nodes, 0, sizeof nodes);
  nfree = 0;
  f = mpscr_fifo_create((size_t)np);
  for (long q = 0; q < np; q++) {
    free(f->fifos[q].tail);
    f->fifos[q].tail = &nodes[q];
    f->fifos[q].head = &nodes[q];
    rt_reg((void*)&f->fifos[q].head, sizeof f->fifos[q].head, 10 + 2 * (int)q, 8);
    rt_reg((void*)&f->fifos[q].tail, sizeof f->fifos[q].tail, 11 + 2 * (int)q, 8);
  }
  /* optional 3rd parameter: the round-robin cursor starts at `bias` (a multiple of np, so that the probe order is that
   * of the model run from 0) and its reported values are debiased: cursors that cross 2^16 / 2^31 / 2^32 during the run */
  if (c->nparams > 2 && c->params[2] > 0) { f->counter = (size_t)c->params[2]; rt_bias(0, c->params[2]); }
  rt_reg((void*)&f->counter, sizeof f->counter, 0, 8);
  rt_reg(nodes, sizeof nodes, 100, 8);
  rt_reg_rest(f, sizeof *f + (size_t)np * sizeof f->fifos[0], 3900);   /* search mode only: fields the model does not know */
  rt_name(nodes, sizeof nodes, 1, sizeof(spsc_node_t));
  rt_run(c->nthreads, body, c->sched, c->nsched, dmax);
  rt_print_trace();
}
int main(void) { return h_main(); }
