/* Lock-step harness for include/mpmc_fifo.h over include/hazard_pointer.h +
 * src/hazard_pointer.c (C13).
 *
 * src/hazard_pointer.c is #included (not linked), with calloc served from a
 * harness record pool so that a record is registered the moment it is
 * allocated (same arrangement as rt/h_hazard.c).
 *
 * params: [0] P   = threads 0..P-1 own a hazard record before the run starts
 *         [1] NN  = number of queue nodes (1..32); node 0 is the initial dummy
 *         [2] drain budget
 *         [3] M   = prefill: the main thread pushes the values 101..100+M
 *                   (nodes 1..M) through thread 0's record before the run
 *                   (needs P >= 1, M < NN)
 * ops (op arg):
 *   1 join        create_and_push for this thread (once; else skipped)
 *   2 push v      scheduling point; n = pool_alloc(); n->value = v+1;
 *                 mpmc_fifo_push(rec, &fifo, n)
 *   3 trypop      mpmc_fifo_trypop(rec, &fifo)
 *   6 scan        hazard_pointer_scan(rec)
 * A call that is not applicable (no record yet, pool empty, v < 0) is skipped
 * and returns -1.  ret values: join 1; push 1; trypop = value popped (0 =
 * NULL); scan = retired_count after the call.
 * locs: 0 hazard record list head; 1 fifo.head; 2 fifo.tail; 5 the push
 *       scheduling point; 100r + 0 / 1 / 10+i = record r's next /
 *       retire_threshold / slot i (record of thread t is r = t+1);
 *       2000+3k + 0 / 1 / 2 = node k's value / prev / next.
 * names: record r -> r; node k -> 1000+k.
 * events: (node name) 929 0 = gc callback (node back in the LIFO pool);
 *         (node name) 939 v = allocation of the node for value v. */
#include "harness.h"
#include <malloc.h>
#include <stdlib.h>

#define MAXN 32
#define NODE_ID 1000
#define K_GC 92
#define K_ALLOC 93
#define NOSAN __attribute__((no_sanitize_thread))

static void* h_calloc(size_t n, size_t sz);
#define calloc(n, sz) h_calloc((n), (sz))
#include "../src/hazard_pointer.c"
#undef calloc
#include "mpmc_fifo.h"

static hcase_t* cur;
static int P, NN;
static _Atomic(hazard_pointer_thread_record_t*) hp_head;
static mpmc_fifo_t fifo;
static mpmc_fifo_node_t nodes[MAXN];
static int pool[MAXN], npool;
static _Alignas(64) char recpool[RT_MAX_THREADS][256];
static hazard_pointer_thread_record_t* rec_of[RT_MAX_THREADS];
static int creating = -1;

NOSAN static void* h_calloc(size_t n, size_t sz) {
  int t = creating >= 0 ? creating : rt_self();
  size_t bytes = n * sz;
  if (t < 0 || t >= RT_MAX_THREADS || bytes > sizeof recpool[0]) abort();
  hazard_pointer_thread_record_t* r = (hazard_pointer_thread_record_t*)recpool[t];
  memset(r, 0, sizeof recpool[0]);
  int id = t + 1;
  rt_name(r, sizeof recpool[0], id, sizeof recpool[0]);
  rt_reg(&r->next, sizeof r->next, 100 * id, 8);
  rt_reg((void*)&r->retire_threshold, sizeof r->retire_threshold, 100 * id + 1, 8);
  rt_reg(r->hazard_pointers, sizeof(void*) * MPMC_HAZARD_COUNT, 100 * id + 10, 8);
  return r;
}
NOSAN static long node_name(hazard_node_t* n) {
  return n ? NODE_ID + (long)((mpmc_fifo_node_t*)n - nodes) : 0;
}
NOSAN static void gc_cb(void* data, hazard_node_t* n) {
  (void)data;
  pool[npool++] = (int)((mpmc_fifo_node_t*)n - nodes);
  rt_event(node_name(n), K_GC, 0);
}
NOSAN static mpmc_fifo_node_t* pool_alloc(long v) {
  if (!npool) return NULL;
  mpmc_fifo_node_t* h = &nodes[pool[--npool]];
  h->value = (void*)(uintptr_t)v;
  rt_event(node_name(&h->hazard), K_ALLOC, v);
  return h;
}
NOSAN static long retired_count_of(hazard_pointer_thread_record_t* r) { return (long)r->retired_count; }

static void body(int t) {
  hazard_pointer_thread_record_t* rec = rec_of[t];
  for (int k = 0; k < cur->nops[t]; k++) {
    long opc = cur->ops[t][k][0], a = cur->ops[t][k][1];
    long r = -1;
    switch (opc) {
      case 1:
        if (rec) break;
        rec = hazard_pointer_thread_record_create_and_push(&hp_head, MPMC_HAZARD_COUNT);
        r = 1;
        break;
      case 2: {
        if (!rec || a < 0) break;
        rt_point(5, K_RELAX, 0);
        mpmc_fifo_node_t* n = pool_alloc(a + 1);
        if (!n) break;
        mpmc_fifo_push(rec, &fifo, n);
        r = 1;
        break;
      }
      case 3:
        if (!rec) break;
        r = (long)(uintptr_t)mpmc_fifo_trypop(rec, &fifo);
        break;
      case 6:
        if (!rec) break;
        hazard_pointer_scan(rec);
        r = retired_count_of(rec);
        break;
      default: break;
    }
    rt_event(k + 1, K_RET, r);
  }
}

static void h_run_case(hcase_t* c) {
  cur = c;
  P = (int)c->params[0]; NN = (int)c->params[1];
  int dmax = (int)c->params[2]; int M = (int)c->params[3];
  if (P < 0 || P > c->nthreads || NN < 1 || NN > MAXN || M < 0 || M >= NN || (M > 0 && P < 1)) {
    printf("-1\n"); return;
  }
  rt_reg((void*)&hp_head, sizeof hp_head, 0, 8);
  rt_reg((void*)&fifo.head, sizeof fifo.head, 1, 8);
  rt_reg((void*)&fifo.tail, sizeof fifo.tail, 2, 8);
  rt_name(nodes, sizeof nodes, NODE_ID, sizeof nodes[0]);
  for (int k = 0; k < NN; k++) {
    nodes[k].hazard.gc_function = gc_cb;
    rt_reg(&nodes[k].value, 3 * sizeof(void*), 2000 + 3 * k, 8);
  }
  rt_reg_rest(&fifo, sizeof fifo, 13900);   /* search mode only: fields the model does not know */
  mpmc_fifo_init(&fifo, &nodes[0]);
  /* LIFO pool: node 1 is allocated first */
  for (int k = NN - 1; k >= 1; k--) pool[npool++] = k;
  for (int t = 0; t < P; t++) {
    creating = t;
    rec_of[t] = hazard_pointer_thread_record_create_and_push(&hp_head, MPMC_HAZARD_COUNT);
  }
  creating = -1;
  for (int i = 0; i < M; i++) mpmc_fifo_push(rec_of[0], &fifo, pool_alloc(101 + i));
  rt_run(c->nthreads, body, c->sched, c->nsched, dmax);
  rt_print_trace();
}
int main(void) { return h_main(); }
