/* T2 adapter (see t2.c): the whole real runtime under the baton scheduler. */
#ifndef VERIF_T2_H
#define VERIF_T2_H
#include "rt.h"
#include "fiber_manager.h"
#include "fiber.h"

#define T2_LOC_POLL 910   /* an idle kernel thread's epoll_wait */
#define T2_LOC_RELAX 911  /* a cpu_relax() in a spin-wait loop */
/* protocol events in the trace: kind 919, loc:
 *   951 schedule(f)  952 next() returned f  953 stole f  954/964 switch old/new
 *   955 resumed (a = fiber that was switched away from / the fresh fiber itself)
 *   956 destroy(f)   957 created f          958 created thread fiber f */
void t2_advance_ticks(unsigned k);   /* virtual timer ticks (each FIBER_TIME_RESOLUTION_MS) */
void t2_poll_from_fiber(void);
int t2_run(int nthreads, void (*main_fiber)(void), const int* sched, int nsched, int drain_max);
#endif
