/* C19 differential harness (does NOT use the lock-step runtime).
 *
 * Runs the REAL fiber_context_init / fiber_context_swap / fiber_context_destroy
 * compiled from $VERIF_REPO/src/fiber_context.c (one of -DFIBER_STACK_MALLOC /
 * -DFIBER_STACK_MMAP / -DFIBER_STACK_SPLIT; with -DFIBER_FAST_SWITCHING the
 * assembly back-end, without it the ucontext back-end) on chains
 * of switches among 2..5 contexts (context 0 = the thread, the others new),
 * planting chosen values in rbx rbp r12-r15 before every switch (through
 * rt/h_ctx_tramp.S) and recording, each time a context is resumed or entered,
 * its callee-saved registers, rsp, a checksum of its live stack, mxcsr and the
 * x87 control word.  malloc/free/mmap/munmap (and __splitstack_makecontext /
 * __splitstack_releasecontext) are wrapped at link time (-Wl,--wrap=) to count
 * stack allocations and releases per create / destroy.
 *
 * stdin, one case per line (64-bit quantities as two 32-bit halves "hi lo"):
 *   N size_0..size_{N-1} (param_hi param_lo)*N mx K (to depth rbx rbp r12 r13 r14 r15)*K
 *   (size_0 / param_0 are ignored; mx=1: each context sets its own MXCSR / x87
 *    rounding mode before switching, to see whether it leaks - report only;
 *    depth = number of nested small frames (0..64) the switch is made from, or
 *    9216 = from inside a function with a 72 KB frame: under split stacks the
 *    context is then on a new stack segment, see big_frame_switch)
 * stdout, one line per case:
 *   N (base%4096 ctx_stack_size)*N   then one 18-number record per switch, for
 *   the context switched TO (same format as coq/Ctx.v):
 *     kind ctx rbx rbp r12 r13 r14 r15 (hi lo each) d e_hi e_lo f
 *     kind 0 resumed: d = rsp after - rsp before its own switch-out, e = 0,
 *                     f = 1 iff the checksum of its live stack changed
 *     kind 1 entered: d = (ctx_stack+ctx_stack_size) - rsp at function entry,
 *                     e = rdi, f = 0 iff the word at (rsp) is 0
 *   then the trailer  -7 stacks_allocated stacks_released bad mxcsr_diffs x87_diffs
 *                     all_allocs all_releases
 *   (bad = number of deviations from: everything a context's init allocated is
 *    released exactly once by its destroy and nothing else is; a new context's
 *    stack is allocated exactly once; with the assembly back-end a thread
 *    context allocates and releases nothing), or  -9 sig  if the case crashed,
 *   -6 if the chain ended in a context other than 0.
 */
#ifndef _GNU_SOURCE
#define _GNU_SOURCE
#endif
#include <signal.h>
#include <stdint.h>
#include <stdio.h>
#include <stdlib.h>
#include <string.h>
#include <sys/mman.h>
#include <sys/wait.h>
#include <unistd.h>

#include "fiber_context.h"

#define MAXCTX 8
#define MAXSTEP 4096
#define OUTCAP (64 + 18 * (MAXSTEP + 8))

struct swrec {
  uint64_t after[6];
  uint64_t rsp_after;
  uint32_t mxcsr_after;
  uint16_t cw_after, pad0;
  uint64_t rsp_before;
  uint32_t mxcsr_before;
  uint16_t cw_before, pad1;
};
struct entrec {
  uint64_t regs[6];
  uint64_t rsp, rdi, ret;
  uint32_t mxcsr;
  uint16_t cw, pad;
};
typedef struct { int to; int depth; uint64_t plant[6]; } step_t;

extern void ctx_tramp_swap(fiber_context_t* from, fiber_context_t* to, uint64_t* plant,
                           struct swrec* rec);
extern void ctx_tramp_entry(void);
void ctx_body(void);

/* read by the assembly shims */
struct swrec* volatile g_resume_rec;
struct entrec* volatile g_entry_rec;

static int N, K, MX;
static fiber_context_t ctx[MAXCTX];
static struct swrec rec[MAXCTX];
static struct entrec ent[MAXCTX];
static step_t* chain;
static volatile int g_cur, g_k;
static uint64_t* top[MAXCTX];
static uint64_t* lo_addr[MAXCTX];
static uint64_t cks[MAXCTX];
static uint64_t* extra_lo[MAXCTX];   /* large local buffer of big_frame_switch, if any */
static uint64_t* extra_hi[MAXCTX];
static long mx_diffs, cw_diffs;

static int64_t* out; /* shared with the parent: out[0] = count */
static void emit(int64_t v) {
  if (out[0] < OUTCAP - 2) out[++out[0]] = v;
}
static void emit64(uint64_t v) { emit((int64_t)(v >> 32)); emit((int64_t)(v & 0xffffffffu)); }

/* ---------------- allocation accounting ---------------- */
/* While acct_on, every allocation / release made by the code under test is
   logged by pointer.  Rule checked per context: everything allocated by its
   init call is released exactly once by its destroy call, nothing else is
   released, a new context's stack is among the allocations, and (assembly
   back-end) a thread context allocates and releases nothing. */
#define MAXEV 16
static int acct_on;
static int n_alloc, n_rel;
static void* alloc_ptr[MAXEV]; static size_t alloc_size[MAXEV];
static void* rel_ptr[MAXEV];   static size_t rel_size[MAXEV];
static long tot_alloc, tot_rel, bad;

static void log_alloc(void* p, size_t n) {
  if (n_alloc < MAXEV) { alloc_ptr[n_alloc] = p; alloc_size[n_alloc] = n; }
  n_alloc++;
}
static void log_rel(void* p, size_t n) {
  if (n_rel < MAXEV) { rel_ptr[n_rel] = p; rel_size[n_rel] = n; }
  n_rel++;
}

extern void* __real_malloc(size_t);
extern void __real_free(void*);
extern void* __real_mmap(void*, size_t, int, int, int, off_t);
extern int __real_munmap(void*, size_t);
void* __wrap_malloc(size_t n) {
  void* p = __real_malloc(n);
  if (acct_on) log_alloc(p, n);
  return p;
}
void __wrap_free(void* p) {
  if (acct_on) log_rel(p, 0);
  __real_free(p);
}
void* __wrap_mmap(void* a, size_t n, int pr, int fl, int fd, off_t off) {
  void* p = __real_mmap(a, n, pr, fl, fd, off);
  if (acct_on) log_alloc(p, n);
  return p;
}
int __wrap_munmap(void* p, size_t n) {
  if (acct_on) log_rel(p, n);
  return __real_munmap(p, n);
}
#ifdef FIBER_STACK_SPLIT
extern void* __real___splitstack_makecontext(size_t, void*, size_t*);
extern void __real___splitstack_releasecontext(void*);
void* __wrap___splitstack_makecontext(size_t n, void* c, size_t* sz) {
  int was = acct_on; acct_on = 0;      /* its internal mmap is not a second allocation */
  void* p = __real___splitstack_makecontext(n, c, sz);
  acct_on = was;
  if (acct_on) log_alloc(c, n);
  return p;
}
void __wrap___splitstack_releasecontext(void* c) {
  int was = acct_on; acct_on = 0;
  __real___splitstack_releasecontext(c);
  acct_on = was;
  if (acct_on) log_rel(c, 0);
}
#endif

/* what each context's init allocated (to be released by its destroy) */
static int own_n[MAXCTX];
static void* own_ptr[MAXCTX][MAXEV]; static size_t own_size[MAXCTX][MAXEV];
static int n_stacks_alloc, n_stacks_rel;

static void* stack_id(int i) {
#ifdef FIBER_STACK_SPLIT
  return (void*)ctx[i].splitstack_context;
#else
  return ctx[i].ctx_stack;
#endif
}

static void after_init(int i, int thread) {
  acct_on = 0;
  tot_alloc += n_alloc;
  if (n_rel != 0 || n_alloc > MAXEV) bad++;
  own_n[i] = n_alloc > MAXEV ? MAXEV : n_alloc;
  int has_stack = 0;
  for (int k = 0; k < own_n[i]; k++) {
    own_ptr[i][k] = alloc_ptr[k]; own_size[i][k] = alloc_size[k];
    if (!thread && alloc_ptr[k] == stack_id(i)) has_stack++;
  }
  if (!thread) { n_stacks_alloc += has_stack; if (has_stack != 1) bad++; }
#ifdef FIBER_FAST_SWITCHING
  if (n_alloc != (thread ? 0 : 1)) bad++;
#endif
  if (!!ctx[i].is_thread != !!thread) bad++;
}

static void create_ctx(int i, size_t size, uint64_t param) {
  n_alloc = n_rel = 0; acct_on = 1;
  int ok = fiber_context_init(&ctx[i], size, (fiber_run_function_t)ctx_tramp_entry,
                              (void*)(uintptr_t)param);
  after_init(i, 0);
  if (!ok) { emit(-5); emit(i); }
}

static void destroy_ctx(int i) {
  int thread = (i == 0);
  void* sid = stack_id(i);
  n_alloc = n_rel = 0; acct_on = 1;
  fiber_context_destroy(&ctx[i]);
  acct_on = 0;
  tot_rel += n_rel;
  if (n_alloc != 0 || n_rel != own_n[i]) bad++;
  /* every release matches exactly one of this context's allocations */
  int used[MAXEV] = {0};
  for (int r = 0; r < n_rel && r < MAXEV; r++) {
    int hit = 0;
    for (int k = 0; k < own_n[i] && !hit; k++)
      if (!used[k] && own_ptr[i][k] == rel_ptr[r]) {
        used[k] = hit = 1;
        if (rel_size[r] && rel_size[r] != own_size[i][k]) bad++;   /* partial munmap */
      }
    if (!hit) bad++;
    if (!thread && rel_ptr[r] == sid) n_stacks_rel++;
  }
}

/* ---------------- the switch chain ---------------- */
static uint64_t cksum(uint64_t* lo, uint64_t* hi) {
  uint64_t h = 1469598103934665603ull;
  if (lo >= hi || (size_t)(hi - lo) > (1u << 20)) return 0;
  for (uint64_t* p = lo; p < hi; p++) h = (h ^ *p) * 1099511628211ull;
  return h;
}

static uint64_t live_cksum(int me) {
  return cksum(lo_addr[me], top[me]) ^ (3 * cksum(extra_lo[me], extra_hi[me]));
}

static void set_fp_modes(int me) {
  uint32_t mx = 0x1f80u | ((uint32_t)(me & 3) << 13);
  uint16_t cw = (uint16_t)(0x037fu | ((me & 3) << 10));
  __asm__ volatile("ldmxcsr %0" : : "m"(mx));
  __asm__ volatile("fldcw %0" : : "m"(cw));
}

static void log_regs(const uint64_t* r) { for (int j = 0; j < 6; j++) emit64(r[j]); }

static __attribute__((noinline)) void do_switch(void) {
  int me = g_cur;
  step_t* s = &chain[g_k];
  int to = s->to;
  g_k++;
  if (to == me || to < 0 || to >= N) return;
  lo_addr[me] = (uint64_t*)__builtin_frame_address(0);
  cks[me] = live_cksum(me);
  if (MX) set_fp_modes(me);
  g_cur = to;
  g_resume_rec = &rec[to];
  g_entry_rec = &ent[to];
  ctx_tramp_swap(&ctx[me], &ctx[to], s->plant, &rec[me]);
  /* resumed: whoever switched to us set g_cur = me again */
  me = g_cur;
  struct swrec* r = &rec[me];
  emit(0); emit(me);
  log_regs(r->after);
  emit((int64_t)(r->rsp_after - r->rsp_before));
  emit(0); emit(0);
  emit(live_cksum(me) != cks[me]);
  if (r->mxcsr_after != r->mxcsr_before) mx_diffs++;
  if (r->cw_after != r->cw_before) cw_diffs++;
}

static __attribute__((noinline)) void descend(int d) {
  volatile uint64_t pad[4];
  pad[0] = 0x5a5a000000000000ull + (uint64_t)d;
  pad[1] = (uint64_t)g_k * 0x9e3779b97f4a7c15ull;
  if (d > 0) descend(d - 1); else do_switch();
  pad[2] = pad[0] + pad[1];
}

/* A step with depth BIGDEPTH switches out from inside a function with a 72 KB
   frame (touched).  With split stacks such a frame does not fit the current
   segment, so __morestack moves the context onto a NEW segment: the context is
   then switched out from a different segment than at its earlier switch-outs,
   resumed there, and returns through __morestack's epilogue.  Without split
   stacks it is just a deep frame (the case generator gives such contexts a
   large stack). */
#define BIGDEPTH 9216
#define BIGBYTES (8 * BIGDEPTH)
static __attribute__((noinline)) void big_frame_switch(void) {
  volatile unsigned char buf[BIGBYTES];
  int me = g_cur;
  for (size_t i = 0; i < BIGBYTES; i += 64) buf[i] = (unsigned char)(i * 7 + (size_t)me + (size_t)g_k);
  extra_lo[me] = (uint64_t*)(((uintptr_t)buf + 7) & ~(uintptr_t)7);
  extra_hi[me] = (uint64_t*)(((uintptr_t)buf + BIGBYTES) & ~(uintptr_t)7);
  do_switch();
  me = g_cur;
  extra_lo[me] = extra_hi[me] = 0;
  buf[1] = buf[0];
}

static void run_steps(void) {
  while (g_k < K) {
    if (chain[g_k].depth == BIGDEPTH) big_frame_switch(); else descend(chain[g_k].depth);
  }
}

void ctx_body(void) {
  int me = g_cur;
  struct entrec* e = &ent[me];
  emit(1); emit(me);
  log_regs(e->regs);
  emit((int64_t)((uint64_t)(uintptr_t)ctx[me].ctx_stack + ctx[me].ctx_stack_size - e->rsp));
  emit64(e->rdi);
  emit(e->ret != 0);
  run_steps();
  emit(-6);          /* the chain ended in a fiber: nothing to return to */
  _exit(0);
}

static __attribute__((noinline)) void run_case(int64_t* v, int n) {
  int i = 0;
  N = (int)v[i++];
  if (N < 2 || N > MAXCTX || n < 1 + 3 * N + 2) { emit(-1); return; }
  size_t size[MAXCTX]; uint64_t param[MAXCTX];
  for (int c = 0; c < N; c++) size[c] = (size_t)v[i++];
  for (int c = 0; c < N; c++) { uint64_t h = (uint64_t)v[i++]; param[c] = (h << 32) | (uint64_t)v[i++]; }
  MX = (int)v[i++];
  K = (int)v[i++];
  if (K < 0 || K > MAXSTEP || i + 14 * K > n) { emit(-1); return; }
  chain = __real_malloc(sizeof(step_t) * (size_t)(K + 1));
  for (int k = 0; k < K; k++) {
    chain[k].to = (int)v[i++]; chain[k].depth = (int)v[i++];
    if (chain[k].depth != 9216 && (chain[k].depth < 0 || chain[k].depth > 64)) chain[k].depth = 0;
    for (int j = 0; j < 6; j++) { uint64_t h = (uint64_t)v[i++]; chain[k].plant[j] = (h << 32) | (uint64_t)v[i++]; }
  }
  /* create */
  n_alloc = n_rel = 0; acct_on = 1;
  fiber_context_init_from_thread(&ctx[0]);
  after_init(0, 1);
  for (int c = 1; c < N; c++) create_ctx(c, size[c], param[c]);
  emit(N);
  emit(0); emit(0);
  for (int c = 1; c < N; c++) {
    emit((int64_t)((uintptr_t)ctx[c].ctx_stack & 4095));
    emit((int64_t)ctx[c].ctx_stack_size);
    top[c] = (uint64_t*)(((uintptr_t)ctx[c].ctx_stack + ctx[c].ctx_stack_size) & ~(uintptr_t)7);
  }
  top[0] = (uint64_t*)__builtin_frame_address(0);
  g_cur = 0; g_k = 0;
  run_steps();
  if (MX) set_fp_modes(0);
  /* destroy: every context exactly once, the thread context last */
  for (int c = 1; c < N; c++) destroy_ctx(c);
  destroy_ctx(0);
  emit(-7); emit(n_stacks_alloc); emit(n_stacks_rel); emit(bad); emit(mx_diffs); emit(cw_diffs);
  emit(tot_alloc); emit(tot_rel);
}

int main(void) {
  char* line = NULL; size_t cap = 0; ssize_t len;
  out = __real_mmap(NULL, sizeof(int64_t) * OUTCAP, PROT_READ | PROT_WRITE,
                    MAP_SHARED | MAP_ANONYMOUS, -1, 0);
  if (out == MAP_FAILED) return 2;
  while ((len = getline(&line, &cap, stdin)) > 0) {
    int64_t* v = NULL; int n = 0, vcap = 0; char* p = line; char* e;
    for (;;) {
      long long x = strtoll(p, &e, 10);
      if (e == p) break;
      if (n == vcap) { vcap = vcap ? vcap * 2 : 256; v = realloc(v, sizeof(int64_t) * (size_t)vcap); }
      v[n++] = x; p = e;
    }
    out[0] = 0;
    fflush(stdout);
    pid_t pid = fork();
    if (pid == 0) {
      alarm(10);
      if (n < 1) emit(-1); else run_case(v, n);
      _exit(0);
    }
    int st = 0;
    waitpid(pid, &st, 0);
    if (WIFSIGNALED(st)) { emit(-9); emit(WTERMSIG(st)); }
    else if (WEXITSTATUS(st) != 0) { emit(-9); emit(1000 + WEXITSTATUS(st)); }
    for (int64_t k = 1; k <= out[0]; k++) printf(k > 1 ? " %lld" : "%lld", (long long)out[k]);
    printf("\n");
    fflush(stdout);
    free(v);
  }
  return 0;
}
