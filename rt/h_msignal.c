/* Lock-step harness for fiber_multi_signal_* of include/fiber_signal.h (C20,
 * model coq/MultiSignal.v).  One pthread per "fiber" (thread-with-sleep
 * abstraction): thread t runs fiber t+1 whose wait node is node t+1.
 * The fiber runtime is stubbed here:
 *   fiber_manager_get()        -> this thread's dummy manager (current_fiber set)
 *   fiber_manager_yield(m)     -> event (11, K_EV, 0); perform the deferred
 *                                 "*set_wait_location = set_wait_value" that the
 *                                 real manager does after the context switch (a
 *                                 traced write to fiber.scratch); rt_block_self()
 *   fiber_scheduler_schedule() -> event (12, K_EV, fiber id); rt_wake(that thread)
 * params: [0] initial counter, [1] drain budget.
 * locs:   0 = signal.counter, 1 = signal.head (the DCAS cell; RAISED prints -1),
 *         100 + 2*t = node[t].data, 101 + 2*t = node[t].next,
 *         200 + t = fiber[t].scratch (READY_TO_WAKE prints -1).
 *         fiber.state, fiber.mpsc_fifo_node and the managers are not registered.
 * ops:    1 = fiber_multi_signal_wait (ret 1), 2 = fiber_multi_signal_raise
 *         (ret = its result), 3 = fiber_multi_signal_raise_strict (ret 1). */
#include "harness.h"
#include "fiber_manager.h"
#include "fiber_signal.h"

static fiber_multi_signal_t sig;
static fiber_t fibers[RT_MAX_THREADS];
static mpsc_fifo_node_t nodes[RT_MAX_THREADS];
static fiber_manager_t managers[RT_MAX_THREADS + 1];
static hcase_t* cur;

fiber_manager_t* fiber_manager_get() {
  int t = rt_self();
  return &managers[t < 0 ? RT_MAX_THREADS : t];
}

void fiber_manager_yield(fiber_manager_t* m) {
  rt_event(11, K_EV, 0);
  void** loc = m->set_wait_location;
  void* v = m->set_wait_value;
  m->set_wait_location = NULL;
  m->set_wait_value = NULL;
  *(void* volatile*)loc = v;          /* what fiber_manager_do_maintenance does */
  rt_block_self();
}

void fiber_scheduler_schedule(fiber_scheduler_t* scheduler, fiber_t* f) {
  (void)scheduler;
  int u = (int)(f - fibers);
  rt_event(12, K_EV, u + 1);
  rt_wake(u);
}

static void body(int t) {
  for (int k = 0; k < cur->nops[t]; k++) {
    long opc = cur->ops[t][k][0];
    if (opc == 1) {
      fibers[t].state = FIBER_STATE_RUNNING;
      fiber_multi_signal_wait(&sig);
      rt_event(k + 1, K_RET, 1);
    } else if (opc == 3) {
      fiber_multi_signal_raise_strict(&sig);
      rt_event(k + 1, K_RET, 1);
    } else {
      int r = fiber_multi_signal_raise(&sig);
      rt_event(k + 1, K_RET, r);
    }
  }
}

static void h_run_case(hcase_t* c) {
  cur = c;
  long start = c->params[0]; int dmax = (int)c->params[1];
  fiber_multi_signal_init(&sig);
  sig.data.counter = (uintptr_t)start;
  memset(fibers, 0, sizeof fibers); memset(nodes, 0, sizeof nodes); memset(managers, 0, sizeof managers);
  for (int t = 0; t < RT_MAX_THREADS; t++) {
    fibers[t].mpsc_fifo_node = &nodes[t];
    managers[t].current_fiber = &fibers[t];
    rt_reg((void*)&fibers[t].scratch, 8, 200 + t, 8);
  }
  rt_reg((void*)&sig, 16, 0, 8);
  rt_reg(nodes, sizeof nodes, 100, 8);
  rt_reg_rest(&sig, sizeof sig, 3900);   /* search mode only: fields the model does not know */
  rt_name(nodes, sizeof nodes, 1, sizeof nodes[0]);
  rt_name(fibers, sizeof fibers, 1, sizeof fibers[0]);
  rt_run(c->nthreads, body, c->sched, c->nsched, dmax);
  rt_print_trace();
}
int main(void) { return h_main(); }
