/* Lock-step harness for include/dist_fifo.h (C20, model coq/DistFifo.v).
 * Thread 0 is the distinguished pusher; every thread may pop.
 * params: [0] p = number of free nodes initially in the pool (ids 2 .. p+1;
 *             node 1 is the initial dummy), [1] initial counter, [2] drain budget.
 * locs:   0 = head.counter, 1 = head.node (the DCAS cell), 2 = fifo.tail,
 *         100 + 2*(id-1) = node.data, 101 + 2*(id-1) = node.next.
 * The pool is the harness-level free list (front = most recently returned
 * node); it is not registered: it changes only inside a granted step.
 * ops:    1 a = (thread 0 only) take the pool node at index ((a mod 8) mod
 *               #pool), store the value a/8+1 into node->data (one traced
 *               write), dist_fifo_push; ret = node id.  Skipped (ret 0, no
 *               access) on any other thread or when the pool is empty;
 *         2   = dist_fifo_trypop: ret 0 on EMPTY, -1 on RETRY; on success the
 *               harness reads r->data (one traced read), returns r to the front
 *               of the pool and emits two ret events: node id, then the value;
 *         3   = drain: trypop until EMPTY (ret events as for 2, same loc). */
#include "harness.h"
#include "dist_fifo.h"

#define MAXN 64
static dist_fifo_t fifo __attribute__((aligned(64)));
static dist_fifo_node_t nodes[MAXN + 1];
static dist_fifo_node_t* pool[MAXN + 1];
static int npool;
static hcase_t* cur;

static long idof(dist_fifo_node_t* n) { return n ? (long)(n - nodes) + 1 : 0; }

static void body(int t) {
  for (int k = 0; k < cur->nops[t]; k++) {
    long opc = cur->ops[t][k][0], a = cur->ops[t][k][1];
    if (opc == 1) {
      if (t != 0 || npool == 0) { rt_event(k + 1, K_RET, 0); continue; }
      int i = (int)((a % 8) % npool);
      dist_fifo_node_t* n = pool[i];
      for (int j = i; j + 1 < npool; j++) pool[j] = pool[j + 1];
      npool--;
      n->data = (void*)(uintptr_t)(a / 8 + 1);
      dist_fifo_push(&fifo, n);
      rt_event(k + 1, K_RET, idof(n));
    } else {
      for (;;) {
        dist_fifo_node_t* r = dist_fifo_trypop(&fifo);
        if (r == DIST_FIFO_EMPTY) { rt_event(k + 1, K_RET, 0); break; }
        if (r == DIST_FIFO_RETRY) { rt_event(k + 1, K_RET, -1); if (opc == 3) continue; break; }
        long v = (long)(uintptr_t)r->data;
        for (int j = npool; j > 0; j--) pool[j] = pool[j - 1];
        pool[0] = r; npool++;
        rt_event(k + 1, K_RET, idof(r));
        rt_event(k + 1, K_RET, v);
        if (opc != 3) break;
      }
    }
  }
}

static void h_run_case(hcase_t* c) {
  cur = c;
  int p = (int)c->params[0]; long start = c->params[1]; int dmax = (int)c->params[2];
  if (p < 0 || p + 1 > MAXN) { printf("-1\n"); return; }
  if (!dist_fifo_init(&fifo)) { printf("-1\n"); return; }
  free(fifo.tail);                       /* use a named node as the dummy */
  memset(nodes, 0, sizeof nodes);
  fifo.tail = &nodes[0];
  fifo.head.pointer.node = &nodes[0];
  fifo.head.pointer.counter = (uintptr_t)start;
  npool = 0;
  for (int j = 0; j < p; j++) pool[npool++] = &nodes[1 + j];
  rt_reg((void*)&fifo.head, 16, 0, 8);
  rt_reg((void*)&fifo.tail, 8, 2, 8);
  rt_reg(nodes, sizeof nodes, 100, 8);
  rt_reg_rest(&fifo, sizeof fifo, 3900);   /* search mode only: fields the model does not know */
  rt_name(nodes, sizeof nodes, 1, sizeof nodes[0]);
  rt_run(c->nthreads, body, c->sched, c->nsched, dmax);
  rt_print_trace();
}
int main(void) { return h_main(); }
