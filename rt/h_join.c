/* Lock-step harness for fiber_join / fiber_tryjoin / fiber_detach against the
 * completion of the target fiber (C04), on the T1 machine.
 *
 * Thread 0 is the TARGET fiber t1_fiber_of(0); threads 1.. are client fibers
 * that operate on the target's handle.
 *   params: [0] drain_max  [1] mode: 0 = guarded (an op on the handle starts
 *           only while the harness-side flag "handle given up" is clear),
 *           1 = unguarded (ops are issued regardless; F-C04b exploration)
 *           [2] model variant (1 = code with the F-C04a repair 4ff1f32, 0 = before it): used by
 *           the model only, chosen by tools/vf/props/C04.py from the tree under test; ignored here
 *   ops:    1 join  2 tryjoin  3 detach  4 yield  5 finish(arg = result, 1..99)
 *           thread 0 performs only 4 and 5, the others only 1..4; anything
 *           else reports -1 and is skipped.
 *   RET event value: rc*100 + result (result NULL = 0), yield = 3, skipped = -1.
 *
 * Built with -Dfree=h_join_free for every translation unit: fiber_destroy()'s
 * free(f) of the target becomes the event "600 919 1000" (fiber 1000 reclaimed)
 * and the fiber is quarantined instead of freed: the fields that the protocol
 * reads (state, detach_state, join_info, result) keep their stale contents -
 * which is what glibc leaves in a freed chunk beyond its first 16 bytes - so
 * that the run stays deterministic; everything else in the struct is poisoned.
 * Any registered access to the target after that event is a use-after-free;
 * the monitor of tools/vf/props/C04.py flags it. */
#undef free
#include "harness.h"
#include "t1.h"
#include "fiber.h"

extern void fiber_mark_completed(fiber_t* the_fiber, void* result);

static hcase_t* cur;
static fiber_t* target;
static volatile int handle_given_up;   /* harness-side: a join/tryjoin/detach returned SUCCESS */
static int mode_unguarded;
static void* target_node;               /* the target's mpsc node (freed by fiber_destroy before the fiber itself) */

#define LOC_RECLAIM 600

/* not instrumented: the poisoning is harness work, not an access of the code under test (matters only in search
 * mode, where the whole target fiber_t is registered) */
__attribute__((no_sanitize("thread")))
void h_join_free(void* p) {
  if (p && p == (void*)target) {
    rt_event(LOC_RECLAIM, K_EV, 1000);
    /* quarantine + poison what the protocol never reads */
    target->run_function = (fiber_run_function_t)0x5a5a5a5a5a5a5a5aull;
    target->param = (void*)0x5a5a5a5a5a5a5a5aull;
    target->id = 0x5a5a5a5a5a5a5a5aull;
    memset((void*)&target->context, 0x5a, sizeof target->context);
    target->mpsc_fifo_node = (mpsc_fifo_node_t*)0x5a5a5a5a5a5a5a5aull;
    target->scratch = (void*)0x5a5a5a5a5a5a5a5aull;
    return;
  }
  if (p && p == target_node) rt_event(961, K_AUX, 1000);   /* monitor-only: the target's queue node is released */
  free(p);
}

/* what fiber_go_function does after run_function returned `result`:
 * the body of the static fiber_join_routine(), textually identical
 * (src/fiber.c:38-43) */
static void finish_target(fiber_t* the_fiber, void* result) {
  fiber_mark_completed(the_fiber, result);
  fiber_manager_get()->done_fiber = the_fiber;
  fiber_manager_yield(fiber_manager_get());
  /* assert(0 && "should never get here"); */
}

static long pack(int rc, void* res) {
  uintptr_t r = (uintptr_t)res;
  return (long)rc * 100 + (r < 100 ? (long)r : 99);
}

static void prog(int t) {
  for (int k = 0; k < cur->nops[t]; k++) {
    long opc = cur->ops[t][k][0];
    long arg = cur->ops[t][k][1];
    long r;
    if (opc == 4) {
      fiber_yield();
      r = 3;
    } else if (t == 0) {
      if (opc != 5) { rt_event(k + 1, K_RET, -1); continue; }
      finish_target(target, (void*)(uintptr_t)(arg > 0 && arg < 100 ? arg : 1));
      r = 9;   /* not reached: the fiber is gone */
    } else if (opc == 1 || opc == 2 || opc == 3) {
      if (!mode_unguarded && handle_given_up) { rt_event(k + 1, K_RET, -1); continue; }
      if (opc == 1) {
        void* res = (void*)0x63;
        int rc = fiber_join(target, &res);
        if (rc == FIBER_SUCCESS) handle_given_up = 1;
        r = pack(rc, res);
      } else if (opc == 2) {
        void* res = (void*)0x63;
        int rc = fiber_tryjoin(target, &res);
        if (rc == FIBER_SUCCESS) handle_given_up = 1;
        r = pack(rc, res);
      } else {
        int rc = fiber_detach(target);
        if (rc == FIBER_SUCCESS) handle_given_up = 1;
        r = pack(rc, NULL);
      }
    } else {
      rt_event(k + 1, K_RET, -1); continue;
    }
    rt_event(k + 1, K_RET, r);
  }
}

static void h_run_case(hcase_t* c) {
  cur = c;
  int dmax = (int)c->params[0];
  mode_unguarded = c->nparams > 1 && c->params[1] == 1;
  handle_given_up = 0;
  int n = c->nthreads;
  t1_setup(n);
  target = t1_fiber_of(0);
  target_node = target ? (void*)target->mpsc_fifo_node : NULL;
  for (int t = 0; t < n; t++) {
    fiber_t* f = t1_fiber_of(t);
    rt_reg((void*)&f->state, 4, 200 + t, 4);
    rt_reg((void*)&f->result, 8, 510 + t, 8);        /* fiber t's result / join mailbox */
    rt_name(f, sizeof *f, 1000 + t, sizeof *f);
  }
  if (n > 0) {
    rt_reg((void*)&target->detach_state, 4, 500, 4);
    rt_reg((void*)&target->join_info, 8, 501, 8);
    rt_reg_rest(target, sizeof *target, 3900);   /* search mode only: the rest of the target fiber_t */
  }
  t1_run(n, prog, c->sched, c->nsched, dmax);
  rt_print_trace();
}
int main(void) { return h_main(); }
