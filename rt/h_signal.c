/* Lock-step harness for include/fiber_signal.h (fiber_signal_wait / _raise) on
 * the T1 machine (C11).  Header-only code: compiled into this file.
 * Locations (coq/ChanK.v): 503 = s->waiter; 502+4t = fiber t's scratch field;
 * 200+t = fiber t's state.  Fibers print as 1000+t, READY_TO_WAKE/RAISED as -1.
 * Ops: (1,_) fiber_signal_wait   (2,_) fiber_signal_raise.
 * Ret of call k (loc k+1, kind 909): wait -> 0, raise -> its return value. */
#include "harness.h"
#include "t1.h"
#include "fiber_signal.h"

static fiber_signal_t sig;
static hcase_t* cur;

static void prog(int t) {
  for (int k = 0; k < cur->nops[t]; k++) {
    long opc = cur->ops[t][k][0];
    long r = 0;
    if (opc == 1) fiber_signal_wait(&sig);
    else r = fiber_signal_raise(&sig);
    rt_event(k + 1, K_RET, r);
  }
}

static void h_run_case(hcase_t* c) {
  cur = c;
  int dmax = (int)c->params[0];
  int n = c->nthreads;
  t1_setup(n);
  fiber_signal_init(&sig);
  for (int t = 0; t < n; t++) {
    fiber_t* f = t1_fiber_of(t);
    rt_reg((void*)&f->state, 4, 200 + t, 4);
    rt_reg((void*)&f->scratch, 8, 502 + 4 * t, 8);
    rt_name(f, sizeof *f, 1000 + t, sizeof *f);
  }
  rt_reg((void*)&sig.waiter, 8, 503, 8);
  rt_reg_rest(&sig, sizeof sig, 13900);   /* search mode only: fields the model does not know */
  t1_run(n, prog, c->sched, c->nsched, dmax);
  rt_print_trace();
}
int main(void) { return h_main(); }
