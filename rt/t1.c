/* T1 adapter: runs the REAL src/fiber_manager.c and src/fiber.c (wait/wake,
 * deferred-action slots, do_maintenance, join protocol) with one pthread per
 * fiber under the baton scheduler of rt.c.  Replaced: the context switch (a
 * suspending fiber performs its successor's maintenance and then sleeps until
 * scheduled), the run queues (schedule = make runnable, next = nothing else to
 * run) and the event layer.  This is the "thread-with-sleep" machine of
 * DESIGN.md 3.4 on which the L2 primitives are put in lock-step.
 *
 * fiber_manager.c must be compiled with -Dpthread_create=t1_pthread_create so
 * that fiber_manager_init hands us its (static) thread function instead of
 * starting kernel threads. */
#ifndef _GNU_SOURCE
#define _GNU_SOURCE
#endif
#include "t1.h"

#include <pthread.h>
#include <stddef.h>
#include <setjmp.h>
#include <stdio.h>
#include <stdlib.h>
#include <string.h>
#include <unistd.h>

static int t1_n;
static void (*t1_prog)(int);
static void* (*t1_thread_func)(void*);
static void* t1_thread_arg[RT_MAX_THREADS];
static fiber_t* t1_fiber[RT_MAX_THREADS];       /* the user fiber of thread t */
static fiber_manager_t* t1_manager[RT_MAX_THREADS];
static __thread jmp_buf t1_exit;
static __thread int t1_entered;

int t1_pthread_create(pthread_t* th, const pthread_attr_t* attr, void* (*fn)(void*), void* arg) {
  (void)th; (void)attr;
  static int next = 1;
  if (next >= RT_MAX_THREADS) return 1;
  t1_thread_func = fn;
  t1_thread_arg[next++] = arg;
  return 0;
}

fiber_t* t1_fiber_of(int t) { return t1_fiber[t]; }
int t1_tid_of(fiber_t* f) {
  for (int t = 0; t < t1_n; t++) if (t1_fiber[t] == f) return t;
  return -1;
}

/* ---- scheduler replacement ---- */
static char t1_sched_token[RT_MAX_THREADS];
int fiber_scheduler_init(size_t n) { (void)n; return 1; }
void fiber_scheduler_shutdown(void) {}
fiber_scheduler_t* fiber_scheduler_for_thread(size_t i) { return (fiber_scheduler_t*)&t1_sched_token[i]; }
void fiber_scheduler_schedule(fiber_scheduler_t* s, fiber_t* f) {
  (void)s;
  int t = t1_tid_of(f);
  if (t < 0) { fprintf(stderr, "t1: schedule of unknown fiber %p\n", (void*)f); _exit(5); }
  rt_event(T1_LOC_SCHED, K_EV, t);
  rt_wake(t);
}
fiber_t* fiber_scheduler_next(fiber_scheduler_t* s) {
  (void)s;
  rt_point(T1_LOC_NEXT, K_RELAX, 0);   /* a yield is a scheduling point */
  return NULL;
}
static void t1_enter(int t);
void fiber_scheduler_load_balance(fiber_scheduler_t* s) {
  (void)s;
  if (!t1_entered) {        /* first call: we are inside the real thread function */
    t1_entered = 1;
    t1_enter(rt_self());
    longjmp(t1_exit, 1);
  }
}
void fiber_scheduler_stats(fiber_scheduler_t* s, uint64_t* a, uint64_t* b) { (void)s; (void)a; (void)b; }

/* ---- event / io layer: not present in T1 ---- */
int fiber_io_init(void) { return 1; }
void fiber_io_shutdown(void) {}
int fiber_event_init(void) { return 1; }
void fiber_event_shutdown(void) {}
int fiber_poll_events(void) { return 0; }
size_t fiber_poll_events_blocking(uint32_t s, uint32_t us) { (void)s; (void)us; return 0; }

/* ---- context replacement ---- */
int fiber_context_init(fiber_context_t* c, size_t sz, fiber_run_function_t f, void* p) {
  (void)sz; (void)f; (void)p; memset(c, 0, sizeof *c); return FIBER_SUCCESS;
}
int fiber_context_init_from_thread(fiber_context_t* c) { memset(c, 0, sizeof *c); c->is_thread = 1; return FIBER_SUCCESS; }
/* the stack of a fiber is released here in the real runtime: reported as a monitor-only observation
 * (tid 960 979 fiber), so that "the stack is reclaimed exactly once" can be judged on the T1 machine */
void fiber_context_destroy(fiber_context_t* c) {
  fiber_t* f = (fiber_t*)((char*)c - offsetof(fiber_t, context));
  int t = t1_tid_of(f);
  rt_event(960, K_AUX, t >= 0 ? 1000 + t : -1);
}

/* Only reached from fiber_manager_yield when the current fiber must wait
 * (state WAITING / SAVING / DONE) and nothing else is runnable: the real code
 * switches to the maintenance fiber, whose first action is
 * fiber_manager_do_maintenance() on behalf of the fiber that just left. */
void fiber_context_swap(fiber_context_t* from, fiber_context_t* to) {
  (void)from; (void)to;
  fiber_manager_t* const m = fiber_manager_get();
  fiber_t* const self = m->old_fiber;
  const int done = (self->state == FIBER_STATE_DONE);
  fiber_manager_do_maintenance();
  if (done) longjmp(t1_exit, 2);      /* the fiber is gone (destroyed by the successor) */
  rt_block_self();
  /* resumed: what the resuming thread's switch_to does for us */
  m->maintenance_fiber->state = FIBER_STATE_SAVING_STATE_TO_WAIT;
  m->current_fiber = self;
  m->old_fiber = m->maintenance_fiber;
  self->state = FIBER_STATE_RUNNING;
}

/* make thread t's user fiber current on its manager, as thread_func's
 * switch_to(manager, maintenance, fiber) would, then run its program */
static void t1_enter(int t) {
  fiber_manager_t* const m = fiber_manager_get();
  t1_manager[t] = m;
  fiber_t* const f = t1_fiber[t];
  if (m->maintenance_fiber) m->maintenance_fiber->state = FIBER_STATE_SAVING_STATE_TO_WAIT;
  m->current_fiber = f;
  m->old_fiber = m->maintenance_fiber ? m->maintenance_fiber : m->thread_fiber;
  f->state = FIBER_STATE_RUNNING;
  fiber_manager_do_maintenance();
  t1_prog(t);
}

static void t1_body(int t) {
  if (setjmp(t1_exit)) return;
  if (t == 0) {
    /* fiber_manager_init sets the calling thread's manager: run it here */
    if (fiber_manager_init(t1_n) != FIBER_SUCCESS) { fprintf(stderr, "t1: init failed\n"); _exit(5); }
    t1_entered = 1;
    t1_enter(0);
  } else {
    t1_thread_func(t1_thread_arg[t]);
  }
}

/* called from the harness main thread (not a participant): creates the
 * managers through the real fiber_manager_init and one user fiber per thread */
void t1_setup(int nthreads) {
  t1_n = nthreads;
  for (int t = 0; t < nthreads; t++) {
    t1_fiber[t] = fiber_create_no_sched(FIBER_DEFAULT_STACK_SIZE, NULL, NULL);
  }
}

int t1_run(int nthreads, void (*prog)(int), const int* sched, int nsched, int drain_max) {
  t1_prog = prog;
  return rt_run(nthreads, t1_body, sched, nsched, drain_max);
}

