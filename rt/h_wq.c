/* Lock-step harness for src/work_queue.c (C17), built on include/mpsc_fifo.h.
 * params: [0] drain budget.
 * ops: (1, a) = work_queue_push of item a, 2 <= a <= WQ_NODES;
 *      (10 + j, a), j = 0..7 = the same push marked "fast-forward" with table
 *      entry j (see below); (2, a) = (10, a).  Items are the
 *      mpsc nodes of one static array: nodes[i] is named i+1 in the trace, so
 *      NULL = 0, the fifo's initial stub = 1, item a = &nodes[a-1]; every node's
 *      data field initially holds its own name (that is what get_work hands
 *      back: trypop returns the OLD head node carrying the NEXT node's data).
 * locs: 0 = fifo.head, 1 = fifo.tail, 2 = in_count, 3 = out_count,
 *       98+2n = nodes[n-1].data, 99+2n = nodes[n-1].next.
 * Protocol (include/work_queue.h): a thread whose push returns
 * WORK_QUEUE_START_WORKING immediately becomes the worker and calls
 * work_queue_get_work until it returns WORK_QUEUE_EMPTY, then goes on with its
 * next push.
 * ret events: push k -> loc k+1, value = result (1 START_WORKING, 0 QUEUED);
 *             get_work inside push k -> loc 100+k+1, value = data of the item
 *             obtained (MORE_WORK) or 0 (EMPTY).
 * Fast-forward: in_count/out_count are only rebased when the queue momentarily
 * runs dry, so in a session that never drains they grow without bound, and no
 * test can afford 2^32 real pushes.  When a push marked (2, a) returns
 * START_WORKING, the fresh worker -- before its first get_work -- adds
 * FFAMT = ffamt[j] = 2^k - 3 (k = 32 20 16 31 24 8 12 36 for j = 0..7: the
 * counters then pass 2^k - 2, 2^k - 1, 2^k, 2^k + 1 ... as the next items are
 * pushed / handed out) to BOTH in_count and out_count in one step (one scheduling
 * point, event  tid 2 919 FFAMT).  This is exactly the state the public API
 * reaches when the fresh worker performs FFAMT times (push one more item; get
 * one item): in_count = i + FFAMT, out_count = FFAMT, same number of queued
 * items, modulo the identity of the queued items.  It is done by the worker
 * itself between its own calls, so it cannot race with the worker's own
 * read-modify-write of out_count; the two additions are not instrumented
 * (no scheduling point between them: exactly one thread runs at a time under
 * the baton scheduler, so together they are one atomic step, like the model's
 * pc GFfwd in coq/WorkQueue.v).  A marked push that returns QUEUED does
 * nothing special. */
#include "harness.h"
#include "work_queue.h"

#define WQ_NODES 1100
static mpsc_fifo_node_t nodes[WQ_NODES];
static work_queue_t wq;
static hcase_t* cur;

/* what a client does with the item it was handed; not a traced access (the
 * node is owned by the caller after get_work) */
__attribute__((no_sanitize_thread, noinline)) static long item_data(work_queue_item_t* it) {
  return rt_canon((uint64_t)(uintptr_t)it->data);
}

/* 2^k - 3, k = 32 20 16 31 24 8 12 36 (same table as ffamt in coq/WorkQueue.v); values stay below 2^40, the
 * range rt_canon prints verbatim */
static const int64_t ffamt[8] = { 4294967293LL, 1048573LL, 65533LL, 2147483645LL, 16777213LL, 253LL, 4093LL,
                                  68719476733LL };
/* table index of a marked push, -1 = plain push, -2 = not an op */
static int ff_index(long opc) {
  if (opc == 1) return -1;
  if (opc == 2) return 0;
  if (opc >= 10 && opc < 18) return (int)(opc - 10);
  return -2;
}
__attribute__((no_sanitize_thread, noinline)) static void h_wq_ffwd(work_queue_t* q, int64_t amt) {
  q->in_count += amt;
  q->out_count += amt;
}

static void body(int t) {
  for (int k = 0; k < cur->nops[t]; k++) {
    long a = cur->ops[t][k][1];
    int r = work_queue_push(&wq, &nodes[a - 1]);
    rt_event(k + 1, K_RET, r);
    int j = ff_index(cur->ops[t][k][0]);
    if (r == WORK_QUEUE_START_WORKING && j >= 0) {
      rt_point(2, K_EV, ffamt[j]);   /* scheduling point; the additions belong to the same grant */
      h_wq_ffwd(&wq, ffamt[j]);
    }
    if (r == WORK_QUEUE_START_WORKING) {
      for (;;) {
        work_queue_item_t* out = NULL;
        int g = work_queue_get_work(&wq, &out);
        if (g == WORK_QUEUE_EMPTY) { rt_event(100 + k + 1, K_RET, 0); break; }
        rt_event(100 + k + 1, K_RET, item_data(out));
      }
    }
  }
}

static void h_run_case(hcase_t* c) {
  cur = c;
  int dmax = (int)c->params[0];
  for (int t = 0; t < c->nthreads; t++)
    for (int k = 0; k < c->nops[t]; k++) {
      long a = c->ops[t][k][1];
      if (ff_index(c->ops[t][k][0]) == -2 || a < 2 || a > WQ_NODES) { printf("-1\n"); return; }
    }
  /* exactly what work_queue_init / mpsc_fifo_init do, with the stub taken from
   * the node array instead of calloc */
  memset(nodes, 0, sizeof nodes);
  wq.in_count = 0;
  wq.out_count = 0;
  wq.fifo.tail = &nodes[0];
  wq.fifo.head = wq.fifo.tail;
  for (int i = 0; i < WQ_NODES; i++) nodes[i].data = (void*)&nodes[i];
  rt_name(nodes, sizeof nodes, 1, (int)sizeof(nodes[0]));
  rt_reg((void*)&wq.fifo.head, 8, 0, 8);
  rt_reg((void*)&wq.fifo.tail, 8, 1, 8);
  rt_reg((void*)&wq.in_count, 8, 2, 8);
  rt_reg((void*)&wq.out_count, 8, 3, 8);
  rt_reg(nodes, sizeof nodes, 100, 8);
  rt_reg_rest(&wq, sizeof wq, 3900);   /* search mode only: fields the model does not know */
  rt_run(c->nthreads, body, c->sched, c->nsched, dmax);
  rt_print_trace();
}
int main(void) { return h_main(); }
