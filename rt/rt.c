/* Lock-step correspondence runtime: replacement for libtsan (see rt.h). */
#define _GNU_SOURCE
#include "rt.h"

#include <errno.h>
#include <linux/futex.h>
#include <pthread.h>
#include <stdio.h>
#include <stdlib.h>
#include <string.h>
#include <sys/syscall.h>
#include <time.h>
#include <unistd.h>

typedef unsigned char a8;
typedef unsigned short a16;
typedef unsigned int a32;
typedef unsigned long long a64;

/* ---------- registry ---------- */
typedef struct { uintptr_t base, end; long loc_base; int elem; } range_t;
#define MAX_RANGES 256
static range_t regs[MAX_RANGES]; static int nregs;
static range_t names[MAX_RANGES]; static int nnames;

void rt_reg(const void* base, size_t bytes, int loc_base, int elem) {
  if (nregs >= MAX_RANGES) { fprintf(stderr, "rt: too many ranges\n"); _exit(4); }
  regs[nregs++] = (range_t){(uintptr_t)base, (uintptr_t)base + bytes, loc_base, elem};
}
/* the rest of an object whose interesting fields were registered before this call: only in search mode
 * (RT_CATCHALL=1; judged by the monitors alone), so that a field ADDED by a changed source tree is a scheduling point
 * too.  Never active in the lock-step runs, whose traces must not depend on it. */
void rt_reg_rest(const void* base, size_t bytes, int loc_base) {
  if (getenv("RT_CATCHALL")) rt_reg(base, bytes, loc_base, 1);
}
void rt_name(const void* base, size_t bytes, long id_base, int elem) {
  if (nnames >= MAX_RANGES) { fprintf(stderr, "rt: too many names\n"); _exit(4); }
  names[nnames++] = (range_t){(uintptr_t)base, (uintptr_t)base + bytes, id_base, elem};
}
static inline long find_loc(const volatile void* a) {
  uintptr_t p = (uintptr_t)a;
  for (int i = 0; i < nregs; i++)
    if (p >= regs[i].base && p < regs[i].end)
      return regs[i].loc_base + (long)((p - regs[i].base) / regs[i].elem);
  return -1;
}
long rt_canon(uint64_t v) {
  for (int i = 0; i < nnames; i++)
    if (v >= names[i].base && v < names[i].end)
      return names[i].loc_base + (long)((v - names[i].base) / names[i].elem);
  if (v < (1ull << 40)) return (long)v;
  if ((int64_t)v < 0 && (int64_t)v > -(1ll << 40)) return (long)(int64_t)v;
  return -777777; /* unknown pointer: never compare raw addresses */
}

/* ---------- trace ---------- */
typedef struct { long tid, loc, kind, val; } ev_t;
static ev_t* trace; static long ntrace, captrace;
long rt_stat_steps, rt_stat_cas_fail;

/* value bias: the values of the counters at `loc` are reported minus `bias` (rt_bias).  Used to run a structure whose
 * counters start near a power-of-two boundary against a model whose counters start small: the model is invariant under
 * a shift of its counters by a multiple of the structure's size, the implementation must be too. */
static long bias_loc[8], bias_val[8]; static int nbias;
void rt_bias(long loc, long bias) { if (nbias < 8) { bias_loc[nbias] = loc; bias_val[nbias++] = bias; } }
static inline long debias(long loc, long kind, long val) {
  if (kind / 10 >= K_RET || kind / 10 == K_RELAX || kind / 10 == K_FENCE) return val;   /* only memory accesses */
  for (int i = 0; i < nbias; i++) if (bias_loc[i] == loc) return val - bias_val[i];
  return val;
}
static long push_ev(long tid, long loc, long kind, long val) {
  if (nbias) val = debias(loc, kind, val);
  if (ntrace == captrace) {
    captrace = captrace ? captrace * 2 : 4096;
    trace = realloc(trace, captrace * sizeof(ev_t));
  }
  trace[ntrace] = (ev_t){tid, loc, kind, val};
  return ntrace++;
}
void rt_print_trace(void) {
  for (long i = 0; i < ntrace; i++)
    printf("%s%ld %ld %ld %ld", i ? " " : "", trace[i].tid, trace[i].loc, trace[i].kind, trace[i].val);
  printf("\n");
}

void rt_print_trace_crash(int sig) {
  for (long i = 0; i < ntrace; i++)
    printf("%s%ld %ld %ld %ld", i ? " " : "", trace[i].tid, trace[i].loc, trace[i].kind, trace[i].val);
  printf("%s-9 -9 -9 %d\n", ntrace ? " " : "", sig);
}

/* ---------- baton ---------- */
enum { S_NONE = 0, S_RUNNING, S_ATPOINT, S_BLOCKED, S_WOKEN, S_DONE };
static int tstate[RT_MAX_THREADS];
static int wake_pending[RT_MAX_THREADS];
static int gate[RT_MAX_THREADS];   /* futex words: 1 = go */
static int cgate;                  /* controller futex */
static __thread int rt_tid = -1;
static int rt_nthreads;
volatile int rt_stop_now = 0;   /* set by a participant (T2: the main fiber when it is done): the run ends */
static void (*rt_body)(int);

/* pending plain write whose value is read back at the next point */
static struct { volatile void* addr; int size; long slot; uint64_t old; long loc; int tso; } pendw[RT_MAX_THREADS];

static long futex(int* uaddr, int op, int val, const struct timespec* to) {
  return syscall(SYS_futex, uaddr, op, val, to, NULL, 0);
}
static void gate_wait(int* g, int secs) {
  for (int spin = 0; spin < 200; spin++) {
    if (__atomic_load_n(g, __ATOMIC_ACQUIRE)) goto got;
    __builtin_ia32_pause();
  }
  struct timespec start; clock_gettime(CLOCK_MONOTONIC, &start);
  while (!__atomic_load_n(g, __ATOMIC_ACQUIRE)) {
    struct timespec to = {1, 0};
    futex(g, FUTEX_WAIT_PRIVATE, 0, &to);
    if (secs) {
      struct timespec now; clock_gettime(CLOCK_MONOTONIC, &now);
      if (now.tv_sec - start.tv_sec > secs) {
        printf("HANG\n"); fflush(stdout);
        fprintf(stderr, "rt: controller timeout (a thread ran %d s without reaching a scheduling point)\n", secs);
        _exit(3);
      }
    }
  }
got:
  __atomic_store_n(g, 0, __ATOMIC_RELEASE);
}
static void gate_open(int* g) {
  __atomic_store_n(g, 1, __ATOMIC_RELEASE);
  futex(g, FUTEX_WAKE_PRIVATE, 1, NULL);
}


/* ---------- x86-TSO search mode (RT_TSO=1; monitors only, never in the lock-step runs) ----------
 * Atomic stores weaker than seq_cst to registered locations go to a per-thread FIFO store buffer instead of memory
 * (on x86 they are plain MOVs).  A load by the same thread is served from its buffer (store forwarding).  seq_cst
 * stores, read-modify-writes, seq_cst fences, blocking and thread exit drain the buffer.  The controller flushes the
 * oldest buffered store of thread t when the schedule says 100+t, and one store per thread per round while draining.
 * The trace event of a buffered store is emitted when it reaches memory, so the trace stays sequentially consistent
 * (a delayed store simply appears late).  Plain (non-atomic) stores are performed by the compiled code and cannot be
 * buffered: the buffer is drained before any plain access to a registered location, which keeps every run a genuine
 * TSO execution (flushing early is always allowed); store->load reordering is explored for atomic stores only. */
static int tso_on;
typedef struct { volatile void* a; int bits; uint64_t v; long loc; int mo; } sb_ent_t;
#define SB_CAP 32
static sb_ent_t sb[RT_MAX_THREADS][SB_CAP]; static int sbn[RT_MAX_THREADS];
static void sb_apply(int t, sb_ent_t* e) {
  switch (e->bits) {
    case 8: __atomic_store_n((volatile a8*)e->a, (a8)e->v, __ATOMIC_SEQ_CST); break;
    case 16: __atomic_store_n((volatile a16*)e->a, (a16)e->v, __ATOMIC_SEQ_CST); break;
    case 32: __atomic_store_n((volatile a32*)e->a, (a32)e->v, __ATOMIC_SEQ_CST); break;
    default: __atomic_store_n((volatile a64*)e->a, (a64)e->v, __ATOMIC_SEQ_CST); break;
  }
  long val = e->bits == 64 ? rt_canon(e->v) : e->bits == 32 ? (long)(int32_t)e->v : e->bits == 16 ? (long)(int16_t)e->v : (long)(int8_t)e->v;
  push_ev(t, e->loc, e->mo == 9 ? K_WRITE * 10 + 9 : K_ASTORE * 10 + e->mo, val);
}
static int sb_flush_one(int t) {
  if (!sbn[t]) return 0;
  sb_apply(t, &sb[t][0]);
  memmove(&sb[t][0], &sb[t][1], sizeof(sb_ent_t) * (size_t)(sbn[t] - 1));
  sbn[t]--;
  return 1;
}
static void sb_drain(int t) { if (t >= 0) while (sb_flush_one(t)) {} }
static void sb_put(int t, volatile void* a, int bits, uint64_t v, long loc, int mo) {
  if (sbn[t] == SB_CAP) sb_flush_one(t);
  sb[t][sbn[t]++] = (sb_ent_t){a, bits, v, loc, mo};
}
static int sb_overlaps(int t, const volatile void* a, int bytes) {
  uintptr_t p = (uintptr_t)a;
  for (int i = 0; i < sbn[t]; i++) {
    uintptr_t q = (uintptr_t)sb[t][i].a; int n = sb[t][i].bits / 8;
    if (p < q + (uintptr_t)n && q < p + (uintptr_t)bytes) return 1;
  }
  return 0;
}
static int sb_lookup(int t, const volatile void* a, int bits, uint64_t* out) {
  for (int i = sbn[t] - 1; i >= 0; i--)
    if (sb[t][i].a == a && sb[t][i].bits == bits) { *out = sb[t][i].v; return 1; }
  return 0;
}

static inline uint64_t rd(volatile void* a, int size) {
  switch (size) {
    case 1: return *(volatile a8*)a;
    case 2: return *(volatile a16*)a;
    case 4: return *(volatile a32*)a;
    default: return *(volatile a64*)a;
  }
}
static inline void wr(volatile void* a, int size, uint64_t v) {
  switch (size) {
    case 1: *(volatile a8*)a = (a8)v; break;
    case 2: *(volatile a16*)a = (a16)v; break;
    case 4: *(volatile a32*)a = (a32)v; break;
    default: *(volatile a64*)a = (a64)v; break;
  }
}
static void flush_pending(int t) {
  if (pendw[t].addr && pendw[t].tso) {
    /* x86-TSO search mode: the plain store has just been executed by the compiled code; take it back (nobody else has
     * run since: this thread still holds the baton) and put it into the thread's store buffer instead */
    uint64_t v = rd(pendw[t].addr, pendw[t].size);
    wr(pendw[t].addr, pendw[t].size, pendw[t].old);
    sb_put(t, pendw[t].addr, pendw[t].size * 8, v, pendw[t].loc, 9);
    pendw[t].addr = NULL; pendw[t].tso = 0;
    return;
  }
  if (pendw[t].addr) {
    uint64_t v = rd(pendw[t].addr, pendw[t].size);
    if (pendw[t].size == 4) v = (uint64_t)(int64_t)(int32_t)v;
    trace[pendw[t].slot].val = debias(trace[pendw[t].slot].loc, trace[pendw[t].slot].kind, rt_canon(v));
    pendw[t].addr = NULL;
  }
}
/* give the baton back and wait to be granted again */
static void yield_to_controller(int t, int newstate) {
  flush_pending(t);
  tstate[t] = newstate;
  gate_open(&cgate);
  gate_wait(&gate[t], 0);
  tstate[t] = S_RUNNING;
}
int rt_self(void) { return rt_tid; }

void rt_event(long loc, long kind, long val) {
  if (rt_tid < 0) return;
  flush_pending(rt_tid);
  push_ev(rt_tid, loc, kind * 10 + 9, val);
}
void rt_point(long loc, long kind, long val) {
  if (rt_tid < 0) return;
  yield_to_controller(rt_tid, S_ATPOINT);
  rt_stat_steps++;
  push_ev(rt_tid, loc, kind * 10 + 9, val);
}
void rt_block_self(void) {
  int t = rt_tid;
  if (t < 0) return;
  if (wake_pending[t] > 0) { wake_pending[t]--; return; }
  if (tso_on) { flush_pending(t); sb_drain(t); }
  yield_to_controller(t, S_BLOCKED);
  /* granted again only after rt_wake moved us to S_WOKEN */
  push_ev(t, 0, K_EV * 10 + 9, 1);
}
void rt_wake(int tid) {
  if (tstate[tid] == S_BLOCKED) tstate[tid] = S_WOKEN;
  else wake_pending[tid]++;
}

static void* thread_main(void* arg) {
  int t = (int)(intptr_t)arg;
  rt_tid = t;
  gate_wait(&gate[t], 0);
  tstate[t] = S_RUNNING;
  rt_body(t);
  flush_pending(t);
  sb_drain(t);
  tstate[t] = S_DONE;
  rt_tid = -1;
  gate_open(&cgate);
  return NULL;
}

void rt_reset(void) {
  nregs = 0; nnames = 0; ntrace = 0;
  memset(tstate, 0, sizeof tstate); memset(wake_pending, 0, sizeof wake_pending);
  memset(gate, 0, sizeof gate); cgate = 0; memset(pendw, 0, sizeof pendw);
}

static void grant(int t) {
  gate_open(&gate[t]);
  gate_wait(&cgate, 10);
}

int rt_run(int nthreads, void (*body)(int), const int* sched, int nsched, int drain_max) {
  tso_on = getenv("RT_TSO") != NULL;
  memset(sbn, 0, sizeof sbn);
  pthread_t th[RT_MAX_THREADS];
  rt_nthreads = nthreads; rt_body = body;
  pthread_attr_t attr; pthread_attr_init(&attr); pthread_attr_setstacksize(&attr, 1 << 20);
  for (int t = 0; t < nthreads; t++) {
    tstate[t] = S_NONE;
    pthread_create(&th[t], &attr, thread_main, (void*)(intptr_t)t);
  }
  /* start each thread in tid order and let it run to its first point */
  for (int t = 0; t < nthreads; t++) grant(t);
  for (int i = 0; i < nsched; i++) {
    int t = sched[i];
    if (rt_stop_now) break;
    if (tso_on && t >= 100 && t - 100 < nthreads) { sb_flush_one(t - 100); continue; }
    if (t < 0 || t >= nthreads) continue;
    if (tstate[t] == S_ATPOINT || tstate[t] == S_WOKEN) grant(t);
  }
  int live = 1, steps = 0;
  while (live && steps < drain_max) {
    live = 0;
    for (int t = 0; t < nthreads && steps < drain_max; t++) {
      if (rt_stop_now) { live = 0; break; }
      if (tso_on && sb_flush_one(t)) live = 1;
      if (tstate[t] == S_ATPOINT || tstate[t] == S_WOKEN) { grant(t); steps++; live = 1; }
    }
  }
  if (rt_stop_now) return 0;   /* the others idle forever */
  int stuck = 0;
  for (int t = 0; t < nthreads; t++) if (tstate[t] != S_DONE) stuck = 1;
  if (stuck) {
    /* threads are parked on their gates forever; they are detached and the
     * harness re-execs / exits.  Record who is stuck in the trace. */
    for (int t = 0; t < nthreads; t++)
      if (tstate[t] != S_DONE) push_ev(t, 0, K_EV * 10 + 9, tstate[t] == S_BLOCKED ? 7 : 8);
    return 1;
  }
  for (int t = 0; t < nthreads; t++) pthread_join(th[t], NULL);
  return 0;
}

/* ---------- instrumentation entry points ---------- */
void __tsan_init(void) {}
void __tsan_func_entry(void* pc) { (void)pc; }
void __tsan_func_exit(void) {}
void __tsan_vptr_update(void** a, void* b) { (void)a; (void)b; }
void __tsan_vptr_read(void** a) { (void)a; }

static __thread int size16;
static inline void plain(volatile void* a, int size, int is_write) {
  int t = rt_tid;
  if (t < 0) return;
  long loc = find_loc(a);
  if (loc < 0) return;
  yield_to_controller(t, S_ATPOINT);
  rt_stat_steps++;
  if (tso_on && is_write && size16 == 0) {
    if (sb_overlaps(t, a, size)) sb_drain(t);      /* keep one entry per address range: simple and still TSO */
    pendw[t].addr = a; pendw[t].size = size; pendw[t].old = rd(a, size); pendw[t].loc = loc; pendw[t].tso = 1;
    return;
  }
  if (tso_on && (is_write || sb_overlaps(t, a, size))) sb_drain(t);
  if (is_write) {
    long slot = push_ev(t, loc, K_WRITE * 10 + 9, 0);
    pendw[t].addr = a; pendw[t].size = size; pendw[t].slot = slot; pendw[t].tso = 0;
  } else {
    uint64_t v = rd(a, size);
    if (size == 4) v = (uint64_t)(int64_t)(int32_t)v;
    push_ev(t, loc, K_READ * 10 + 9, rt_canon(v));
  }
}
#define RW(n) \
  void __tsan_read##n(void* a) { plain(a, n, 0); } \
  void __tsan_write##n(void* a) { plain(a, n, 1); } \
  void __tsan_unaligned_read##n(void* a) { plain(a, n, 0); } \
  void __tsan_unaligned_write##n(void* a) { plain(a, n, 1); } \
  void __tsan_volatile_read##n(void* a) { plain(a, n, 0); } \
  void __tsan_volatile_write##n(void* a) { plain(a, n, 1); }
RW(1) RW(2) RW(4) RW(8)
void __tsan_read16(void* a) { plain(a, 8, 0); }
void __tsan_write16(void* a) { size16 = 1; plain(a, 8, 1); size16 = 0; }
void __tsan_unaligned_read16(void* a) { plain(a, 8, 0); }
void __tsan_unaligned_write16(void* a) { size16 = 1; plain(a, 8, 1); size16 = 0; }

void __tsan_read_range(void* a, unsigned long s) {
  int t = rt_tid; if (t < 0) return; long loc = find_loc(a); if (loc < 0) return;
  yield_to_controller(t, S_ATPOINT); rt_stat_steps++;
  push_ev(t, loc, K_RANGE_R * 10 + 9, (long)s);
}
void __tsan_write_range(void* a, unsigned long s) {
  int t = rt_tid; if (t < 0) return; long loc = find_loc(a); if (loc < 0) return;
  yield_to_controller(t, S_ATPOINT); rt_stat_steps++;
  push_ev(t, loc, K_RANGE_W * 10 + 9, (long)s);
}

static inline long sx(uint64_t v, int bits) {
  if (bits == 32) return rt_canon((uint64_t)(int64_t)(int32_t)v);
  if (bits == 16) return (long)(int16_t)v;
  if (bits == 8) return (long)(int8_t)v;
  return rt_canon(v);
}
/* returns loc or -1; on a registered location waits for the baton */
static inline long apoint(const volatile void* a) {
  int t = rt_tid;
  if (t < 0) return -1;
  long loc = find_loc(a);
  if (loc < 0) return -1;
  yield_to_controller(t, S_ATPOINT);
  rt_stat_steps++;
  return loc;
}
#define AT(T, n) \
  T __tsan_atomic##n##_load(const volatile T* a, int mo) { \
    long loc = apoint(a); T v; uint64_t fw; \
    if (tso_on && loc >= 0 && sb_lookup(rt_tid, a, n, &fw)) v = (T)fw; \
    else { if (tso_on && loc >= 0 && sb_overlaps(rt_tid, a, n / 8)) sb_drain(rt_tid); v = __atomic_load_n(a, __ATOMIC_SEQ_CST); } \
    if (loc >= 0) push_ev(rt_tid, loc, K_ALOAD * 10 + mo, sx(v, n)); return v; } \
  void __tsan_atomic##n##_store(volatile T* a, T v, int mo) { \
    long loc = apoint(a); \
    if (tso_on && loc >= 0 && mo != 5) { sb_put(rt_tid, a, n, (uint64_t)v, loc, mo); return; } \
    if (tso_on) sb_drain(rt_tid); \
    __atomic_store_n(a, v, __ATOMIC_SEQ_CST); \
    if (loc >= 0) push_ev(rt_tid, loc, K_ASTORE * 10 + mo, sx(v, n)); } \
  T __tsan_atomic##n##_exchange(volatile T* a, T v, int mo) { \
    long loc = apoint(a); if (tso_on) sb_drain(rt_tid); T o = __atomic_exchange_n(a, v, __ATOMIC_SEQ_CST); \
    if (loc >= 0) push_ev(rt_tid, loc, K_XCHG * 10 + mo, sx(o, n)); return o; } \
  T __tsan_atomic##n##_fetch_add(volatile T* a, T v, int mo) { \
    long loc = apoint(a); if (tso_on) sb_drain(rt_tid); T o = __atomic_fetch_add(a, v, __ATOMIC_SEQ_CST); \
    if (loc >= 0) push_ev(rt_tid, loc, K_FADD * 10 + mo, sx(o, n)); return o; } \
  T __tsan_atomic##n##_fetch_sub(volatile T* a, T v, int mo) { \
    long loc = apoint(a); if (tso_on) sb_drain(rt_tid); T o = __atomic_fetch_sub(a, v, __ATOMIC_SEQ_CST); \
    if (loc >= 0) push_ev(rt_tid, loc, K_FSUB * 10 + mo, sx(o, n)); return o; } \
  T __tsan_atomic##n##_fetch_and(volatile T* a, T v, int mo) { \
    long loc = apoint(a); if (tso_on) sb_drain(rt_tid); T o = __atomic_fetch_and(a, v, __ATOMIC_SEQ_CST); \
    if (loc >= 0) push_ev(rt_tid, loc, 15 * 10 + mo, sx(o, n)); return o; } \
  T __tsan_atomic##n##_fetch_or(volatile T* a, T v, int mo) { \
    long loc = apoint(a); if (tso_on) sb_drain(rt_tid); T o = __atomic_fetch_or(a, v, __ATOMIC_SEQ_CST); \
    if (loc >= 0) push_ev(rt_tid, loc, 16 * 10 + mo, sx(o, n)); return o; } \
  T __tsan_atomic##n##_fetch_xor(volatile T* a, T v, int mo) { \
    long loc = apoint(a); if (tso_on) sb_drain(rt_tid); T o = __atomic_fetch_xor(a, v, __ATOMIC_SEQ_CST); \
    if (loc >= 0) push_ev(rt_tid, loc, 17 * 10 + mo, sx(o, n)); return o; } \
  T __tsan_atomic##n##_fetch_nand(volatile T* a, T v, int mo) { \
    long loc = apoint(a); if (tso_on) sb_drain(rt_tid); T o = __atomic_fetch_nand(a, v, __ATOMIC_SEQ_CST); \
    if (loc >= 0) push_ev(rt_tid, loc, 18 * 10 + mo, sx(o, n)); return o; } \
  int __tsan_atomic##n##_compare_exchange_strong(volatile T* a, T* c, T v, int mo, int f) { \
    (void)f; long loc = apoint(a); if (tso_on) sb_drain(rt_tid); \
    int ok = __atomic_compare_exchange_n(a, c, v, 0, __ATOMIC_SEQ_CST, __ATOMIC_SEQ_CST); \
    if (loc >= 0) { if (!ok) rt_stat_cas_fail++; \
      push_ev(rt_tid, loc, (ok ? K_CAS_OK : K_CAS_FAIL) * 10 + mo, ok ? sx(v, n) : sx(*c, n)); } \
    return ok; } \
  int __tsan_atomic##n##_compare_exchange_weak(volatile T* a, T* c, T v, int mo, int f) { \
    return __tsan_atomic##n##_compare_exchange_strong(a, c, v, mo, f); } \
  T __tsan_atomic##n##_compare_exchange_val(volatile T* a, T c, T v, int mo, int f) { \
    __tsan_atomic##n##_compare_exchange_strong(a, &c, v, mo, f); return c; }
AT(a8, 8) AT(a16, 16) AT(a32, 32) AT(a64, 64)

void __tsan_atomic_thread_fence(int mo) { if (tso_on && mo == 5) sb_drain(rt_tid); __atomic_thread_fence(__ATOMIC_SEQ_CST); }
void __tsan_atomic_signal_fence(int mo) { (void)mo; }
void* __tsan_create_fiber(unsigned f) { (void)f; return (void*)1; }
void __tsan_destroy_fiber(void* f) { (void)f; }
void __tsan_switch_to_fiber(void* f, unsigned fl) { (void)f; (void)fl; }
void* __tsan_get_current_fiber(void) { return (void*)1; }

/* ---------- guarded hooks in /repo (include/machine_specific.h) ---------- */
static __thread long dcas_loc = -1;
void verif_dcas_before(volatile void* location) { dcas_loc = apoint(location); if (tso_on) sb_drain(rt_tid); }
void verif_dcas_after(volatile void* location, int result) {
  if (dcas_loc < 0 || rt_tid < 0) return;
  volatile a64* p = (volatile a64*)location;
  if (!result) rt_stat_cas_fail++;
  long k = (result ? K_DCAS_OK : K_DCAS_FAIL) * 10 + 5;
  push_ev(rt_tid, dcas_loc, k, rt_canon(p[0]));
  push_ev(rt_tid, dcas_loc + 1, k, rt_canon(p[1]));
  dcas_loc = -1;
}

/* protocol-event hooks (src/fiber_manager.c, fiber.c, fiber_scheduler_wsd.c):
 * default = ignored; the T2 adapter (rt/t2.c) overrides them */
__attribute__((weak)) void verif_event(int kind, const volatile void* a, const volatile void* b) {
  (void)kind; (void)a; (void)b;
}
__attribute__((weak)) int verif_quarantine(void* block) { (void)block; return 0; }
__attribute__((weak)) void verif_relax(void) {}
/* store_load_barrier() of include/machine_specific.h is inline assembly (lock addq): in the x86-TSO search mode it
 * drains the calling thread's store buffer; otherwise nothing (no event, no scheduling point) */
void verif_fence(void) { if (tso_on && rt_tid >= 0) { flush_pending(rt_tid); sb_drain(rt_tid); } }
