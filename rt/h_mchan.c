/* Lock-step harness for include/fiber_multi_channel.h (mutex-protected bounded
 * channel with many senders and receivers) on the T1 machine (C11).
 * Header-only code: compiled into this file; the channel mutex is the real
 * src/fiber_mutex.c.
 * Locations (coq/MChan.v): object 0 = channel->lock (300 counter, 301/302
 * waiter list head/tail; stub node 1, fiber t's node 2+t; node n: data 98+2n,
 * next 99+2n); 515 = high; 519 = low; 503 = channel->send_waiters; 523 =
 * channel->recv_waiters; 501+4i = buffer[i]; 502+4t = fiber t's scratch (link
 * of a waiter list); 200+t = fiber t's state.  params: dmax, power_of_2_size.
 * The list heads are the pointer-sized fields between power_of_2_mod and
 * buffer; they are registered by position (first 503, second 523) so that this
 * harness also builds against the original one-list header (one head, 503):
 * the stored F-C11 witnesses then fail here instead of breaking the build.
 * Ops: (1, v) send message v (v > 0)   ret = 0
 *      (2,_) receive                    ret = message */
#include "harness.h"
#include "t1.h"
#include "fiber_multi_channel.h"

static fiber_multi_channel_t* ch;
static hcase_t* cur;
#define NN 64
static mpsc_fifo_node_t nodes[NN];

static void prog(int t) {
  for (int k = 0; k < cur->nops[t]; k++) {
    long opc = cur->ops[t][k][0], a = cur->ops[t][k][1];
    long r = 0;
    if (opc == 1) fiber_multi_channel_send(ch, (void*)(uintptr_t)a);
    else r = (long)(uintptr_t)fiber_multi_channel_receive(ch);
    rt_event(k + 1, K_RET, r);
  }
}

static void h_run_case(hcase_t* c) {
  cur = c;
  int dmax = (int)c->params[0];
  int p2 = (int)c->params[1];
  int n = c->nthreads;
  if (p2 < 1 || p2 > 5) { printf("-1\n"); return; }
  memset(nodes, 0, sizeof nodes);
  t1_setup(n);
  ch = fiber_multi_channel_create(p2);
  /* the mutex's list stub comes from our array so that it has a name */
  free(ch->lock.waiters.head);
  ch->lock.waiters.head = &nodes[0]; ch->lock.waiters.tail = &nodes[0];
  for (int t = 0; t < n; t++) {
    fiber_t* f = t1_fiber_of(t);
    free(f->mpsc_fifo_node);
    f->mpsc_fifo_node = &nodes[1 + t];
    rt_reg((void*)&f->state, 4, 200 + t, 4);
    rt_reg((void*)&f->scratch, 8, 502 + 4 * t, 8);
    rt_name(f, sizeof *f, 1000 + t, sizeof *f);
  }
  rt_reg((void*)&ch->lock.counter, sizeof ch->lock.counter, 300, sizeof ch->lock.counter);
  rt_reg((void*)&ch->lock.waiters.head, 8, 301, 8);
  rt_reg((void*)&ch->lock.waiters.tail, 8, 302, 8);
  rt_reg((void*)&ch->high, 8, 515, 8);
  rt_reg((void*)&ch->low, 8, 519, 8);
  {
    char* first = (char*)&ch->power_of_2_mod + sizeof ch->power_of_2_mod;
    int nheads = (int)(((char*)ch->buffer - first) / (long)sizeof(void*));
    for (int j = 0; j < nheads && j < 2; j++) rt_reg(first + 8 * j, 8, 503 + 20 * j, 8);
  }
  rt_reg(ch->buffer, sizeof(void*) << p2, 501, 2);
  rt_reg(nodes, sizeof nodes, 100, 8);
  rt_reg_rest(ch, sizeof *ch + (sizeof(void*) << p2), 14900);   /* search mode only: fields the model does not know */
  rt_name(nodes, sizeof nodes, 1, sizeof nodes[0]);
  t1_run(n, prog, c->sched, c->nsched, dmax);
  rt_print_trace();
}
int main(void) { return h_main(); }
