/* Initial-state contract harness (sequential, NOT instrumented, no rt.c).
 *
 * For every primitive: obtain DIRTY memory (every byte 0x5a), call the REAL
 * init/create function of /repo, check the documented initial state field by
 * field (every field an operation reads before writing it), then run one or
 * two non-blocking operations and check their results; destroy.
 *
 * Build (tools/vf/core.py:init_contract): this file + the /repo sources that
 * have a .c file, all compiled with -Dmalloc=h_init_malloc
 * -Dcalloc=h_init_calloc (no sanitizer, asserts ENABLED, no LIBFIBER_VERIF).
 *   h_init_malloc  returns memory filled with 0x5a   (malloc promises nothing)
 *   h_init_calloc  returns zeroed memory             (calloc's contract)
 * Header-only primitives are compiled inside this translation unit, so the
 * same two macros are (re)defined below before the /repo headers are included.
 *
 * The fiber runtime (fiber_manager.c, fiber.c, context switch) is NOT linked:
 * the few entry points the primitives reference are stubbed at the bottom of
 * the stub section.  A stub that would have to block or switch context reports
 * `<name> FAIL would block in <function>`.
 *
 * Output: one line per primitive, `<name> ok` or `<name> FAIL <what>`; every
 * primitive runs in a forked child so a crash/assert/hang in one becomes
 * `<name> FAIL crashed (signal N)`.  Exit status is always 0.
 * Usage: h_init [name ...]   (no names = all)
 */
#undef malloc
#undef calloc
#include <signal.h>
#include <stdarg.h>
#include <stdint.h>
#include <stdio.h>
#include <stdlib.h>
#include <malloc.h>
#include <string.h>
#include <sys/types.h>
#include <sys/wait.h>
#include <unistd.h>

void* h_init_malloc(size_t n);
void* h_init_calloc(size_t a, size_t b);
#define malloc h_init_malloc
#define calloc h_init_calloc

#include "fiber_manager.h"
#include "fiber_barrier.h"
#include "fiber_cond.h"
#include "fiber_rwlock.h"
#include "fiber_semaphore.h"
#include "fiber_signal.h"
#include "fiber_channel.h"
#undef _FIBER_CHANNEL_H_ /* fiber_multi_channel.h reuses fiber_channel.h's include guard */
#include "fiber_multi_channel.h"
#include "dist_fifo.h"
#include "lockfree_ring_buffer.h"
#include "mpmc_lifo.h"
#include "mpmc_stack.h"
#include "mpsc_relaxed_fifo.h"
#include "work_queue.h"

#define DIRTY 0x5a

/* ------------------------------------------------------------------ */
/* result collection                                                    */
/* ------------------------------------------------------------------ */
static const char* cur_name = "?";
static char fail_msg[900];
static int nfail;

static void failf(const char* fmt, ...) {
  va_list ap;
  size_t used = strlen(fail_msg);
  nfail++;
  if (used > sizeof fail_msg - 40) return;
  if (used) { strcat(fail_msg, "; "); used += 2; }
  va_start(ap, fmt);
  vsnprintf(fail_msg + used, sizeof fail_msg - used, fmt, ap);
  va_end(ap);
}

static int out_fd = 1;
static void emit_and_exit(void) {
  char line[1100];
  int n;
  if (nfail) n = snprintf(line, sizeof line, "%s FAIL %s\n", cur_name, fail_msg);
  else n = snprintf(line, sizeof line, "%s ok\n", cur_name);
  if (write(out_fd, line, (size_t)n) < 0) _exit(3);
  _exit(0);
}

/* CHECK: record and go on.  REQUIRE: record and stop this primitive's test
 * (used when going on would only dereference garbage). */
#define CHECK(c, ...) do { if (!(c)) failf(__VA_ARGS__); } while (0)
#define REQUIRE(c, ...) do { if (!(c)) { failf(__VA_ARGS__); return; } } while (0)
#define LL(x) ((long long)(x))
#define P(x) ((void*)(x))

static int is_dirty(const volatile void* p) { return (uintptr_t)p == (uintptr_t)0x5a5a5a5a5a5a5a5aULL; }

/* n bytes, 64-byte aligned, every byte 0x5a */
static void* dirty(size_t n) {
  void* p = NULL;
  if (posix_memalign(&p, 64, (n + 63) & ~(size_t)63)) abort();
  memset(p, DIRTY, (n + 63) & ~(size_t)63);
  return p;
}

/* ------------------------------------------------------------------ */
/* stubs for the runtime layer                                          */
/* ------------------------------------------------------------------ */
static fiber_manager_t the_manager;
static fiber_t the_fiber;
static mpsc_fifo_node_t the_fiber_node;
static _Atomic(hazard_pointer_thread_record_t*) stub_hazard_head;
static int wake_calls;       /* calls of a wake function with count > 0 */
static long long wake_total; /* sum of those counts */
static int yields;

static void stub_reset(void) {
  memset(&the_manager, 0, sizeof the_manager);
  memset(&the_fiber, 0, sizeof the_fiber);
  the_fiber.state = FIBER_STATE_RUNNING;
  the_fiber.mpsc_fifo_node = &the_fiber_node;
  the_manager.current_fiber = &the_fiber;
  wake_calls = 0; wake_total = 0; yields = 0;
}

/* a blocking call that is EXPECTED to block (wide-state checks): the wait stub jumps back instead of failing */
#include <setjmp.h>
static jmp_buf block_jmp;
static int expect_block;
#define BLOCKS(call) (expect_block = 1, setjmp(block_jmp) ? (expect_block = 0, 1) : ((void)(call), expect_block = 0, 0))
static void would_block(const char* fn) {
  if (expect_block) longjmp(block_jmp, 1);
  failf("would block in %s", fn);
  emit_and_exit();
}

fiber_manager_t* fiber_manager_get() { return &the_manager; }
int fiber_yield() { yields++; return 1; }
void fiber_manager_yield(fiber_manager_t* m) { (void)m; would_block("fiber_manager_yield (context switch)"); }
void fiber_manager_wait_in_mpsc_queue(fiber_manager_t* m, mpsc_fifo_t* f) {
  (void)m; (void)f; would_block("fiber_manager_wait_in_mpsc_queue");
}
void fiber_manager_wait_in_mpsc_queue_and_unlock(fiber_manager_t* m, mpsc_fifo_t* f, fiber_mutex_t* mu) {
  (void)m; (void)f; (void)mu; would_block("fiber_manager_wait_in_mpsc_queue_and_unlock");
}
void fiber_manager_wait_in_mpmc_queue(fiber_manager_t* m, mpmc_fifo_t* f) {
  (void)m; (void)f; would_block("fiber_manager_wait_in_mpmc_queue");
}
int fiber_manager_wake_from_mpsc_queue(fiber_manager_t* m, mpsc_fifo_t* f, int count) {
  (void)m; (void)f;
  if (count > 0) { wake_calls++; wake_total += count; }
  return 0;
}
/* patience checks: the queue looks empty for the first mpmc_empty_budget single-attempt calls (count 0), then yields one
 * waiter - the announced waiter that was slow to enqueue */
static long mpmc_empty_budget = -1, mpmc_calls;
int fiber_manager_wake_from_mpmc_queue(fiber_manager_t* m, mpmc_fifo_t* f, int count) {
  (void)m; (void)f;
  if (count > 0) { wake_calls++; wake_total += count; }
  if (count == 0 && mpmc_empty_budget >= 0) {
    mpmc_calls++;
    if (mpmc_empty_budget == 0) return 1;
    mpmc_empty_budget--;
  }
  return 0;
}
hazard_pointer_thread_record_t* fiber_manager_get_hazard_record(fiber_manager_t* m) {
  if (!m->mpmc_hptr) m->mpmc_hptr = hazard_pointer_thread_record_create_and_push(&stub_hazard_head, 4);
  return m->mpmc_hptr;
}
static int gc_calls;
static void stub_gc(void* d, hazard_node_t* n) { (void)d; gc_calls++; free(n); }
mpmc_fifo_node_t* fiber_manager_get_mpmc_node() { /* as fiber_manager.c: malloc + gc fields only */
  mpmc_fifo_node_t* n = (mpmc_fifo_node_t*)malloc(sizeof *n);
  n->hazard.gc_data = NULL;
  n->hazard.gc_function = &stub_gc;
  return n;
}
void fiber_manager_return_mpmc_node(mpmc_fifo_node_t* n) { free(n); }

/* an mpsc_fifo as its init must leave it: head == tail == a stub whose next is NULL */
static void check_mpsc(const char* what, mpsc_fifo_t* f) {
  mpsc_fifo_node_t* h = f->head;
  mpsc_fifo_node_t* t = f->tail;
  if (!h || h != t || is_dirty(h)) { failf("%s: head %p tail %p (want head == tail == stub node)", what, P(h), P(t)); return; }
  if (h->next) failf("%s: stub->next %p (want NULL)", what, P(h->next));
  if (mpsc_fifo_peek(f, NULL)) failf("%s: peek reports an item on a fresh list", what);
}

/* ------------------------------------------------------------------ */
/* C03 fiber_mutex                                                      */
/* ------------------------------------------------------------------ */
static void t_fiber_mutex(void) {
  fiber_mutex_t* m = dirty(sizeof *m);
  REQUIRE(fiber_mutex_init(m) == FIBER_SUCCESS, "init did not return FIBER_SUCCESS");
  CHECK(m->counter == 1, "counter %d (want 1 = free)", (int)m->counter);
  check_mpsc("waiters", &m->waiters);
  if (nfail) return;
  CHECK(fiber_mutex_trylock(m) == FIBER_SUCCESS, "trylock on a fresh mutex failed");
  CHECK(m->counter == 0, "counter %d after trylock (want 0)", (int)m->counter);
  CHECK(fiber_mutex_trylock(m) == FIBER_ERROR, "second trylock succeeded");
  CHECK(fiber_mutex_unlock(m) == FIBER_SUCCESS, "unlock failed");
  CHECK(m->counter == 1 && !wake_calls && !yields, "uncontended unlock: counter %d, wake calls %d, yields %d",
        (int)m->counter, wake_calls, yields);
  CHECK(fiber_mutex_lock(m) == FIBER_SUCCESS && m->counter == 0, "uncontended lock: counter %d", (int)m->counter);
  fiber_mutex_unlock(m);
  CHECK(m->counter == 1 && !wake_calls, "after lock/unlock: counter %d wake calls %d", (int)m->counter, wake_calls);
  /* wide states: counter = -n is the reachable state "held, n fibers announced" (coq: mutex_counter_inv) for every
   * n >= 0; n is chosen around the powers of two at which a narrower counter type would wrap.  Only the
   * non-blocking operations are exercised: trylock must fail, unlock must wake exactly one waiter. */
  {
    static const long NS[] = {1, 2, 127, 128, 255, 256, 32767, 32768, 65534, 65535, 65536, 65537, 2147483646L};
    for (unsigned k = 0; k < sizeof NS / sizeof NS[0] && !nfail; k++) {
      long n = NS[k];
      m->counter = -n;
      CHECK(fiber_mutex_trylock(m) == FIBER_ERROR, "trylock succeeded on a mutex held with %ld announced waiters", n);
      m->counter = -n;
      wake_calls = 0; wake_total = 0; yields = 0;
      fiber_mutex_unlock(m);
      CHECK(wake_calls == 1 && wake_total == 1, "unlock of a mutex with %ld announced waiters woke %lld fiber(s) in %d call(s)",
            n, wake_total, wake_calls);
      m->counter = -n;
      CHECK(BLOCKS(fiber_mutex_lock(m)), "lock returned without waiting on a mutex held with %ld announced waiters", n);
      CHECK(m->counter == -n - 1, "lock waiting behind %ld announced waiters left the counter at %d", n, (int)m->counter);
    }
    m->counter = 1; wake_calls = 0; wake_total = 0; yields = 0;
  }
  fiber_mutex_destroy(m);
  free(m);
}

/* ------------------------------------------------------------------ */
/* C05 fiber_cond                                                       */
/* ------------------------------------------------------------------ */
static void t_fiber_cond(void) {
  fiber_cond_t* c = dirty(sizeof *c);
  REQUIRE(fiber_cond_init(c) == FIBER_SUCCESS, "init did not return FIBER_SUCCESS");
  CHECK(c->caller_mutex == NULL, "caller_mutex %p (want NULL)", P(c->caller_mutex));
  CHECK(c->waiter_count == 0, "waiter_count %lld (want 0)", LL(c->waiter_count));
  check_mpsc("waiters", &c->waiters);
  CHECK(c->internal_mutex.counter == 1, "internal_mutex.counter %d (want 1)", (int)c->internal_mutex.counter);
  check_mpsc("internal_mutex.waiters", &c->internal_mutex.waiters);
  if (nfail) return;
  CHECK(fiber_cond_signal(c) == FIBER_SUCCESS, "signal failed");
  CHECK(!wake_calls, "signal on a fresh cond tried to wake %lld waiter(s)", wake_total);
  CHECK(c->waiter_count == 0 && c->internal_mutex.counter == 1, "after signal: waiter_count %lld internal counter %d",
        LL(c->waiter_count), (int)c->internal_mutex.counter);
  CHECK(fiber_cond_broadcast(c) == FIBER_SUCCESS, "broadcast failed");
  CHECK(!wake_calls, "broadcast on a fresh cond tried to wake %lld waiter(s)", wake_total);
  CHECK(c->waiter_count == 0 && c->internal_mutex.counter == 1, "after broadcast: waiter_count %lld internal counter %d",
        LL(c->waiter_count), (int)c->internal_mutex.counter);
  fiber_cond_destroy(c);
  free(c);
}

/* ------------------------------------------------------------------ */
/* C06 fiber_semaphore                                                  */
/* ------------------------------------------------------------------ */
static void sem_fields(fiber_semaphore_t* s, int value) {
  mpmc_fifo_node_t* h = s->waiters.head;
  mpmc_fifo_node_t* t = s->waiters.tail;
  CHECK(s->counter == value, "counter %d (want %d)", (int)s->counter, value);
  CHECK(fiber_semaphore_getvalue(s) == value, "getvalue %d (want %d)", fiber_semaphore_getvalue(s), value);
  if (!h || h != t || is_dirty(h)) { failf("waiters: head %p tail %p (want head == tail == dummy node)", P(h), P(t)); return; }
  CHECK(h->prev == NULL && h->next == NULL && h->value == NULL, "waiters dummy: prev %p next %p value %p (want NULL)",
        P(h->prev), P(h->next), h->value);
  CHECK(h->hazard.gc_function != NULL, "waiters dummy has no gc_function");
}

static void t_fiber_semaphore(void) {
  int i, got = 0;
  fiber_semaphore_t* s = dirty(sizeof *s);
  REQUIRE(fiber_semaphore_init(s, 3) == FIBER_SUCCESS, "init did not return FIBER_SUCCESS");
  sem_fields(s, 3);
  if (nfail) return;
  for (i = 0; i < 5; ++i) got += fiber_semaphore_trywait(s) == FIBER_SUCCESS;
  CHECK(got == 3, "trywait succeeded %d times on a semaphore of value 3", got);
  CHECK(fiber_semaphore_getvalue(s) == 0, "value %d after 3 trywaits", fiber_semaphore_getvalue(s));
  CHECK(fiber_semaphore_post(s) == FIBER_SUCCESS && fiber_semaphore_getvalue(s) == 1 && !wake_calls && !yields,
        "post without waiters: value %d wake calls %d yields %d", fiber_semaphore_getvalue(s), wake_calls, yields);
  CHECK(fiber_semaphore_wait(s) == FIBER_SUCCESS && fiber_semaphore_getvalue(s) == 0, "wait with one unit: value %d",
        fiber_semaphore_getvalue(s));
  fiber_semaphore_destroy(s);
  memset(s, DIRTY, sizeof *s);
  REQUIRE(fiber_semaphore_init(s, 0) == FIBER_SUCCESS, "init(0) did not return FIBER_SUCCESS");
  sem_fields(s, 0);
  CHECK(fiber_semaphore_trywait(s) == FIBER_ERROR, "trywait succeeded on a semaphore of value 0");
  fiber_semaphore_destroy(s);
  /* patience: counter = -1 with an empty queue is the reachable state "one waiter has announced itself and is not yet
   * enqueued" (coq: sem_counter_inv, sem_no_lost_post).  The post must keep looking until that waiter appears, however
   * long it takes (here: up to 2^22 empty looks); a post that gives up and returns would leave the waiter asleep with
   * the unit gone. */
  {
    static const long KS[] = {0, 1, 1000, 70000, (1L << 20) + 5, (1L << 22) + 5};
    for (unsigned k = 0; k < sizeof KS / sizeof KS[0] && !nfail; k++) {
      memset(s, DIRTY, sizeof *s);
      REQUIRE(fiber_semaphore_init(s, 0) == FIBER_SUCCESS, "init(0) did not return FIBER_SUCCESS");
      s->counter = -1;
      mpmc_empty_budget = KS[k]; mpmc_calls = 0; yields = 0;
      fiber_semaphore_post(s);
      CHECK(mpmc_calls == KS[k] + 1, "post with one announced, not yet enqueued waiter returned after %ld looks at the waiter "
            "queue; the waiter appears at look %ld (it would enqueue and sleep forever, the unit is gone)", mpmc_calls, KS[k] + 1);
      CHECK(fiber_semaphore_getvalue(s) == 0 && s->counter == 0, "after handing the unit to the late waiter the counter is %d",
            (int)s->counter);
      mpmc_empty_budget = -1;
      fiber_semaphore_destroy(s);
    }
  }
  /* wide states: "for all initial values >= 0"; values around the powers of two at which a narrower counter wraps */
  {
    static const int VS[] = {127, 128, 255, 256, 32767, 32768, 65535, 65536, 2147483646};
    for (unsigned k = 0; k < sizeof VS / sizeof VS[0] && !nfail; k++) {
      int v = VS[k];
      memset(s, DIRTY, sizeof *s);
      REQUIRE(fiber_semaphore_init(s, v) == FIBER_SUCCESS, "init(%d) did not return FIBER_SUCCESS", v);
      CHECK(fiber_semaphore_getvalue(s) == v, "value %d after init(%d)", fiber_semaphore_getvalue(s), v);
      CHECK(fiber_semaphore_trywait(s) == FIBER_SUCCESS && fiber_semaphore_getvalue(s) == v - 1,
            "trywait on value %d: value now %d", v, fiber_semaphore_getvalue(s));
      CHECK(fiber_semaphore_post(s) == FIBER_SUCCESS && fiber_semaphore_getvalue(s) == v && !wake_calls,
            "post on value %d: value now %d, wake calls %d", v - 1, fiber_semaphore_getvalue(s), wake_calls);
      fiber_semaphore_destroy(s);
    }
  }
  free(s);
}

/* ------------------------------------------------------------------ */
/* C07 fiber_rwlock                                                     */
/* ------------------------------------------------------------------ */
static void t_fiber_rwlock(void) {
  fiber_rwlock_t* l = dirty(sizeof *l);
  REQUIRE(fiber_rwlock_init(l) == FIBER_SUCCESS, "init did not return FIBER_SUCCESS");
  CHECK(l->state.blob == 0, "state word %#llx (want 0: unlocked, no readers, no waiters)", (unsigned long long)l->state.blob);
  check_mpsc("write_waiters", &l->write_waiters);
  check_mpsc("read_waiters", &l->read_waiters);
  CHECK(l->write_waiters.head != l->read_waiters.head, "read and write waiter lists share a stub");
  if (nfail) return;
  CHECK(fiber_rwlock_tryrdlock(l) == FIBER_SUCCESS, "tryrdlock on a fresh lock failed");
  CHECK(fiber_rwlock_tryrdlock(l) == FIBER_SUCCESS, "second tryrdlock failed");
  CHECK(l->state.state.reader_count == 2 && !l->state.state.write_locked, "two readers: reader_count %u write_locked %u",
        (unsigned)l->state.state.reader_count, (unsigned)l->state.state.write_locked);
  CHECK(fiber_rwlock_trywrlock(l) == FIBER_ERROR, "trywrlock succeeded while read-locked");
  fiber_rwlock_rdunlock(l);
  fiber_rwlock_rdunlock(l);
  CHECK(l->state.blob == 0 && !wake_calls, "after both rdunlocks: state %#llx wake calls %d",
        (unsigned long long)l->state.blob, wake_calls);
  CHECK(fiber_rwlock_trywrlock(l) == FIBER_SUCCESS, "trywrlock on an unlocked lock failed");
  CHECK(fiber_rwlock_tryrdlock(l) == FIBER_ERROR, "tryrdlock succeeded while write-locked");
  CHECK(fiber_rwlock_trywrlock(l) == FIBER_ERROR, "second trywrlock succeeded");
  fiber_rwlock_wrunlock(l);
  CHECK(l->state.blob == 0 && !wake_calls, "after wrunlock: state %#llx wake calls %d",
        (unsigned long long)l->state.blob, wake_calls);
  CHECK(fiber_rwlock_wrlock(l) == FIBER_SUCCESS && l->state.state.write_locked, "uncontended wrlock");
  fiber_rwlock_wrunlock(l);
  CHECK(fiber_rwlock_rdlock(l) == FIBER_SUCCESS && l->state.state.reader_count == 1, "uncontended rdlock");
  fiber_rwlock_rdunlock(l);
  /* wide states: (no writer, n readers, nobody waiting) and (writer, no readers, n waiting readers / writers) are
   * reachable for every n below the documented 2^21 participants (coq: rw_word_inv); n is chosen around the powers of
   * two inside the 21-bit fields.  Only the non-blocking operations are exercised. */
  {
    static const unsigned NS[] = {1, 2, 3, 127, 128, 255, 256, 65535, 65536, (1u << 19), (1u << 20) - 1, (1u << 20),
                                  (1u << 20) + 1, (1u << 21) - 3, (1u << 21) - 2};
    for (unsigned k = 0; k < sizeof NS / sizeof NS[0] && !nfail; k++) {
      unsigned n = NS[k];
      l->state.blob = 0; l->state.state.reader_count = n;
      CHECK(fiber_rwlock_trywrlock(l) == FIBER_ERROR, "trywrlock succeeded while %u readers hold the lock", n);
      CHECK(!l->state.state.write_locked && l->state.state.reader_count == n && !l->state.state.waiting_readers &&
            !l->state.state.waiting_writers, "failed trywrlock with %u readers changed the word to %llx", n,
            (unsigned long long)l->state.blob);
      l->state.blob = 0; l->state.state.reader_count = n;
      CHECK(fiber_rwlock_tryrdlock(l) == FIBER_SUCCESS && l->state.state.reader_count == n + 1 && !l->state.state.write_locked,
            "tryrdlock with %u readers: word now %llx", n, (unsigned long long)l->state.blob);
      wake_calls = 0;
      fiber_rwlock_rdunlock(l);
      CHECK(l->state.state.reader_count == n && !l->state.state.write_locked && !wake_calls,
            "rdunlock from %u readers: word now %llx, wake calls %d", n + 1, (unsigned long long)l->state.blob, wake_calls);
      for (int which = 0; which < 2; which++) {
        l->state.blob = 0; l->state.state.write_locked = 1;
        if (which) l->state.state.waiting_writers = n; else l->state.state.waiting_readers = n;
        const uint64_t before = l->state.blob;
        CHECK(fiber_rwlock_tryrdlock(l) == FIBER_ERROR && l->state.blob == before,
              "tryrdlock on a write-locked lock with %u waiting %s: word %llx -> %llx", n, which ? "writers" : "readers",
              (unsigned long long)before, (unsigned long long)l->state.blob);
        CHECK(fiber_rwlock_trywrlock(l) == FIBER_ERROR && l->state.blob == before,
              "trywrlock on a write-locked lock with %u waiting %s: word %llx -> %llx", n, which ? "writers" : "readers",
              (unsigned long long)before, (unsigned long long)l->state.blob);
      }
      /* the blocking calls must decide to wait (and announce themselves) in these states */
      l->state.blob = 0; l->state.state.reader_count = n;
      CHECK(BLOCKS(fiber_rwlock_wrlock(l)), "wrlock returned without waiting while %u readers hold the lock", n);
      CHECK(!l->state.state.write_locked && l->state.state.reader_count == n && l->state.state.waiting_writers == 1,
            "wrlock waiting behind %u readers left the word %llx", n, (unsigned long long)l->state.blob);
      if (n < (1u << 21) - 2) {
        l->state.blob = 0; l->state.state.write_locked = 1; l->state.state.waiting_readers = n;
        CHECK(BLOCKS(fiber_rwlock_rdlock(l)), "rdlock returned without waiting on a write-locked lock (%u waiting readers)", n);
        CHECK(l->state.state.write_locked && !l->state.state.reader_count && l->state.state.waiting_readers == n + 1,
              "rdlock waiting behind a writer and %u readers left the word %llx", n, (unsigned long long)l->state.blob);
      }
    }
    l->state.blob = 0; wake_calls = 0;
  }
  fiber_rwlock_destroy(l);
  free(l);
}

/* ------------------------------------------------------------------ */
/* C12 fiber_barrier                                                    */
/* ------------------------------------------------------------------ */
static void t_fiber_barrier(void) {
  fiber_barrier_t* b = dirty(sizeof *b);
  REQUIRE(fiber_barrier_init(b, 3) == FIBER_SUCCESS, "init did not return FIBER_SUCCESS");
  CHECK(b->count == 3, "count %u (want 3, as passed)", (unsigned)b->count);
  CHECK(b->counter == 0, "counter %llu (want 0 arrivals)", (unsigned long long)b->counter);
  check_mpsc("waiters[0]", &b->waiters[0]);
  check_mpsc("waiters[1]", &b->waiters[1]);
  CHECK(b->waiters[0].head != b->waiters[1].head, "the two waiter lists share a stub");
  if (nfail) return;
  fiber_barrier_destroy(b);
  memset(b, DIRTY, sizeof *b);
  REQUIRE(fiber_barrier_init(b, 1) == FIBER_SUCCESS, "init(1) did not return FIBER_SUCCESS");
  CHECK(b->count == 1 && b->counter == 0, "count %u counter %llu (want 1, 0)", (unsigned)b->count, (unsigned long long)b->counter);
  if (nfail) return;
  CHECK(fiber_barrier_wait(b) == FIBER_BARRIER_SERIAL_FIBER, "the only fiber of a count-1 barrier is not the serial fiber");
  CHECK(b->counter == 1 && !wake_calls, "after one wait: counter %llu wake calls %d", (unsigned long long)b->counter, wake_calls);
  fiber_barrier_destroy(b);
  free(b);
}

/* ------------------------------------------------------------------ */
/* C18 fiber_spinlock                                                   */
/* ------------------------------------------------------------------ */
static void t_fiber_spinlock(void) {
  fiber_spinlock_t* s = dirty(sizeof *s);
  REQUIRE(fiber_spinlock_init(s) == FIBER_SUCCESS, "init did not return FIBER_SUCCESS");
  CHECK(s->state.counters.ticket == 0 && s->state.counters.users == 0, "ticket %u users %u (want 0, 0)",
        (unsigned)s->state.counters.ticket, (unsigned)s->state.counters.users);
  if (nfail) return;
  CHECK(fiber_spinlock_trylock(s) == FIBER_SUCCESS, "trylock on a fresh spinlock failed");
  CHECK(fiber_spinlock_trylock(s) == FIBER_ERROR, "second trylock succeeded");
  CHECK(fiber_spinlock_unlock(s) == FIBER_SUCCESS, "unlock failed");
  CHECK(s->state.counters.ticket == s->state.counters.users, "after unlock ticket %u != users %u",
        (unsigned)s->state.counters.ticket, (unsigned)s->state.counters.users);
  CHECK(fiber_spinlock_lock(s) == FIBER_SUCCESS, "uncontended lock failed");
  CHECK(fiber_spinlock_trylock(s) == FIBER_ERROR, "trylock succeeded while held");
  fiber_spinlock_unlock(s);
  CHECK(s->state.counters.ticket == 2 && s->state.counters.users == 2, "after two acquisitions ticket %u users %u",
        (unsigned)s->state.counters.ticket, (unsigned)s->state.counters.users);
  fiber_spinlock_destroy(s);
  free(s);
}

/* ------------------------------------------------------------------ */
/* C16 lockfree_ring_buffer                                             */
/* ------------------------------------------------------------------ */
static void t_lockfree_ring_buffer(void) {
  static long tok[6];
  int i;
  lockfree_ring_buffer_t* rb = lockfree_ring_buffer_create(2);
  REQUIRE(rb, "create returned NULL");
  CHECK(rb->high == 0 && rb->low == 0, "high %llu low %llu (want 0, 0)", (unsigned long long)rb->high, (unsigned long long)rb->low);
  CHECK(rb->size == 4 && rb->power_of_2_mod == 3, "size %u mask %u (want 4, 3)", (unsigned)rb->size, (unsigned)rb->power_of_2_mod);
  for (i = 0; i < 4; ++i) CHECK(rb->buffer[i] == NULL, "slot %d holds %p (want NULL = never written)", i, rb->buffer[i]);
  if (nfail) return;
  CHECK(lockfree_ring_buffer_size(rb) == 0, "size() %zu on a fresh ring", lockfree_ring_buffer_size(rb));
  CHECK(lockfree_ring_buffer_trypop(rb) == NULL, "trypop on a fresh ring returned an item");
  for (i = 0; i < 4; ++i) CHECK(lockfree_ring_buffer_trypush(rb, &tok[i]) == 1, "trypush %d failed on a ring of 4", i);
  CHECK(lockfree_ring_buffer_trypush(rb, &tok[4]) == 0, "fifth trypush succeeded on a ring of 4");
  CHECK(lockfree_ring_buffer_size(rb) == 4, "size() %zu after 4 pushes", lockfree_ring_buffer_size(rb));
  for (i = 0; i < 4; ++i) {
    void* p = lockfree_ring_buffer_trypop(rb);
    CHECK(p == &tok[i], "pop %d returned token %ld", i, p ? (long)((long*)p - tok) : -1L);
  }
  CHECK(lockfree_ring_buffer_trypop(rb) == NULL, "trypop on the drained ring returned an item");
  lockfree_ring_buffer_destroy(rb);
}

/* ------------------------------------------------------------------ */
/* C17 work_queue                                                       */
/* ------------------------------------------------------------------ */
static work_queue_item_t* mk_item(void* data) {
  work_queue_item_t* n = (work_queue_item_t*)malloc(sizeof *n);
  n->data = data;
  return n;
}

static void t_work_queue(void) {
  static long tok[3];
  work_queue_item_t* out = NULL;
  work_queue_t* wq = dirty(sizeof *wq);
  REQUIRE(work_queue_init(wq) == 1, "init did not return 1");
  CHECK(wq->in_count == 0 && wq->out_count == 0, "in_count %lld out_count %lld (want 0, 0)", LL(wq->in_count), LL(wq->out_count));
  check_mpsc("fifo", &wq->fifo);
  if (nfail) return;
  CHECK(work_queue_push(wq, mk_item(&tok[0])) == WORK_QUEUE_START_WORKING, "first push did not say START_WORKING");
  CHECK(work_queue_push(wq, mk_item(&tok[1])) == WORK_QUEUE_QUEUED, "second push did not say QUEUED");
  CHECK(work_queue_get_work(wq, &out) == WORK_QUEUE_MORE_WORK && out && out->data == &tok[0], "first get_work: wrong item");
  free(out);
  CHECK(work_queue_get_work(wq, &out) == WORK_QUEUE_MORE_WORK && out && out->data == &tok[1], "second get_work: wrong item");
  free(out);
  CHECK(work_queue_get_work(wq, &out) == WORK_QUEUE_EMPTY, "third get_work did not say EMPTY");
  CHECK(wq->in_count == 0 && wq->out_count == 0, "after drain in_count %lld out_count %lld", LL(wq->in_count), LL(wq->out_count));
  CHECK(work_queue_push(wq, mk_item(&tok[2])) == WORK_QUEUE_START_WORKING, "push after drain did not say START_WORKING");
  work_queue_destroy(wq);
  free(wq);
}

/* ------------------------------------------------------------------ */
/* C15 mpsc_fifo / spsc_fifo / mpsc_relaxed_fifo                        */
/* ------------------------------------------------------------------ */
static void t_mpsc_fifo(void) {
  static long tok[2];
  void* d = NULL;
  mpsc_fifo_node_t* n;
  mpsc_fifo_t* f = dirty(sizeof *f);
  REQUIRE(mpsc_fifo_init(f) == 1, "init did not return 1");
  check_mpsc("fifo", f);
  if (nfail) return;
  CHECK(mpsc_fifo_trypop(f) == NULL, "trypop on a fresh fifo returned a node");
  mpsc_fifo_push(f, mk_item(&tok[0]));
  mpsc_fifo_push(f, mk_item(&tok[1]));
  CHECK(mpsc_fifo_peek(f, &d) == 1 && d == &tok[0], "peek after two pushes: wrong item");
  n = mpsc_fifo_trypop(f); CHECK(n && n->data == &tok[0], "first pop: wrong item"); free(n);
  n = mpsc_fifo_trypop(f); CHECK(n && n->data == &tok[1], "second pop: wrong item"); free(n);
  CHECK(mpsc_fifo_trypop(f) == NULL, "third pop returned a node");
  mpsc_fifo_destroy(f);
  free(f);
}

static void check_spsc(const char* what, spsc_fifo_t* f) {
  spsc_node_t* h = f->head;
  spsc_node_t* t = f->tail;
  if (!h || h != t || is_dirty(h)) { failf("%s: head %p tail %p (want head == tail == stub node)", what, P(h), P(t)); return; }
  if (h->next) failf("%s: stub->next %p (want NULL)", what, P(h->next));
}

static spsc_node_t* mk_snode(void* data) {
  spsc_node_t* n = (spsc_node_t*)malloc(sizeof *n);
  n->data = data;
  return n;
}

static void t_spsc_fifo(void) {
  static long tok[2];
  spsc_node_t* n;
  spsc_fifo_t* f = dirty(sizeof *f);
  REQUIRE(spsc_fifo_init(f) == 1, "init did not return 1");
  check_spsc("fifo", f);
  if (nfail) return;
  CHECK(spsc_fifo_trypop(f) == NULL, "trypop on a fresh fifo returned a node");
  spsc_fifo_push(f, mk_snode(&tok[0]));
  spsc_fifo_push(f, mk_snode(&tok[1]));
  n = spsc_fifo_trypop(f); CHECK(n && n->data == &tok[0], "first pop: wrong item"); free(n);
  n = spsc_fifo_trypop(f); CHECK(n && n->data == &tok[1], "second pop: wrong item"); free(n);
  CHECK(spsc_fifo_trypop(f) == NULL, "third pop returned a node");
  spsc_fifo_destroy(f);
  free(f);
}

static void t_mpsc_relaxed_fifo(void) {
  static long tok[3];
  char what[32];
  size_t i, j;
  spsc_node_t* n;
  mpscr_fifo_t* f = mpscr_fifo_create(3);
  REQUIRE(f, "create returned NULL");
  CHECK(f->counter == 0, "counter %zu (want 0: the first pop looks at producer 0)", f->counter);
  CHECK(f->num_producers == 3, "num_producers %zu (want 3, as passed)", f->num_producers);
  if (nfail) return;
  for (i = 0; i < 3; ++i) {
    snprintf(what, sizeof what, "fifos[%zu]", i);
    check_spsc(what, &f->fifos[i]);
    for (j = 0; j < i; ++j) CHECK(f->fifos[i].head != f->fifos[j].head, "fifos[%zu] and fifos[%zu] share a stub", i, j);
  }
  if (nfail) return;
  CHECK(mpscr_fifo_trypop(f) == NULL, "trypop on a fresh fifo returned a node");
  mpscr_fifo_push(f, 2, mk_snode(&tok[0]));
  mpscr_fifo_push(f, 0, mk_snode(&tok[1]));
  mpscr_fifo_push(f, 2, mk_snode(&tok[2]));
  n = mpscr_fifo_trypop(f); CHECK(n && n->data == &tok[1], "first pop: want producer 0's item"); free(n);
  n = mpscr_fifo_trypop(f); CHECK(n && n->data == &tok[0], "second pop: want producer 2's first item"); free(n);
  n = mpscr_fifo_trypop(f); CHECK(n && n->data == &tok[2], "third pop: want producer 2's second item"); free(n);
  CHECK(mpscr_fifo_trypop(f) == NULL, "fourth pop returned a node");
  mpscr_fifo_destroy(f);
}

/* ------------------------------------------------------------------ */
/* C14 hazard pointer record, C13 mpmc_fifo                             */
/* ------------------------------------------------------------------ */
static void hazard_fields(const char* what, hazard_pointer_thread_record_t* r, void* head,
                          hazard_pointer_thread_record_t* next, size_t k, size_t threshold) {
  size_t i;
  CHECK(r->head == head, "%s: head %p (want the list head %p)", what, P(r->head), head);
  CHECK(r->next == next, "%s: next %p (want %p)", what, P(r->next), P(next));
  CHECK(r->retire_threshold == threshold, "%s: retire_threshold %zu (want 2*N*K = %zu)", what, (size_t)r->retire_threshold, threshold);
  CHECK(r->retired_count == 0 && r->retired_list == NULL, "%s: retired_count %zu retired_list %p (want 0, NULL)", what,
        r->retired_count, P(r->retired_list));
  CHECK(r->plist == NULL && r->plist_size == 0, "%s: plist %p plist_size %zu (want NULL, 0)", what, P(r->plist), r->plist_size);
  CHECK(r->hazard_pointers_count == k, "%s: hazard_pointers_count %zu (want %zu)", what, r->hazard_pointers_count, k);
  if (r->hazard_pointers_count == k)
    for (i = 0; i < k; ++i) CHECK(r->hazard_pointers[i] == NULL, "%s: hazard_pointers[%zu] %p (want NULL)", what, i, P(r->hazard_pointers[i]));
}

static mpmc_fifo_node_t* mk_mnode(void* value) {
  mpmc_fifo_node_t* n = fiber_manager_get_mpmc_node();
  n->value = value;
  return n;
}

static void t_hazard_pointer(void) {
  _Atomic(hazard_pointer_thread_record_t*)* head = dirty(sizeof *head);
  hazard_pointer_thread_record_t *r1, *r2;
  mpmc_fifo_node_t* n[5];
  int i;
  *head = NULL;
  r1 = hazard_pointer_thread_record_create_and_push(head, 2);
  REQUIRE(r1 && *head == r1, "create_and_push: returned %p, list head %p", P(r1), P(*head));
  hazard_fields("first record", r1, head, NULL, 2, 4);
  if (nfail) return;
  r2 = hazard_pointer_thread_record_create_and_push(head, 2);
  REQUIRE(r2 && *head == r2, "second create_and_push: returned %p, list head %p", P(r2), P(*head));
  hazard_fields("second record", r2, head, r1, 2, 8);
  CHECK(r1->retire_threshold == 8, "first record's retire_threshold %zu after a second record joined (want 8)", (size_t)r1->retire_threshold);
  if (nfail) return;
  /* protect n[0] in r2; retire n[0..4] through r1: the 8th... threshold is 8, so force a scan */
  for (i = 0; i < 5; ++i) n[i] = mk_mnode(&n[i]);
  hazard_pointer_using(r2, &n[0]->hazard, 1);
  for (i = 0; i < 5; ++i) hazard_pointer_free(r1, &n[i]->hazard);
  CHECK(r1->retired_count == 5 && gc_calls == 0, "5 retirements below the threshold: retired_count %zu reclaimed %d", r1->retired_count, gc_calls);
  hazard_pointer_scan(r1);
  CHECK(gc_calls == 4 && r1->retired_count == 1 && r1->retired_list == &n[0]->hazard,
        "scan with one protected node: reclaimed %d (want 4), retired_count %zu, kept %p (want %p)", gc_calls,
        r1->retired_count, P(r1->retired_list), P(&n[0]->hazard));
  hazard_pointer_done_using(r2, 1);
  hazard_pointer_thread_record_destroy_all(*head);
  CHECK(gc_calls == 5, "destroy_all: %d nodes reclaimed in total (want 5)", gc_calls);
  free((void*)head);
}

static void t_mpmc_fifo(void) {
  static long tok[2];
  mpmc_fifo_node_t* init_node;
  mpmc_fifo_node_t *h, *t;
  hazard_pointer_thread_record_t* hp = fiber_manager_get_hazard_record(&the_manager);
  mpmc_fifo_t* f = dirty(sizeof *f);
  init_node = fiber_manager_get_mpmc_node(); /* malloc'ed: value/prev/next dirty */
  REQUIRE(mpmc_fifo_init(f, init_node) == 1, "init did not return 1");
  h = f->head; t = f->tail;
  REQUIRE(h == init_node && t == init_node, "head %p tail %p (want both the initial node %p)", P(h), P(t), P(init_node));
  CHECK(h->prev == NULL, "dummy->prev %p (want NULL = empty)", P(h->prev));
  CHECK(h->next == NULL && h->value == NULL, "dummy->next %p value %p (want NULL)", P(h->next), h->value);
  if (nfail) return;
  CHECK(mpmc_fifo_trypop(hp, f) == NULL, "trypop on a fresh fifo returned a value");
  mpmc_fifo_push(hp, f, mk_mnode(&tok[0]));
  mpmc_fifo_push(hp, f, mk_mnode(&tok[1]));
  CHECK(mpmc_fifo_trypop(hp, f) == &tok[0], "first pop: wrong value");
  CHECK(mpmc_fifo_trypop(hp, f) == &tok[1], "second pop: wrong value");
  CHECK(mpmc_fifo_trypop(hp, f) == NULL, "third pop returned a value");
  CHECK(hp->hazard_pointers[0] == NULL && hp->hazard_pointers[1] == NULL, "hazard pointers left published after the calls");
  mpmc_fifo_destroy(hp, f);
  hazard_pointer_thread_record_destroy_all(stub_hazard_head);
  CHECK(gc_calls == 3, "%d nodes reclaimed after destroy (want 3: the dummy and both pushed nodes)", gc_calls);
  free(f);
}

/* ------------------------------------------------------------------ */
/* C20 mpmc_lifo / mpmc_stack / dist_fifo / fiber_multi_signal          */
/* ------------------------------------------------------------------ */
static void t_mpmc_lifo(void) {
  mpmc_lifo_node_t *a, *b;
  mpmc_lifo_t* l = dirty(sizeof *l);
  mpmc_lifo_init(l);
  CHECK(l->data.head == NULL, "head %p (want NULL = empty)", P(l->data.head));
  CHECK(l->data.counter == 0, "counter %#llx (want 0)", (unsigned long long)l->data.counter);
  if (nfail) return;
  CHECK(mpmc_lifo_pop(l) == NULL, "pop on a fresh lifo returned a node");
  a = (mpmc_lifo_node_t*)malloc(sizeof *a);
  b = (mpmc_lifo_node_t*)malloc(sizeof *b);
  mpmc_lifo_push(l, a);
  mpmc_lifo_push(l, b);
  CHECK(mpmc_lifo_pop(l) == b, "first pop: want the node pushed last");
  CHECK(mpmc_lifo_pop(l) == a, "second pop: want the node pushed first");
  CHECK(mpmc_lifo_pop(l) == NULL, "third pop returned a node");
  CHECK(l->data.counter == 4, "counter %llu after 4 successful operations", (unsigned long long)l->data.counter);
  mpmc_lifo_push(l, a);
  mpmc_lifo_push(l, b);
  mpmc_lifo_destroy(l); /* frees the nodes still linked */
  free(l);
}

static void t_mpmc_stack(void) {
  static long tok[3];
  mpmc_stack_node_t nd[3];
  mpmc_stack_node_t* p;
  int i;
  mpmc_stack_t* s = dirty(sizeof *s);
  memset(nd, DIRTY, sizeof nd);
  mpmc_stack_init(s);
  CHECK(s->head == NULL, "head %p (want NULL = empty)", P(s->head));
  if (nfail) return;
  CHECK(mpmc_stack_lifo_flush(s) == NULL, "flush of a fresh stack returned nodes");
  for (i = 0; i < 3; ++i) {
    mpmc_stack_node_init(&nd[i], &tok[i]);
    CHECK(mpmc_stack_node_get_data(&nd[i]) == &tok[i], "node_init/get_data mismatch");
  }
  mpmc_stack_push(s, &nd[0]);
  mpmc_stack_push(s, &nd[1]);
  CHECK(mpmc_stack_push_timeout(s, &nd[2], 1) == MPMC_SUCCESS, "uncontended push_timeout failed");
  p = mpmc_stack_fifo_flush(s);
  for (i = 0; i < 3; ++i, p = p ? p->next : NULL) CHECK(p == &nd[i], "fifo_flush: element %d is not the %d-th node pushed", i, i);
  CHECK(p == NULL, "fifo_flush: list longer than what was pushed");
  CHECK(s->head == NULL && mpmc_stack_lifo_flush(s) == NULL, "stack not empty after a flush");
  mpmc_stack_push(s, &nd[0]);
  mpmc_stack_push(s, &nd[1]);
  p = mpmc_stack_lifo_flush(s);
  CHECK(p == &nd[1] && p->next == &nd[0] && p->next->next == NULL, "lifo_flush: wrong order or unterminated list");
  free(s);
}

static void t_dist_fifo(void) {
  static long tok[2];
  dist_fifo_node_t* n;
  dist_fifo_t* f = dirty(sizeof *f);
  REQUIRE(dist_fifo_init(f) == 1, "init did not return 1");
  CHECK(f->head.pointer.counter == 0, "head.counter %#llx (want 0)", (unsigned long long)f->head.pointer.counter);
  REQUIRE(f->tail && !is_dirty(f->tail) && f->head.pointer.node == f->tail, "head.node %p tail %p (want both the stub node)",
          P(f->head.pointer.node), P(f->tail));
  CHECK(f->tail->next == NULL, "stub->next %p (want NULL)", P(f->tail->next));
  if (nfail) return;
  CHECK(dist_fifo_trypop(f) == DIST_FIFO_EMPTY, "trypop on a fresh fifo did not say EMPTY");
  dist_fifo_push(f, mk_item(&tok[0]));
  dist_fifo_push(f, mk_item(&tok[1]));
  n = dist_fifo_trypop(f);
  CHECK(n != DIST_FIFO_EMPTY && n != DIST_FIFO_RETRY && n->data == &tok[0], "first pop: wrong item");
  if (n != DIST_FIFO_EMPTY && n != DIST_FIFO_RETRY) free(n);
  n = dist_fifo_trypop(f);
  CHECK(n != DIST_FIFO_EMPTY && n != DIST_FIFO_RETRY && n->data == &tok[1], "second pop: wrong item");
  if (n != DIST_FIFO_EMPTY && n != DIST_FIFO_RETRY) free(n);
  CHECK(dist_fifo_trypop(f) == DIST_FIFO_EMPTY, "third pop did not say EMPTY");
  CHECK(f->head.pointer.counter == 2, "head.counter %llu after two pops", (unsigned long long)f->head.pointer.counter);
  dist_fifo_destroy(f);
  free(f);
}

static void t_fiber_multi_signal(void) {
  fiber_multi_signal_t* s = dirty(sizeof *s);
  fiber_multi_signal_init(s);
  CHECK(s->data.head == NULL, "head %p (want NULL = not raised, no waiters)", P(s->data.head));
  CHECK(s->data.counter == 0, "counter %#llx (want 0)", (unsigned long long)s->data.counter);
  if (nfail) return;
  CHECK(fiber_multi_signal_raise(s) == 0, "raise without waiters claims to have woken a fiber");
  CHECK(s->data.head == FIBER_MULTI_SIGNAL_RAISED, "head %p after raise (want RAISED)", P(s->data.head));
  CHECK(fiber_multi_signal_raise(s) == 0 && s->data.head == FIBER_MULTI_SIGNAL_RAISED, "second raise: head %p", P(s->data.head));
  fiber_multi_signal_wait(s); /* raised: must consume the signal without switching context */
  CHECK(s->data.head == NULL, "head %p after a wait consumed the signal (want NULL)", P(s->data.head));
  CHECK(s->data.counter == 3, "counter %llu after raise, raise, wait", (unsigned long long)s->data.counter);
  fiber_multi_signal_destroy(s);
  free(s);
}

/* ------------------------------------------------------------------ */
/* C11 fiber_signal and the channels                                    */
/* ------------------------------------------------------------------ */
static void t_fiber_signal(void) {
  fiber_signal_t* s = dirty(sizeof *s);
  fiber_signal_init(s);
  CHECK(s->waiter == FIBER_SIGNAL_NO_WAITER, "waiter %p (want NO_WAITER)", P(s->waiter));
  if (nfail) return;
  CHECK(fiber_signal_raise(s) == 0, "raise without a waiter claims to have woken a fiber");
  CHECK(s->waiter == FIBER_SIGNAL_RAISED, "waiter %p after raise (want RAISED)", P(s->waiter));
  fiber_signal_wait(s); /* raised: returns without switching context */
  CHECK(s->waiter == FIBER_SIGNAL_NO_WAITER, "waiter %p after wait consumed the signal", P(s->waiter));
  fiber_signal_destroy(s);
  free(s);
}

static void t_fiber_bounded_channel(void) {
  static long tok[5];
  void* out = NULL;
  int i;
  fiber_signal_t* sig = dirty(sizeof *sig);
  fiber_bounded_channel_t* c;
  fiber_signal_init(sig);
  c = fiber_bounded_channel_create(2, sig);
  REQUIRE(c, "create returned NULL");
  CHECK(c->high == 0 && c->low == 0, "high %llu low %llu (want 0, 0)", (unsigned long long)c->high, (unsigned long long)c->low);
  CHECK(c->size == 4 && c->power_of_2_mod == 3, "size %u mask %u (want 4, 3)", (unsigned)c->size, (unsigned)c->power_of_2_mod);
  CHECK(c->ready_signal == sig, "ready_signal %p (want the signal passed, %p)", P(c->ready_signal), P(sig));
  check_mpsc("waiters", &c->waiters);
  for (i = 0; i < 4; ++i) CHECK(c->buffer[i] == NULL, "slot %d holds %p (want NULL)", i, c->buffer[i]);
  if (nfail) return;
  CHECK(fiber_bounded_channel_try_receive(c, &out) == 0, "try_receive on a fresh channel returned a message");
  for (i = 0; i < 4; ++i) CHECK(fiber_bounded_channel_send(c, &tok[i]) == 0 && !yields, "send %d on a channel of 4: woke someone or had to yield", i);
  CHECK(sig->waiter == FIBER_SIGNAL_RAISED, "ready signal not raised by send");
  CHECK(c->high - c->low == 4, "%llu messages after 4 sends", (unsigned long long)(c->high - c->low));
  CHECK(fiber_bounded_channel_try_receive(c, &out) == 1 && out == &tok[0], "try_receive: wrong message");
  for (i = 1; i < 4; ++i) CHECK(fiber_bounded_channel_receive(c) == &tok[i], "receive %d: wrong message", i);
  CHECK(fiber_bounded_channel_try_receive(c, &out) == 0, "try_receive on the drained channel returned a message");
  fiber_bounded_channel_destroy(c);
  c = fiber_bounded_channel_create(1, NULL);
  REQUIRE(c, "create(1, NULL) returned NULL");
  CHECK(c->ready_signal == NULL && c->size == 2 && c->power_of_2_mod == 1, "no-signal channel: ready_signal %p size %u mask %u",
        P(c->ready_signal), (unsigned)c->size, (unsigned)c->power_of_2_mod);
  CHECK(fiber_bounded_channel_send(c, &tok[4]) == 0 && fiber_bounded_channel_receive(c) == &tok[4], "send/receive without a signal");
  fiber_bounded_channel_destroy(c);
  free(sig);
}

static void t_fiber_unbounded_channel(void) {
  static long tok[2];
  fiber_unbounded_channel_message_t* m;
  fiber_signal_t* sig = dirty(sizeof *sig);
  fiber_unbounded_channel_t* c = dirty(sizeof *c);
  fiber_signal_init(sig);
  REQUIRE(fiber_unbounded_channel_init(c, sig) == 1, "init did not return 1");
  CHECK(c->ready_signal == sig, "ready_signal %p (want the signal passed, %p)", P(c->ready_signal), P(sig));
  check_mpsc("queue", &c->queue);
  if (nfail) return;
  CHECK(fiber_unbounded_channel_try_receive(c) == NULL, "try_receive on a fresh channel returned a message");
  CHECK(fiber_unbounded_channel_send(c, mk_item(&tok[0])) == 0, "send without a waiting receiver claims a wake-up");
  CHECK(fiber_unbounded_channel_send(c, mk_item(&tok[1])) == 0, "second send claims a wake-up");
  CHECK(sig->waiter == FIBER_SIGNAL_RAISED, "ready signal not raised by send");
  m = fiber_unbounded_channel_try_receive(c); CHECK(m && m->data == &tok[0], "try_receive: wrong message"); free(m);
  m = fiber_unbounded_channel_receive(c); CHECK(m && m->data == &tok[1], "receive: wrong message"); free(m);
  CHECK(fiber_unbounded_channel_try_receive(c) == NULL, "try_receive on the drained channel returned a message");
  fiber_unbounded_channel_destroy(c);
  memset(c, DIRTY, sizeof *c);
  REQUIRE(fiber_unbounded_channel_init(c, NULL) == 1, "init(NULL) did not return 1");
  CHECK(c->ready_signal == NULL, "ready_signal %p (want NULL as passed)", P(c->ready_signal));
  fiber_unbounded_channel_destroy(c);
  free(c); free(sig);
}

static void t_fiber_unbounded_sp_channel(void) {
  static long tok[2];
  fiber_unbounded_sp_channel_message_t* m;
  fiber_signal_t* sig = dirty(sizeof *sig);
  fiber_unbounded_sp_channel_t* c = dirty(sizeof *c);
  fiber_signal_init(sig);
  REQUIRE(fiber_unbounded_sp_channel_init(c, sig) == 1, "init did not return 1");
  CHECK(c->ready_signal == sig, "ready_signal %p (want the signal passed, %p)", P(c->ready_signal), P(sig));
  check_spsc("queue", &c->queue);
  if (nfail) return;
  CHECK(fiber_unbounded_sp_channel_try_receive(c) == NULL, "try_receive on a fresh channel returned a message");
  CHECK(fiber_unbounded_sp_channel_send(c, mk_snode(&tok[0])) == 0, "send without a waiting receiver claims a wake-up");
  CHECK(fiber_unbounded_sp_channel_send(c, mk_snode(&tok[1])) == 0, "second send claims a wake-up");
  CHECK(sig->waiter == FIBER_SIGNAL_RAISED, "ready signal not raised by send");
  m = fiber_unbounded_sp_channel_try_receive(c); CHECK(m && m->data == &tok[0], "try_receive: wrong message"); free(m);
  m = fiber_unbounded_sp_channel_receive(c); CHECK(m && m->data == &tok[1], "receive: wrong message"); free(m);
  CHECK(fiber_unbounded_sp_channel_try_receive(c) == NULL, "try_receive on the drained channel returned a message");
  fiber_unbounded_sp_channel_destroy(c);
  memset(c, DIRTY, sizeof *c);
  REQUIRE(fiber_unbounded_sp_channel_init(c, NULL) == 1, "init(NULL) did not return 1");
  CHECK(c->ready_signal == NULL, "ready_signal %p (want NULL as passed)", P(c->ready_signal));
  fiber_unbounded_sp_channel_destroy(c);
  free(c); free(sig);
}

static void t_fiber_multi_channel(void) {
  static long tok[2];
  int i;
  fiber_multi_channel_t* c = fiber_multi_channel_create(1);
  REQUIRE(c, "create returned NULL");
  CHECK(c->high == 0 && c->low == 0, "high %llu low %llu (want 0, 0)", (unsigned long long)c->high, (unsigned long long)c->low);
  CHECK(c->size == 2 && c->power_of_2_mod == 1, "size %u mask %u (want 2, 1)", (unsigned)c->size, (unsigned)c->power_of_2_mod);
  CHECK(c->send_waiters == NULL && c->recv_waiters == NULL, "send_waiters %p recv_waiters %p (want NULL, NULL)",
        P(c->send_waiters), P(c->recv_waiters));
  CHECK(c->lock.counter == 1, "lock.counter %d (want 1 = free)", (int)c->lock.counter);
  check_mpsc("lock.waiters", &c->lock.waiters);
  for (i = 0; i < 2; ++i) CHECK(c->buffer[i] == NULL, "slot %d holds %p (want NULL)", i, c->buffer[i]);
  if (nfail) return;
  fiber_multi_channel_send(c, &tok[0]);
  fiber_multi_channel_send(c, &tok[1]);
  CHECK(c->high == 2 && c->low == 0 && c->lock.counter == 1, "after two sends: high %llu low %llu lock.counter %d",
        (unsigned long long)c->high, (unsigned long long)c->low, (int)c->lock.counter);
  CHECK(fiber_multi_channel_receive(c) == &tok[0], "first receive: wrong message");
  CHECK(fiber_multi_channel_receive(c) == &tok[1], "second receive: wrong message");
  CHECK(c->high == 2 && c->low == 2 && c->lock.counter == 1 && !wake_calls, "after two receives: high %llu low %llu lock.counter %d",
        (unsigned long long)c->high, (unsigned long long)c->low, (int)c->lock.counter);
  fiber_multi_channel_destroy(c);
}

/* ------------------------------------------------------------------ */
/* C02 wsd_circular_array / wsd_work_stealing_deque                     */
/* ------------------------------------------------------------------ */
static void array_fields(const char* what, wsd_circular_array_t* a, size_t log_size, wsd_circular_array_t* prev) {
  CHECK(a->log_size == log_size, "%s: log_size %zu (want %zu)", what, a->log_size, log_size);
  CHECK(a->size == ((size_t)1 << log_size) && wsd_circular_array_size(a) == a->size, "%s: size %zu (want %zu)", what, a->size,
        (size_t)1 << log_size);
  CHECK(a->size_minus_one == ((ssize_t)1 << log_size) - 1, "%s: size_minus_one %zd (want %zd)", what, a->size_minus_one,
        ((ssize_t)1 << log_size) - 1);
  CHECK(a->prev == prev, "%s: prev %p (want %p)", what, P(a->prev), P(prev));
}

static void t_wsd_circular_array(void) {
  int64_t i;
  wsd_circular_array_t *a, *g;
  a = wsd_circular_array_create(3);
  REQUIRE(a, "create returned NULL");
  array_fields("create(3)", a, 3, NULL);
  if (nfail) return;
  for (i = 5; i < 12; ++i) wsd_circular_array_put(a, i, (void*)(intptr_t)(100 + i));
  for (i = 5; i < 12; ++i) CHECK(wsd_circular_array_get(a, i) == (void*)(intptr_t)(100 + i), "get(%lld) after put: wrong value", LL(i));
  g = wsd_circular_array_grow(a, 5, 12);
  REQUIRE(g && g != a, "grow returned %p", P(g));
  array_fields("grown array", g, 4, a);
  if (nfail) return;
  for (i = 5; i < 12; ++i) CHECK(wsd_circular_array_get(g, i) == (void*)(intptr_t)(100 + i), "grown array: element %lld not copied", LL(i));
  wsd_circular_array_destroy(g); /* follows the prev chain: a dirty prev crashes here */
}

static void t_wsd_work_stealing_deque(void) {
  intptr_t i;
  wsd_circular_array_t* a;
  wsd_work_stealing_deque_t* d = wsd_work_stealing_deque_create();
  REQUIRE(d, "create returned NULL");
  CHECK(d->top == 0, "top %lld (want 0)", LL(d->top));
  CHECK(d->bottom == 0, "bottom %lld (want 0)", LL(d->bottom));
  CHECK(d->top == d->bottom, "top != bottom: a fresh deque is not empty");
  a = d->underlying_array;
  REQUIRE(a && !is_dirty(a), "underlying_array %p", P(a));
  array_fields("underlying_array", a, 8, NULL);
  if (nfail) return;
  CHECK(wsd_work_stealing_deque_size(d) == 0, "size() %zu on a fresh deque", wsd_work_stealing_deque_size(d));
  CHECK(wsd_work_stealing_deque_steal(d) == WSD_EMPTY, "steal on a fresh deque did not say EMPTY");
  CHECK(wsd_work_stealing_deque_pop_bottom(d) == WSD_EMPTY, "pop_bottom on a fresh deque did not say EMPTY");
  CHECK(d->top == d->bottom, "top %lld bottom %lld after a failed pop", LL(d->top), LL(d->bottom));
  for (i = 1; i <= 3; ++i) wsd_work_stealing_deque_push_bottom(d, (void*)i);
  CHECK(wsd_work_stealing_deque_size(d) == 3, "size() %zu after 3 pushes", wsd_work_stealing_deque_size(d));
  CHECK(wsd_work_stealing_deque_steal(d) == (void*)1, "steal: want the oldest element");
  CHECK(wsd_work_stealing_deque_pop_bottom(d) == (void*)3, "pop_bottom: want the newest element");
  CHECK(wsd_work_stealing_deque_pop_bottom(d) == (void*)2, "pop_bottom: want the remaining element");
  CHECK(wsd_work_stealing_deque_pop_bottom(d) == WSD_EMPTY, "pop_bottom on the drained deque did not say EMPTY");
  /* across the growth boundary of the initial array (256 slots) */
  for (i = 1; i <= 300; ++i) wsd_work_stealing_deque_push_bottom(d, (void*)i);
  a = d->underlying_array;
  CHECK(a->log_size == 9 && a->prev && a->prev->prev == NULL, "after 300 pushes: log_size %zu, prev chain %p -> %p (want 9, old array -> NULL)",
        a->log_size, P(a->prev), a->prev ? P(a->prev->prev) : NULL);
  if (nfail) return;
  CHECK(wsd_work_stealing_deque_steal(d) == (void*)1, "steal after growth: want element 1");
  for (i = 300; i >= 2; --i)
    if (wsd_work_stealing_deque_pop_bottom(d) != (void*)i) { failf("pop_bottom after growth: element %ld lost or out of order", (long)i); break; }
  CHECK(wsd_work_stealing_deque_pop_bottom(d) == WSD_EMPTY, "deque not empty after popping everything");
  wsd_work_stealing_deque_destroy(d);
}

/* ------------------------------------------------------------------ */
/* C10 fiber_scheduler_wsd (struct is private to the .c file: mirrored) */
/* ------------------------------------------------------------------ */
typedef struct {
  wsd_work_stealing_deque_t* queue_one;
  wsd_work_stealing_deque_t* queue_two;
  wsd_work_stealing_deque_t* volatile schedule_from;
  wsd_work_stealing_deque_t* volatile store_to;
  size_t id;
  uint64_t steal_count;
  uint64_t failed_steal_count;
} sched_mirror_t;

static void t_fiber_scheduler_wsd(void) {
  static fiber_t f1, f2;
  uint64_t steals = 0, failed = 0;
  fiber_scheduler_t* sch;
  sched_mirror_t* s;
  REQUIRE(fiber_scheduler_init(1) == 1, "fiber_scheduler_init(1) did not return 1");
  sch = fiber_scheduler_for_thread(0);
  REQUIRE(sch, "fiber_scheduler_for_thread(0) returned NULL");
  s = (sched_mirror_t*)sch;
  REQUIRE(s->queue_one && s->queue_two && s->queue_one != s->queue_two, "queue_one %p queue_two %p (want two distinct deques)",
          P(s->queue_one), P(s->queue_two));
  CHECK(s->schedule_from == s->queue_one || s->schedule_from == s->queue_two, "schedule_from %p is neither queue (%p, %p)",
        P(s->schedule_from), P(s->queue_one), P(s->queue_two));
  CHECK(s->store_to == s->queue_one || s->store_to == s->queue_two, "store_to %p is neither queue (%p, %p)", P(s->store_to),
        P(s->queue_one), P(s->queue_two));
  CHECK(s->schedule_from != s->store_to, "schedule_from == store_to (%p): the batch being drained is the batch being filled", P(s->store_to));
  CHECK(s->id == 0, "id %zu (want 0)", s->id);
  fiber_scheduler_stats(sch, &steals, &failed);
  CHECK(steals == 0 && failed == 0, "steal_count %llu failed_steal_count %llu (want 0, 0)", (unsigned long long)steals, (unsigned long long)failed);
  if (nfail) return;
  CHECK(wsd_work_stealing_deque_size(s->queue_one) == 0 && wsd_work_stealing_deque_size(s->queue_two) == 0, "a fresh scheduler's queues are not empty");
  CHECK(fiber_scheduler_next(sch) == NULL, "next on a fresh scheduler returned a fiber");
  f1.state = FIBER_STATE_READY; f2.state = FIBER_STATE_READY;
  fiber_scheduler_schedule(sch, &f1);
  fiber_scheduler_schedule(sch, &f2);
  fiber_scheduler_load_balance(sch); /* one thread: nothing to steal from */
  {
    fiber_t* a = fiber_scheduler_next(sch);
    fiber_t* b = fiber_scheduler_next(sch);
    CHECK((a == &f1 && b == &f2) || (a == &f2 && b == &f1), "two scheduled fibers: next returned %p then %p (want %p and %p, once each)",
          P(a), P(b), P(&f1), P(&f2));
  }
  CHECK(fiber_scheduler_next(sch) == NULL, "a third next returned a fiber");
  CHECK(s->schedule_from != s->store_to, "schedule_from == store_to after use");
  fiber_scheduler_shutdown();
}

/* ------------------------------------------------------------------ */
/* driver                                                               */
/* ------------------------------------------------------------------ */
static const struct { const char* name; void (*fn)(void); } TESTS[] = {
  {"fiber_mutex", t_fiber_mutex},
  {"fiber_cond", t_fiber_cond},
  {"fiber_semaphore", t_fiber_semaphore},
  {"fiber_rwlock", t_fiber_rwlock},
  {"fiber_barrier", t_fiber_barrier},
  {"fiber_spinlock", t_fiber_spinlock},
  {"lockfree_ring_buffer", t_lockfree_ring_buffer},
  {"work_queue", t_work_queue},
  {"mpsc_fifo", t_mpsc_fifo},
  {"spsc_fifo", t_spsc_fifo},
  {"mpsc_relaxed_fifo", t_mpsc_relaxed_fifo},
  {"mpmc_fifo", t_mpmc_fifo},
  {"hazard_pointer", t_hazard_pointer},
  {"mpmc_lifo", t_mpmc_lifo},
  {"mpmc_stack", t_mpmc_stack},
  {"dist_fifo", t_dist_fifo},
  {"fiber_multi_signal", t_fiber_multi_signal},
  {"fiber_signal", t_fiber_signal},
  {"fiber_bounded_channel", t_fiber_bounded_channel},
  {"fiber_unbounded_channel", t_fiber_unbounded_channel},
  {"fiber_unbounded_sp_channel", t_fiber_unbounded_sp_channel},
  {"fiber_multi_channel", t_fiber_multi_channel},
  {"wsd_circular_array", t_wsd_circular_array},
  {"wsd_work_stealing_deque", t_wsd_work_stealing_deque},
  {"fiber_scheduler_wsd", t_fiber_scheduler_wsd},
};
#define NTESTS (sizeof TESTS / sizeof TESTS[0])

static void run_one(size_t k) {
  int pfd[2], status = 0;
  char buf[1200];
  ssize_t n, got = 0;
  pid_t pid;
  if (pipe(pfd)) { printf("%s FAIL harness: pipe failed\n", TESTS[k].name); return; }
  fflush(stdout);
  pid = fork();
  if (pid < 0) { printf("%s FAIL harness: fork failed\n", TESTS[k].name); return; }
  if (pid == 0) {
    close(pfd[0]);
    out_fd = pfd[1];
    /* an assert of the library writes its message to stderr and aborts (SIGABRT): the parent turns that into a verdict */
    cur_name = TESTS[k].name;
    fail_msg[0] = 0; nfail = 0; gc_calls = 0;
    stub_reset();
    alarm(20); /* a dirty field may also make an operation spin forever */
    TESTS[k].fn();
    emit_and_exit();
  }
  close(pfd[1]);
  while (got < (ssize_t)sizeof buf - 1 && (n = read(pfd[0], buf + got, sizeof buf - 1 - (size_t)got)) > 0) got += n;
  close(pfd[0]);
  buf[got] = 0;
  while (waitpid(pid, &status, 0) < 0) {}
  if (WIFSIGNALED(status))
    printf("%s FAIL crashed (signal %d%s)\n", TESTS[k].name, WTERMSIG(status),
           WTERMSIG(status) == SIGALRM ? ": no progress for 20 s" : WTERMSIG(status) == SIGABRT ? ": abort/assert" : "");
  else if (WIFEXITED(status) && WEXITSTATUS(status) == 0 && got > 0 && buf[got - 1] == '\n')
    fputs(buf, stdout);
  else
    printf("%s FAIL harness: child exited with status %d and no verdict\n", TESTS[k].name, WIFEXITED(status) ? WEXITSTATUS(status) : -1);
  fflush(stdout);
}

int main(int argc, char** argv) {
  size_t k;
  int i;
  if (argc < 2) {
    for (k = 0; k < NTESTS; ++k) run_one(k);
    return 0;
  }
  for (i = 1; i < argc; ++i) {
    for (k = 0; k < NTESTS; ++k)
      if (!strcmp(argv[i], TESTS[k].name)) { run_one(k); break; }
    if (k == NTESTS) printf("%s FAIL harness: no such primitive\n", argv[i]);
  }
  return 0;
}

/* ------------------------------------------------------------------ */
/* the allocator seen by the code under test (and by this file's own      */
/* node allocations): malloc = dirty, calloc = zeroed                     */
/* ------------------------------------------------------------------ */
#undef malloc
#undef calloc
extern void* malloc(size_t);
extern void* calloc(size_t, size_t);

void* h_init_malloc(size_t n) {
  void* p = malloc(n ? n : 1);
  if (p) memset(p, DIRTY, n);
  return p;
}

void* h_init_calloc(size_t a, size_t b) { return calloc(a, b); }
