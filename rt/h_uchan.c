/* Lock-step harness for the unbounded MPSC channel of include/fiber_channel.h
 * (fiber_unbounded_channel_send / _receive / _try_receive) with its ready
 * signal, on the T1 machine (C11).  Header-only code: compiled into this file.
 * Locations (coq/ChanK.v): 503 = signal.waiter; 507 = queue.head; 511 =
 * queue.tail; 502+4t = fiber t's scratch; node n (ids from 1, node 1 = initial
 * stub): data = 500+8n, next = 504+8n; 200+t = fiber t's state.
 * Ops: (3, n*1000+v) n->data = v; send(node n)      ret = send's return value
 *      (4,_) receive                                 ret = data of the node returned
 *      (7,_) try_receive                             ret = data, or 0 if NULL
 * The write of n->data before a send and the read of the returned node's data
 * are harness accesses to registered memory (trace lines like any other). */
#include "harness.h"
#include "t1.h"
#include "fiber_channel.h"

#define NN 1000
static mpsc_fifo_node_t nodes[NN];
static fiber_signal_t sig;
static fiber_unbounded_channel_t ch;
static hcase_t* cur;

static void prog(int t) {
  for (int k = 0; k < cur->nops[t]; k++) {
    long opc = cur->ops[t][k][0], a = cur->ops[t][k][1];
    long r = 0;
    if (opc == 3) {
      mpsc_fifo_node_t* n = &nodes[a / 1000 - 1];
      n->data = (void*)(uintptr_t)(a % 1000);
      r = fiber_unbounded_channel_send(&ch, n);
    } else if (opc == 4) {
      mpsc_fifo_node_t* m = fiber_unbounded_channel_receive(&ch);
      r = (long)(uintptr_t)m->data;
    } else {
      mpsc_fifo_node_t* m = fiber_unbounded_channel_try_receive(&ch);
      if (m) r = (long)(uintptr_t)m->data;
    }
    rt_event(k + 1, K_RET, r);
  }
}

static void h_run_case(hcase_t* c) {
  cur = c;
  int dmax = (int)c->params[0];
  int n = c->nthreads;
  for (int t = 0; t < n; t++)
    for (int k = 0; k < c->nops[t]; k++)
      if (c->ops[t][k][0] == 3) {
        long x = c->ops[t][k][1] / 1000;
        if (x < 2 || x > NN) { printf("-1\n"); return; }
      }
  memset(nodes, 0, sizeof nodes);
  t1_setup(n);
  fiber_signal_init(&sig);
  /* fiber_unbounded_channel_init, with the stub taken from our array */
  ch.ready_signal = &sig;
  ch.queue.tail = &nodes[0];
  ch.queue.head = &nodes[0];
  for (int t = 0; t < n; t++) {
    fiber_t* f = t1_fiber_of(t);
    rt_reg((void*)&f->state, 4, 200 + t, 4);
    rt_reg((void*)&f->scratch, 8, 502 + 4 * t, 8);
    rt_name(f, sizeof *f, 1000 + t, sizeof *f);
  }
  rt_reg((void*)&sig.waiter, 8, 503, 8);
  rt_reg((void*)&ch.queue.head, 8, 507, 8);
  rt_reg((void*)&ch.queue.tail, 8, 511, 8);
  rt_reg(nodes, sizeof nodes, 508, 2);
  rt_reg_rest(&sig, sizeof sig, 13900);   /* search mode only: fields the model does not know */
  rt_reg_rest(&ch, sizeof ch, 14900);
  rt_name(nodes, sizeof nodes, 1, sizeof nodes[0]);
  t1_run(n, prog, c->sched, c->nsched, dmax);
  rt_print_trace();
}
int main(void) { return h_main(); }
