/* Whole-runtime harness (T2) for C01 and the runtime half of C02: real fibers
 * on real kernel threads under the baton scheduler.  The case gives one op
 * list per fiber; the main fiber creates them, joins them all and returns.
 * params: drain bound, number of kernel threads. */
#include "harness.h"
#include "t2.h"
#include "fiber_mutex.h"
#include "fiber_cond.h"
#include "fiber_semaphore.h"
#include "fiber_barrier.h"
#include "fiber_channel.h"
#include "fiber_rwlock.h"
#include <sys/socket.h>
#include <unistd.h>

static hcase_t* cur;
static fiber_mutex_t mtx[2];
static fiber_cond_t cond;
static fiber_semaphore_t sem;
static volatile int flag;
static volatile long cs_owner[2];
static _Atomic int nfinished;
/* one bounded channel + signal per fiber (a signal has a single waiter: only the owner receives) */
static fiber_signal_t sigs[RT_MAX_THREADS];
static fiber_bounded_channel_t* chans[RT_MAX_THREADS];
static _Atomic int receiving[RT_MAX_THREADS];
/* two multi-waiter signals (include/fiber_signal.h, fiber_multi_signal_*): any fiber may wait, any fiber may raise */
static fiber_multi_signal_t msig[2];
static fiber_rwlock_t rwl;
static _Atomic int pflag[2];    /* ops 27/28: a flag one fiber polls with fiber_yield() and another sets */
static fiber_barrier_t bar2;   /* count 2: used by exactly two fibers, equally often (the generator guarantees it) */
static _Atomic int rw_readers, rw_writers;
static _Atomic long ms_raised[2], ms_returned[2];
static _Atomic int ms_waiting[2];

static void* closer_prog(void* param) {
  fiber_yield();
  close((int)(intptr_t)param);
  return NULL;
}


static void* child_prog(void* param) {
  if (param) fiber_yield();
  return param;
}

/* op 25: a child that keeps yielding, a joiner blocked in fiber_join(child), and a third party that detaches the child */
static void* slow_child_prog(void* param) {
  for (long i = 0; i < 3 + (long)(intptr_t)param; i++) fiber_yield();
  return (void*)(intptr_t)5;
}
static void* joiner_prog(void* param) {
  void* res = NULL;
  int rc = fiber_join((fiber_t*)param, &res);
  /* either the join won (result 5) or the detach did (FIBER_ERROR): both are legal, anything else is not */
  return (void*)(intptr_t)((rc == FIBER_SUCCESS && res == (void*)(intptr_t)5) || rc == FIBER_ERROR ? 1 : 2);
}

/* op 26: two fibers blocked in read() on the SAME descriptor, woken by data arriving */
static void* reader_prog(void* param) {
  char b = 0;
  ssize_t n = read((int)(intptr_t)param, &b, 1);
  return (void*)(intptr_t)(n == 1 ? 1 : 2);
}

static void* fiber_prog(void* param) {
  int f = (int)(intptr_t)param;
  int held[2] = {0, 0};
  for (int k = 0; k < cur->nops[f]; k++) {
    long opc = cur->ops[f][k][0], a = cur->ops[f][k][1] & 1;
    long r = 0;
    switch (opc) {
      case 1: fiber_yield(); break;
      case 2: if (!held[a] && !(a == 0 && held[1])) {   /* lock order: 0 before 1 */ fiber_mutex_lock(&mtx[a]); held[a] = 1; cs_owner[a] = f + 1; } break;
      case 3: if (held[a]) { r = (cs_owner[a] == f + 1) ? 0 : 7; held[a] = 0; fiber_mutex_unlock(&mtx[a]); } break;
      case 4: fiber_semaphore_post(&sem); fiber_semaphore_wait(&sem); break;
      case 5: fiber_semaphore_post(&sem); break;
      case 6:   /* wait for the flag under mutex 0 (only if not already holding it) */
        if (!held[0] && !held[1]) {
          fiber_mutex_lock(&mtx[0]);
          int spins = 0;
          while (!flag && spins++ < 3) { fiber_cond_signal(&cond); fiber_mutex_unlock(&mtx[0]); fiber_yield(); fiber_mutex_lock(&mtx[0]); }
          flag = 0;
          fiber_mutex_unlock(&mtx[0]);
        }
        break;
      case 7:
        if (!held[0] && !held[1]) { fiber_mutex_lock(&mtx[0]); flag = 1; fiber_cond_signal(&cond); fiber_mutex_unlock(&mtx[0]); }
        break;
      case 8:
        if (!held[0] && !held[1]) { fiber_mutex_lock(&mtx[0]); flag = 1; fiber_cond_broadcast(&cond); fiber_mutex_unlock(&mtx[0]); }
        break;
      case 9:   /* a real condition wait: released by the main fiber's broadcasts */
        if (!held[0] && !held[1]) {
          fiber_mutex_lock(&mtx[0]);
          if (!flag) fiber_cond_wait(&cond, &mtx[0]);
          flag = 0;
          fiber_mutex_unlock(&mtx[0]);
        }
        break;
      case 10: {  /* create a child and join it (set_and_wait / clear_or_wait on both sides) */
        fiber_t* c = fiber_create(20000, &child_prog, (void*)(intptr_t)a);
        void* res = NULL;
        r = (fiber_join(c, &res) == FIBER_SUCCESS && res == (void*)(intptr_t)a) ? 0 : 7;
        break;
      }
      case 19: {  /* wait on multi-waiter signal a: must not return unless it was raised (a raise with no waiter is remembered) */
        int w = (int)(a & 1);
        if (held[0] || held[1]) break;
        atomic_fetch_add(&ms_waiting[w], 1);
        fiber_multi_signal_wait(&msig[w]);
        atomic_fetch_sub(&ms_waiting[w], 1);
        if (atomic_fetch_add(&ms_returned[w], 1) + 1 > atomic_load(&ms_raised[w])) r = 77;
        break;
      }
      case 20: {  /* raise multi-waiter signal a (counted before the call) */
        int w = (int)(a & 1);
        atomic_fetch_add(&ms_raised[w], 1);
        fiber_multi_signal_raise(&msig[w]);
        break;
      }
      case 21: {  /* read section on the rwlock (yield inside, so that sections overlap and fibers migrate while holding) */
        if (held[0] || held[1]) break;
        if (a ? fiber_rwlock_tryrdlock(&rwl) != FIBER_SUCCESS : (fiber_rwlock_rdlock(&rwl), 0)) break;
        atomic_fetch_add(&rw_readers, 1);
        if (atomic_load(&rw_writers)) r = 78;
        fiber_yield();
        if (atomic_load(&rw_writers)) r = 78;
        atomic_fetch_sub(&rw_readers, 1);
        fiber_rwlock_rdunlock(&rwl);
        break;
      }
      case 22: {  /* write section */
        if (held[0] || held[1]) break;
        if (a ? fiber_rwlock_trywrlock(&rwl) != FIBER_SUCCESS : (fiber_rwlock_wrlock(&rwl), 0)) break;
        if (atomic_fetch_add(&rw_writers, 1) != 0 || atomic_load(&rw_readers)) r = 78;
        fiber_yield();
        if (atomic_load(&rw_writers) != 1 || atomic_load(&rw_readers)) r = 78;
        atomic_fetch_sub(&rw_writers, 1);
        fiber_rwlock_wrunlock(&rwl);
        break;
      }
      case 25: {
        fiber_t* c = fiber_create(20000, &slow_child_prog, (void*)(intptr_t)a);
        fiber_t* j = fiber_create(20000, &joiner_prog, c);
        void* jr = NULL;
        for (long y = 0; y < 1 + a; y++) fiber_yield();
        fiber_detach(c);
        if (fiber_join(j, &jr) != FIBER_SUCCESS || jr != (void*)(intptr_t)1) r = 79;
        break;
      }
      case 26: {
        int sv[2];
        if (held[0] || held[1]) break;
        if (socketpair(AF_UNIX, SOCK_STREAM, 0, sv) == 0) {
          fiber_t* r1 = fiber_create(20000, &reader_prog, (void*)(intptr_t)sv[0]);
          fiber_t* r2 = fiber_create(20000, &reader_prog, (void*)(intptr_t)sv[0]);
          void *x1 = NULL, *x2 = NULL;
          for (long y = 0; y < 1 + 2 * a; y++) fiber_yield();
          /* one byte now (the poller wakes whoever is registered), some yields, then the second byte */
          { ssize_t w1 = write(sv[1], "a", 1); (void)w1; }
          for (long y = 0; y < a; y++) fiber_yield();
          { ssize_t w2 = write(sv[1], "b", 1); (void)w2; }
          fiber_join(r1, &x1); fiber_join(r2, &x2);
          if (x1 != (void*)(intptr_t)1 || x2 != (void*)(intptr_t)1) r = 80;
          close(sv[0]); close(sv[1]);
        }
        break;
      }
      case 27: { int n = 0; while (!atomic_load(&pflag[a]) && n++ < 3000) fiber_yield(); break; }   /* yield-polling loop */
      case 28: atomic_store(&pflag[a], 1); break;
      case 24: if (!held[0] && !held[1]) fiber_barrier_wait(&bar2); break;   /* ping-pong through a two-party barrier */
      case 23: {  /* create a child and detach it LATE: after a yields it may have finished and be parking for a joiner */
        fiber_t* c = fiber_create(20000, &child_prog, NULL);
        for (long y = 0; y < 1 + 2 * a; y++) fiber_yield();
        fiber_detach(c);
        break;
      }
      case 18: usleep(1000 + 4000 * (unsigned)a); break;   /* fiber sleep of 2 or 6 virtual ticks (the main fiber advances time) */
      case 15: fiber_cond_signal(&cond); break;      /* signal WITHOUT holding the user mutex */
      case 16: fiber_cond_broadcast(&cond); break;   /* broadcast WITHOUT holding the user mutex */
      case 17:   /* wait on the condition twice in a row (re-wait immediately), no predicate */
        if (!held[0] && !held[1]) {
          fiber_mutex_lock(&mtx[0]);
          fiber_cond_wait(&cond, &mtx[0]);
          fiber_cond_wait(&cond, &mtx[0]);
          fiber_mutex_unlock(&mtx[0]);
        }
        break;
      case 12: {  /* block in read() on a socket that another fiber then closes (fd wait woken with an error) */
        int sv[2];
        if (held[0] || held[1]) break;   /* the main fiber needs mutex 0 to keep everybody going */
        if (socketpair(AF_UNIX, SOCK_STREAM, 0, sv) == 0) {
          fiber_t* c = fiber_create(20000, &closer_prog, (void*)(intptr_t)sv[0]);
          char b;
          ssize_t n = read(sv[0], &b, 1);
          (void)n;
          fiber_join(c, NULL);
          close(sv[1]);
        }
        break;
      }
      case 13: {  /* send a message to fiber a's channel (skipped when it looks full) */
        int to = (int)(cur->ops[f][k][1] % cur->nthreads);
        if (chans[to]->high - chans[to]->low < chans[to]->size) fiber_bounded_channel_send(chans[to], (void*)(intptr_t)(f + 1));
        break;
      }
      case 14: {  /* receive one message on the own channel (the main fiber keeps feeding it) */
        if (held[0] || held[1]) break;
        atomic_store(&receiving[f], 1);
        void* m = fiber_bounded_channel_receive(chans[f]);
        atomic_store(&receiving[f], 0);
        r = m ? 0 : 7;
        break;
      }
      case 11: {  /* create a detached child */
        fiber_t* c = fiber_create(20000, &child_prog, (void*)(intptr_t)a);
        fiber_detach(c);
        break;
      }
      default: break;
    }
    rt_event(1000 + f, K_RET, r ? r : k + 1);
  }
  for (int a = 0; a < 2; a++) if (held[a]) fiber_mutex_unlock(&mtx[a]);
  atomic_fetch_add(&nfinished, 1);
  return (void*)(intptr_t)(f + 1);
}

static void main_fiber(void) {
  int nf = cur->nthreads;
  fiber_t* fs[RT_MAX_THREADS];
  fiber_mutex_init(&mtx[0]); fiber_mutex_init(&mtx[1]);
  fiber_cond_init(&cond);
  fiber_semaphore_init(&sem, 0);
  fiber_rwlock_init(&rwl); rw_readers = 0; rw_writers = 0;
  fiber_barrier_init(&bar2, 2);
  pflag[0] = 0; pflag[1] = 0;
  for (int w = 0; w < 2; w++) { fiber_multi_signal_init(&msig[w]); ms_raised[w] = 0; ms_returned[w] = 0; ms_waiting[w] = 0; }
  for (int f = 0; f < nf; f++) { fiber_signal_init(&sigs[f]); chans[f] = fiber_bounded_channel_create(2, &sigs[f]); receiving[f] = 0; }
  /* optional 3rd parameter: the main fiber's FIRST blocking call is a sleep (1: before it creates the fibers, 2: right
   * after): the first time a kernel thread runs out of runnable fibers it creates its scheduler-loop fiber on the way */
  long first = cur->nparams > 2 ? cur->params[2] : 0;
  if (first == 1) usleep(1000);
  for (int f = 0; f < nf; f++) fs[f] = fiber_create(20000, &fiber_prog, (void*)(intptr_t)f);
  if (first == 2) usleep(6000);
  /* keep releasing condition waiters until every fiber has finished */
  while (atomic_load(&nfinished) < nf) {
    fiber_mutex_lock(&mtx[0]); flag = 1; fiber_cond_broadcast(&cond); fiber_mutex_unlock(&mtx[0]);
    t2_advance_ticks(1);
    t2_poll_from_fiber();
    for (int w = 0; w < 2; w++)
      if (atomic_load(&ms_waiting[w])) { atomic_fetch_add(&ms_raised[w], 1); fiber_multi_signal_raise(&msig[w]); }
    for (int f = 0; f < nf; f++)
      if (atomic_load(&receiving[f]) && chans[f]->high == chans[f]->low) fiber_bounded_channel_send(chans[f], (void*)(intptr_t)99);
    fiber_yield();
  }
  for (int f = 0; f < nf; f++) {
    void* res = NULL;
    int rc = fiber_join(fs[f], &res);
    rt_event(2000 + f, K_RET, rc == FIBER_SUCCESS ? (long)(intptr_t)res : -1);
  }
}

static void h_run_case(hcase_t* c) {
  cur = c;
  int dmax = (int)c->params[0];
  int nk = (int)c->params[1];
  if (nk < 1) nk = 1;
  if (nk > 8) nk = 8;
  flag = 0; cs_owner[0] = cs_owner[1] = 0; nfinished = 0;
  t2_run(nk, main_fiber, c->sched, c->nsched, dmax);
  rt_print_trace();
}
int main(void) { return h_main(); }
