/* Lock-step harness for the bounded channel of include/fiber_channel.h
 * (fiber_bounded_channel_send / _receive / _try_receive) with its ready
 * signal, on the T1 machine (C11).  Header-only code: compiled into this file.
 * Locations (coq/ChanK.v): 503 = signal.waiter; 515 = high; 519 = low;
 * 501+4i = buffer[i]; 502+4t = fiber t's scratch; 200+t = fiber t's state.
 * params: dmax, power_of_2_size.
 * Ops: (5, v) send message v (v > 0)    ret = send's return value
 *      (6,_) receive                     ret = message
 *      (8,_) try_receive                 ret = message, or 0 if none */
#include "harness.h"
#include "t1.h"
#include "fiber_channel.h"

static fiber_signal_t sig;
static fiber_bounded_channel_t* ch;
static hcase_t* cur;

static void prog(int t) {
  for (int k = 0; k < cur->nops[t]; k++) {
    long opc = cur->ops[t][k][0], a = cur->ops[t][k][1];
    long r = 0;
    if (opc == 5) {
      r = fiber_bounded_channel_send(ch, (void*)(uintptr_t)a);
    } else if (opc == 6) {
      r = (long)(uintptr_t)fiber_bounded_channel_receive(ch);
    } else {
      void* out = NULL;
      if (fiber_bounded_channel_try_receive(ch, &out)) r = (long)(uintptr_t)out;
    }
    rt_event(k + 1, K_RET, r);
  }
}

static void h_run_case(hcase_t* c) {
  cur = c;
  int dmax = (int)c->params[0];
  int p2 = (int)c->params[1];
  int n = c->nthreads;
  if (p2 < 1 || p2 > 5) { printf("-1\n"); return; }
  for (int t = 0; t < n; t++)
    for (int k = 0; k < c->nops[t]; k++)
      if (c->ops[t][k][0] == 5 && c->ops[t][k][1] <= 0) { printf("-1\n"); return; }
  t1_setup(n);
  fiber_signal_init(&sig);
  ch = fiber_bounded_channel_create(p2, &sig);
  for (int t = 0; t < n; t++) {
    fiber_t* f = t1_fiber_of(t);
    rt_reg((void*)&f->state, 4, 200 + t, 4);
    rt_reg((void*)&f->scratch, 8, 502 + 4 * t, 8);
    rt_name(f, sizeof *f, 1000 + t, sizeof *f);
  }
  rt_reg((void*)&sig.waiter, 8, 503, 8);
  rt_reg((void*)&ch->high, 8, 515, 8);
  rt_reg((void*)&ch->low, 8, 519, 8);
  rt_reg(ch->buffer, sizeof(void*) << p2, 501, 2);
  rt_reg_rest(&sig, sizeof sig, 13900);   /* search mode only: fields the model does not know */
  rt_reg_rest(ch, sizeof *ch + (sizeof(void*) << p2), 14900);
  t1_run(n, prog, c->sched, c->nsched, dmax);
  rt_print_trace();
}
int main(void) { return h_main(); }
