/* Lock-step harness for src/fiber_mutex.c on the T1 machine (C03). */
#include "harness.h"
#include "t1.h"
#include "fiber_mutex.h"

static fiber_mutex_t mtx;
static hcase_t* cur;
static volatile long shared_cell;   /* written inside the critical section */
#define NN 64
static mpsc_fifo_node_t nodes[NN];

static void prog(int t) {
  int held = 0;
  for (int k = 0; k < cur->nops[t]; k++) {
    long opc = cur->ops[t][k][0];
    long r;
    if (opc == 1) {            /* lock */
      if (held) { rt_event(k + 1, K_RET, 2); continue; }
      r = fiber_mutex_lock(&mtx); held = 1;
      shared_cell = t + 1;
    } else if (opc == 2) {     /* trylock */
      if (held) { rt_event(k + 1, K_RET, 2); continue; }
      r = fiber_mutex_trylock(&mtx); if (r == FIBER_SUCCESS) { held = 1; shared_cell = t + 1; }
    } else {                   /* unlock (only if held) */
      if (!held) { rt_event(k + 1, K_RET, 2); continue; }
      r = (shared_cell == t + 1) ? 1 : 7;   /* 7 = somebody else wrote while we held the lock */
      fiber_mutex_unlock(&mtx); held = 0;
    }
    rt_event(k + 1, K_RET, r);
  }
}

static void h_run_case(hcase_t* c) {
  cur = c;
  int dmax = (int)c->params[0];
  int n = c->nthreads;
  memset(nodes, 0, sizeof nodes);
  shared_cell = 0;
  t1_setup(n);
  /* the REAL fiber_mutex_init sets every field (also any a change adds); only the queue's stub node is replaced by
   * one from our array so that node addresses print as small ids */
  memset(&mtx, 0x5a, sizeof mtx);
  fiber_mutex_init(&mtx);
  free(mtx.waiters.head);
  mtx.waiters.head = &nodes[0]; mtx.waiters.tail = &nodes[0];
  for (int t = 0; t < n; t++) {
    fiber_t* f = t1_fiber_of(t);
    free(f->mpsc_fifo_node);
    f->mpsc_fifo_node = &nodes[1 + t];
    rt_reg((void*)&f->state, 4, 200 + t, 4);
    rt_name(f, sizeof *f, 1000 + t, sizeof *f);
  }
  rt_reg((void*)&mtx.counter, sizeof mtx.counter, 300, sizeof mtx.counter);
  rt_reg((void*)&mtx.waiters.head, 8, 301, 8);
  rt_reg((void*)&mtx.waiters.tail, 8, 302, 8);
  rt_reg((void*)&shared_cell, 8, 500, 8);
  rt_reg(nodes, sizeof nodes, 100, 8);
  rt_reg_rest(&mtx, sizeof mtx, 3900);   /* search mode only: fields the model does not know */
  rt_name(nodes, sizeof nodes, 1, sizeof nodes[0]);
  t1_run(n, prog, c->sched, c->nsched, dmax);
  rt_print_trace();
}
int main(void) { return h_main(); }
