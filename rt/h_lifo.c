/* Lock-step harness for include/mpmc_lifo.h (C20, model coq/Lifo.v).
 * params: [0] k = nodes initially owned by every thread (thread t owns the
 *             nodes with ids t*k+1 .. t*k+k, most recent first = smallest id),
 *         [1] initial value of the counter word, [2] drain budget.
 * locs:   0 = lifo.data.counter, 1 = lifo.data.head (the 16-byte DCAS cell),
 *         100 + 2*(id-1) = node.data, 101 + 2*(id-1) = node.next.
 * ops:    1 a = push the node at index (a mod #owned) of this thread's list of
 *               owned nodes (index 0 = most recently acquired); ret = node id,
 *               or 0 and no access at all if the thread owns no node;
 *         2   = pop; ret = node id or 0 (NULL); a popped node is put in front
 *               of the thread's list of owned nodes (so "pop; push 0" recycles
 *               the node at once);
 *         3   = drain: pop until NULL, one ret event per pop (same loc).
 * A thread only ever pushes a node it owns (node-ownership discipline). */
#include "harness.h"
#include "mpmc_lifo.h"

#define MAXN 8
static mpmc_lifo_t lifo;
static mpmc_lifo_node_t nodes[RT_MAX_THREADS * MAXN];
static hcase_t* cur;
static int kper;

static long idof(mpmc_lifo_node_t* n) { return n ? (long)(n - nodes) + 1 : 0; }

static void body(int t) {
  mpmc_lifo_node_t* own[RT_MAX_THREADS * MAXN + 1];
  int nown = 0;
  for (int j = 0; j < kper; j++) own[nown++] = &nodes[t * kper + j];
  for (int k = 0; k < cur->nops[t]; k++) {
    long opc = cur->ops[t][k][0], a = cur->ops[t][k][1];
    if (opc == 1) {
      if (nown == 0) { rt_event(k + 1, K_RET, 0); continue; }
      int i = (int)(a % nown);
      mpmc_lifo_node_t* n = own[i];
      mpmc_lifo_push(&lifo, n);
      for (int j = i; j + 1 < nown; j++) own[j] = own[j + 1];
      nown--;
      rt_event(k + 1, K_RET, idof(n));
    } else {
      for (;;) {
        mpmc_lifo_node_t* n = mpmc_lifo_pop(&lifo);
        if (n) {
          for (int j = nown; j > 0; j--) own[j] = own[j - 1];
          own[0] = n; nown++;
        }
        rt_event(k + 1, K_RET, idof(n));
        if (opc != 3 || !n) break;
      }
    }
  }
}

static void h_run_case(hcase_t* c) {
  cur = c;
  kper = (int)c->params[0]; long start = c->params[1]; int dmax = (int)c->params[2];
  if (kper < 0 || kper > MAXN) { printf("-1\n"); return; }
  mpmc_lifo_init(&lifo);
  lifo.data.counter = (uintptr_t)start;
  memset(nodes, 0, sizeof nodes);
  rt_reg((void*)&lifo, 16, 0, 8);
  rt_reg(nodes, sizeof nodes, 100, 8);
  rt_reg_rest(&lifo, sizeof lifo, 3900);   /* search mode only: fields the model does not know */
  rt_name(nodes, sizeof nodes, 1, sizeof nodes[0]);
  rt_run(c->nthreads, body, c->sched, c->nsched, dmax);
  rt_print_trace();
}
int main(void) { return h_main(); }
