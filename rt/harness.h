/* Shared harness plumbing: case parsing + one forked child per case. */
#ifndef VERIF_HARNESS_H
#define VERIF_HARNESS_H
#include <stdio.h>
#include <stdlib.h>
#include <string.h>
#include <signal.h>
#include <sys/wait.h>
#include <unistd.h>
#include "rt.h"

#define H_MAX_OPS 64
typedef struct {
  int nparams; long params[16];
  int nthreads; int nops[RT_MAX_THREADS]; long ops[RT_MAX_THREADS][H_MAX_OPS][2];
  int nsched; int* sched;
} hcase_t;

static int h_parse(char* line, hcase_t* c) {
  long* v = NULL; int n = 0, cap = 0; char* p = line; char* e;
  for (;;) {
    long x = strtol(p, &e, 10);
    if (e == p) break;
    if (n == cap) { cap = cap ? cap * 2 : 256; v = realloc(v, cap * sizeof(long)); }
    v[n++] = x; p = e;
  }
  int i = 0;
  if (n < 1) return 0;
  c->nparams = (int)v[i++];
  if (c->nparams < 0 || c->nparams > 16 || i + c->nparams >= n) return 0;
  for (int k = 0; k < c->nparams; k++) c->params[k] = v[i++];
  c->nthreads = (int)v[i++];
  if (c->nthreads < 0 || c->nthreads > RT_MAX_THREADS) return 0;
  for (int t = 0; t < c->nthreads; t++) {
    if (i >= n) return 0;
    c->nops[t] = (int)v[i++];
    if (c->nops[t] < 0 || c->nops[t] > H_MAX_OPS || i + 2 * c->nops[t] > n) return 0;
    for (int k = 0; k < c->nops[t]; k++) { c->ops[t][k][0] = v[i++]; c->ops[t][k][1] = v[i++]; }
  }
  if (i >= n) return 0;
  c->nsched = (int)v[i++];
  if (c->nsched < 0 || i + c->nsched > n) return 0;
  c->sched = malloc(sizeof(int) * (c->nsched + 1));
  for (int k = 0; k < c->nsched; k++) c->sched[k] = (int)v[i++];
  free(v);
  return 1;
}

/* a crash inside the code under test: print the trace gathered so far followed
 * by the marker event (-9 -9 -9 signal) so that monitors can still judge it */
static void h_crash_handler(int sig) {
  rt_event(-9, -1, sig);
  rt_print_trace_crash(sig);
  fflush(stdout);
  _exit(0);
}
static void h_install_crash_handler(void) {
  static char altstack[1 << 16];
  stack_t ss = {.ss_sp = altstack, .ss_size = sizeof altstack, .ss_flags = 0};
  sigaltstack(&ss, NULL);
  struct sigaction sa;
  memset(&sa, 0, sizeof sa);
  sa.sa_handler = h_crash_handler;
  sa.sa_flags = SA_ONSTACK | SA_NODEFER;
  sigaction(SIGSEGV, &sa, NULL);
  sigaction(SIGBUS, &sa, NULL);
  sigaction(SIGILL, &sa, NULL);
  sigaction(SIGABRT, &sa, NULL);
}

/* the harness defines this: set up objects, rt_reg them, rt_run, rt_print_trace */
static void h_run_case(hcase_t* c);

static int h_main(void) {
  char* line = NULL; size_t cap = 0; ssize_t len;
  while ((len = getline(&line, &cap, stdin)) > 0) {
    fflush(stdout);
    pid_t pid = fork();
    if (pid == 0) {
      static hcase_t c;
      if (!h_parse(line, &c)) { printf("-1\n"); fflush(stdout); _exit(0); }
      rt_reset();
      h_install_crash_handler();
      h_run_case(&c);
      fflush(stdout);
      _exit(0);
    }
    int status = 0;
    waitpid(pid, &status, 0);
    if (WIFSIGNALED(status)) { printf("CRASH %d\n", WTERMSIG(status)); }
    else if (WEXITSTATUS(status) != 0 && WEXITSTATUS(status) != 3) { printf("EXIT %d\n", WEXITSTATUS(status)); }
  }
  fflush(stdout);
  return 0;
}
#endif
