/* T2 adapter: the WHOLE real runtime (real context switch, run queues,
 * managers, primitives) with its kernel threads under the baton scheduler.
 * fiber_manager.c is compiled with -Dpthread_create=t2_pthread_create (the
 * kernel threads become baton participants) and fiber_event_native.c with
 * -Depoll_wait=t2_epoll_wait (an idle kernel thread's poll is a scheduling
 * point and never blocks).  The guarded protocol-event hooks of /repo name
 * fibers in creation order, register their state word and put the events
 * create/schedule/next/steal/switch/resumed/destroy into the trace. */
#ifndef _GNU_SOURCE
#define _GNU_SOURCE
#endif
#include "t2.h"

#include <pthread.h>
#include <stdio.h>
#include <stdlib.h>
#include <string.h>
#include <sys/epoll.h>
#include <sys/eventfd.h>
#include <sys/timerfd.h>
#include <sys/syscall.h>
#include <unistd.h>

/* this file is compiled with the same -Depoll_wait=t2_epoll_wait as the
 * sources under test: undo it here so that we reach the real call */
#undef epoll_wait
extern int epoll_wait(int epfd, struct epoll_event* events, int maxevents, int timeout);

static __thread int t2_fiber_poll;
void t2_advance_ticks(unsigned k);
static void* (*t2_thread_func)(void*);
static void* t2_thread_arg[RT_MAX_THREADS];
static int t2_nthreads;
static void (*t2_main)(void);
static int t2_nfibers;
static volatile int t2_init_done;

int t2_pthread_create(pthread_t* th, const pthread_attr_t* attr, void* (*fn)(void*), void* arg) {
  (void)attr;
  static int next = 1;
  if (next >= RT_MAX_THREADS) return 1;
  memset(th, 0, sizeof *th);
  t2_thread_func = fn;
  t2_thread_arg[next++] = arg;
  return 0;
}

int t2_epoll_wait(int epfd, struct epoll_event* events, int maxevents, int timeout) {
  (void)timeout;
  rt_point(T2_LOC_POLL, K_RELAX, t2_fiber_poll ? 4 : 0);   /* 4: polled from a fiber, the thread is not idle */
  if (!t2_fiber_poll) t2_advance_ticks(1);   /* an idle scheduler loop lets virtual time pass */
  /* never blocks; the timer is a harness-driven eventfd (below) and the only descriptors are local
   * socket pairs, so what the kernel reports is a function of what the program did: deterministic */
  return epoll_wait(epfd, events, maxevents, 0);
}

/* virtual time: fiber_event_native.c is compiled with -Dtimerfd_create=t2_timerfd_create
 * -Dtimerfd_settime=t2_timerfd_settime; the "timer" is an eventfd whose counter the program advances */
static int t2_timer_fd = -1;
int t2_timerfd_create(int clockid, int flags) {
  (void)clockid; (void)flags;
  t2_timer_fd = eventfd(0, EFD_NONBLOCK);
  return t2_timer_fd;
}
int t2_timerfd_settime(int fd, int flags, const struct itimerspec* nv, struct itimerspec* ov) {
  (void)fd; (void)flags; (void)nv; (void)ov;
  return 0;
}
void t2_advance_ticks(unsigned k) {
  uint64_t v = k;
  if (t2_timer_fd >= 0 && k) { long r = syscall(SYS_write, t2_timer_fd, &v, sizeof v); (void)r; }
}

/* poll for events from the calling fiber (a fiber that busy-yields keeps its thread's scheduler loop, the only
 * other poller, from running) */
void t2_poll_from_fiber(void) {
  t2_fiber_poll = 1;
  fiber_poll_events();
  t2_fiber_poll = 0;
}

static void reg_manager(fiber_manager_t* m, int t) {
  long base = 400 + 20 * t;
  /* the periodic load balance of fiber_manager_yield happens every 1024 yields: start just below the
   * period so that short runs exercise it too (the value itself is a statistics counter) */
  m->yield_count = 1021 - t;
  rt_reg((void*)&m->current_fiber, 8, base + 0, 8);
  rt_reg((void*)&m->old_fiber, 8, base + 1, 8);
  rt_reg((void*)&m->to_schedule, 8, base + 2, 8);
  rt_reg((void*)&m->mutex_to_unlock, 8, base + 3, 8);
  rt_reg((void*)&m->spinlock_to_unlock, 8, base + 4, 8);
  rt_reg((void*)&m->set_wait_location, 8, base + 5, 8);
  rt_reg((void*)&m->done_fiber, 8, base + 6, 8);
  rt_reg((void*)&m->maintenance_fiber, 8, base + 7, 8);
  rt_reg((void*)&m->yield_count, sizeof m->yield_count, base + 8, 8);   /* one write per fiber_manager_yield: the fairness oracle counts them */
}

/* protocol events (override of the weak defaults in rt.c) */
void verif_event(int kind, const volatile void* a, const volatile void* b) {
  if (kind == 7 || kind == 8) {
    fiber_t* f = (fiber_t*)a;
    int k = t2_nfibers++;
    rt_name(f, sizeof *f, 1000 + k, sizeof *f);
    rt_reg((void*)&f->state, 4, 200 + k, 4);
  }
  if (kind == 1 || kind == 2 || kind == 3) {       /* schedule / next / steal: (scheduler, fiber) */
    /* a run queue has ONE owner (push/pop): a schedule or next on a scheduler that is not the calling kernel thread's
     * is reported (959); steals are the only legitimate foreign access */
    fiber_manager_t* me = fiber_manager_get();
    if (kind != 3 && me && (const volatile void*)me->scheduler != a)
      rt_event(959, K_EV, rt_canon((uint64_t)(uintptr_t)b));
    rt_event(950 + kind, K_EV, rt_canon((uint64_t)(uintptr_t)b));
  } else if (kind == 4) {                          /* switch old -> new */
    rt_event(954, K_EV, rt_canon((uint64_t)(uintptr_t)a));
    rt_event(964, K_EV, rt_canon((uint64_t)(uintptr_t)b));
  } else {
    rt_event(950 + kind, K_EV, rt_canon((uint64_t)(uintptr_t)a));
  }
}
int verif_quarantine(void* block) { (void)block; return 1; }
/* spin-wait iterations (spinlocks, signal raisers, ...) are scheduling points in T2 */
void verif_relax(void) { rt_point(T2_LOC_RELAX, K_RELAX, 0); }

static void t2_body(int t) {
  if (t == 0) {
    if (fiber_manager_init(t2_nthreads) != FIBER_SUCCESS) { fprintf(stderr, "t2: init failed\n"); _exit(5); }
    reg_manager(fiber_manager_get(), 0);
    for (int i = 1; i < t2_nthreads; i++) reg_manager((fiber_manager_t*)t2_thread_arg[i], i);
    t2_init_done = 1;
    t2_main();
    /* the main fiber may have migrated to another kernel thread: never return
     * into rt's thread frame from here; tell the controller and park */
    rt_event(T2_LOC_POLL, K_EV, 3);
    rt_stop_now = 1;
    for (;;) rt_point(T2_LOC_POLL, K_RELAX, 2);
  } else {
    while (!t2_init_done) rt_point(T2_LOC_POLL, K_RELAX, 1);   /* the runtime is still initialising */
    t2_thread_func(t2_thread_arg[t]);
  }
}

int t2_run(int nthreads, void (*main_fiber)(void), const int* sched, int nsched, int drain_max) {
  t2_nthreads = nthreads;
  t2_main = main_fiber;
  rt_stop_now = 0;
  return rt_run(nthreads, t2_body, sched, nsched, drain_max);
}
