/* Lock-step harness for include/mpsc_fifo.h (C15, strict MPSC queue).
 * locs: 1 = fifo.head, 2 = fifo.tail, node id n (= index+1): data = 98+2n,
 * next = 99+2n.  Pointer values print as node ids (0 = NULL); node 1 is the
 * initial stub (set up by hand exactly as mpsc_fifo_init does, but taken from
 * the static array instead of calloc so that it has a name).
 * ops: (1, n*1000+v) push node n carrying data v      (2, _) trypop
 *      (3, v) push the node returned by my last successful trypop, data v
 * The writes of node->data before a push and the read of the returned node's
 * data after a pop are harness accesses to registered memory: they are
 * scheduling points and trace lines like any other access. */
#include "harness.h"
#include "mpsc_fifo.h"

#define NN 1100
static mpsc_fifo_node_t nodes[NN];
static mpsc_fifo_t fifo;
static hcase_t* cur;
static volatile long sink;

static void body(int t) {
  mpsc_fifo_node_t* last = NULL;
  for (int k = 0; k < cur->nops[t]; k++) {
    long opc = cur->ops[t][k][0], a = cur->ops[t][k][1];
    if (opc == 1) {
      mpsc_fifo_node_t* n = &nodes[a / 1000 - 1];
      n->data = (void*)(uintptr_t)(a % 1000);
      mpsc_fifo_push(&fifo, n);
      rt_event(k + 1, K_RET, a / 1000);
    } else if (opc == 3) {
      if (!last) {
        rt_point(0, K_RELAX, 0);
        rt_event(k + 1, K_RET, 0);
      } else {
        mpsc_fifo_node_t* n = last;
        last = NULL;
        n->data = (void*)(uintptr_t)a;
        mpsc_fifo_push(&fifo, n);
        rt_event(k + 1, K_RET, rt_canon((uint64_t)(uintptr_t)n));
      }
    } else {
      mpsc_fifo_node_t* r = mpsc_fifo_trypop(&fifo);
      if (r) {
        sink = (long)(uintptr_t)r->data; /* the consumer uses the item */
        last = r;
        rt_event(k + 1, K_RET, rt_canon((uint64_t)(uintptr_t)r));
      } else {
        rt_event(k + 1, K_RET, 0);
      }
    }
  }
}

static void h_run_case(hcase_t* c) {
  cur = c;
  int dmax = (int)c->params[0];
  for (int t = 0; t < c->nthreads; t++)
    for (int k = 0; k < c->nops[t]; k++)
      if (c->ops[t][k][0] == 1) {
        long n = c->ops[t][k][1] / 1000;
        if (n < 1 || n > NN) { printf("-1\n"); return; }
      }
  memset(nodes, 0, sizeof nodes);
  /* mpsc_fifo_init: tail = zeroed stub; head = tail */
  fifo.tail = &nodes[0];
  fifo.head = &nodes[0];
  rt_reg((void*)&fifo.head, sizeof fifo.head, 1, 8);
  rt_reg((void*)&fifo.tail, sizeof fifo.tail, 2, 8);
  rt_reg(nodes, sizeof nodes, 100, 8);
  rt_reg_rest(&fifo, sizeof fifo, 3900);   /* search mode only: fields the model does not know */
  rt_name(nodes, sizeof nodes, 1, sizeof(mpsc_fifo_node_t));
  rt_run(c->nthreads, body, c->sched, c->nsched, dmax);
  rt_print_trace();
}
int main(void) { return h_main(); }
