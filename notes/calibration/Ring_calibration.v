From Coq Require Import Arith Lia List Bool PeanoNat.
Import ListNotations.

(* calibration: lock-free ring buffer, unbounded threads, no counter wrap *)
Definition val := nat.

Inductive pcT := Idle | PLow | PHigh | PSlot | PCas | PWrite | QHigh | QLow | QSlot | QCas | QClear.

Record tst := { pc : pcT; lo : nat; hi : nat; arg : val; rd : option val }.

Record st := { high : nat; low : nat; size : nat; buf : nat -> option val;
               vals : nat -> val; thr : nat -> tst }.

Definition upd {A} (f : nat -> A) (k : nat) (x : A) : nat -> A :=
  fun j => if Nat.eqb j k then x else f j.

Lemma upd_same {A} (f : nat -> A) k x : upd f k x k = x.
Proof. unfold upd. now rewrite Nat.eqb_refl. Qed.
Lemma upd_other {A} (f : nat -> A) k x j : j <> k -> upd f k x j = f j.
Proof. unfold upd. intros H. destruct (Nat.eqb_spec j k); congruence. Qed.

Inductive choice := CPush (v : val) | CPop.

Definition set_thr (s : st) (t : nat) (x : tst) : st :=
  {| high := high s; low := low s; size := size s; buf := buf s; vals := vals s; thr := upd (thr s) t x |}.

Definition step (s : st) (t : nat) (c : choice) : st :=
  let T := thr s t in
  match pc T with
  | Idle => match c with
            | CPush v => set_thr s t {| pc := PLow; lo := 0; hi := 0; arg := v; rd := None |}
            | CPop => set_thr s t {| pc := QHigh; lo := 0; hi := 0; arg := 0; rd := None |}
            end
  | PLow => set_thr s t {| pc := PHigh; lo := low s; hi := hi T; arg := arg T; rd := rd T |}
  | PHigh => set_thr s t {| pc := PSlot; lo := lo T; hi := high s; arg := arg T; rd := rd T |}
  | PSlot => match buf s (hi T mod size s) with
             | None => if hi T - lo T <? size s
                       then set_thr s t {| pc := PCas; lo := lo T; hi := hi T; arg := arg T; rd := rd T |}
                       else set_thr s t {| pc := Idle; lo := lo T; hi := hi T; arg := arg T; rd := rd T |}
             | Some _ => set_thr s t {| pc := Idle; lo := lo T; hi := hi T; arg := arg T; rd := rd T |}
             end
  | PCas => if high s =? hi T
            then {| high := S (high s); low := low s; size := size s; buf := buf s;
                    vals := upd (vals s) (hi T) (arg T);
                    thr := upd (thr s) t {| pc := PWrite; lo := lo T; hi := hi T; arg := arg T; rd := rd T |} |}
            else set_thr s t {| pc := Idle; lo := lo T; hi := hi T; arg := arg T; rd := rd T |}
  | PWrite => {| high := high s; low := low s; size := size s;
                 buf := upd (buf s) (hi T mod size s) (Some (arg T));
                 vals := vals s;
                 thr := upd (thr s) t {| pc := Idle; lo := lo T; hi := hi T; arg := arg T; rd := rd T |} |}
  | QHigh => set_thr s t {| pc := QLow; lo := lo T; hi := high s; arg := arg T; rd := rd T |}
  | QLow => set_thr s t {| pc := QSlot; lo := low s; hi := hi T; arg := arg T; rd := rd T |}
  | QSlot => match buf s (lo T mod size s) with
             | Some v => if lo T <? hi T
                         then set_thr s t {| pc := QCas; lo := lo T; hi := hi T; arg := arg T; rd := Some v |}
                         else set_thr s t {| pc := Idle; lo := lo T; hi := hi T; arg := arg T; rd := None |}
             | None => set_thr s t {| pc := Idle; lo := lo T; hi := hi T; arg := arg T; rd := None |}
             end
  | QCas => if low s =? lo T
            then {| high := high s; low := S (low s); size := size s; buf := buf s; vals := vals s;
                    thr := upd (thr s) t {| pc := QClear; lo := lo T; hi := hi T; arg := arg T; rd := rd T |} |}
            else set_thr s t {| pc := Idle; lo := lo T; hi := hi T; arg := arg T; rd := None |}
  | QClear => {| high := high s; low := low s; size := size s;
                 buf := upd (buf s) (lo T mod size s) None;
                 vals := vals s;
                 thr := upd (thr s) t {| pc := Idle; lo := lo T; hi := hi T; arg := arg T; rd := rd T |} |}
  end.

Definition init (n : nat) : st :=
  {| high := 0; low := 0; size := n; buf := fun _ => None; vals := fun _ => 0;
     thr := fun _ => {| pc := Idle; lo := 0; hi := 0; arg := 0; rd := None |} |}.

Inductive reachable (n : nat) : st -> Prop :=
| r_init : reachable n (init n)
| r_step s t c : reachable n s -> reachable n (step s t c).

(* who owns residue r: the unique index i = r (mod size) with high - size <= i < high *)
Definition writing (s : st) (i : nat) := exists t, pc (thr s t) = PWrite /\ hi (thr s t) = i.
Definition clearing (s : st) (i : nat) := exists t, pc (thr s t) = QClear /\ lo (thr s t) = i.

Definition local_ok (s : st) (T : tst) : Prop :=
  match pc T with
  | PWrite => low s <= hi T < high s /\ vals s (hi T) = arg T
  | QClear => lo T < low s /\ high s <= lo T + size s /\ rd T = Some (vals s (lo T))
  | PCas => lo T <= low s /\ hi T <= high s /\ hi T < lo T + size s /\
            (high s = hi T -> buf s (hi T mod size s) = None)
  | PSlot => lo T <= low s /\ hi T <= high s
  | PHigh => lo T <= low s
  | QCas => lo T <= low s /\ lo T < hi T /\ hi T <= high s /\
            (low s = lo T -> rd T = Some (vals s (lo T)) /\ ~ writing s (lo T))
  | QSlot => lo T <= low s /\ hi T <= high s
  | QLow => hi T <= high s
  | _ => True
  end.

Record Inv (s : st) : Prop := {
  i_size : 0 < size s;
  i_ord : low s <= high s <= low s + size s;
  i_loc : forall t, local_ok s (thr s t);
  i_pw_uni : forall t u, pc (thr s t) = PWrite -> pc (thr s u) = PWrite -> hi (thr s t) = hi (thr s u) -> t = u;
  i_qc_uni : forall t u, pc (thr s t) = QClear -> pc (thr s u) = QClear -> lo (thr s t) = lo (thr s u) -> t = u;
  i_live : forall i, low s <= i < high s ->
             (writing s i /\ buf s (i mod size s) = None) \/
             (~ writing s i /\ buf s (i mod size s) = Some (vals s i));
  i_old : forall i, i < low s -> high s <= i + size s ->
             (clearing s i /\ buf s (i mod size s) = Some (vals s i)) \/
             (~ clearing s i /\ buf s (i mod size s) = None);
  i_free : forall i, high s <= i < low s + size s -> i < size s -> buf s (i mod size s) = None
}.

Lemma mod_inj n a b : 0 < n -> a mod n = b mod n -> a <= b < a + n -> a = b.
Proof.
  intros Hn He Hr.
  assert (Ha := Nat.div_mod a n ltac:(lia)). assert (Hb := Nat.div_mod b n ltac:(lia)).
  assert (Hma := Nat.mod_upper_bound a n ltac:(lia)). assert (Hmb := Nat.mod_upper_bound b n ltac:(lia)).
  rewrite He in Ha.
  assert (a / n = b / n) by nia. nia.
Qed.

Lemma mod_neq n a b : 0 < n -> a < b < a + n -> a mod n <> b mod n.
Proof. intros Hn Hr He. apply mod_inj in He; lia. Qed.

Lemma init_inv n : 0 < n -> Inv (init n).
Proof.
  intros Hn. constructor; cbn; try (intros; discriminate); try lia; intros; try lia; auto; try exact I.
Qed.

Ltac thr_cases u t :=
  destruct (Nat.eq_dec u t) as [->|?];
  [ rewrite ?upd_same in * | rewrite ?(upd_other _ t _ u) in * by assumption ].

Lemma writing_local s t x i :
  pc (thr s t) <> PWrite -> pc x <> PWrite -> (writing (set_thr s t x) i <-> writing s i).
Proof.
  intros H1 H2; unfold writing; cbn; split; intros [u [Hp Hh]]; exists u;
    destruct (Nat.eq_dec u t) as [->|Hne];
    rewrite ?upd_same, ?(upd_other _ t _ u) in * by assumption; try tauto; congruence.
Qed.

Lemma clearing_local s t x i :
  pc (thr s t) <> QClear -> pc x <> QClear -> (clearing (set_thr s t x) i <-> clearing s i).
Proof.
  intros H1 H2; unfold clearing; cbn; split; intros [u [Hp Hh]]; exists u;
    destruct (Nat.eq_dec u t) as [->|Hne];
    rewrite ?upd_same, ?(upd_other _ t _ u) in * by assumption; try tauto; congruence.
Qed.

Lemma local_ok_local s t x T :
  pc (thr s t) <> PWrite -> pc x <> PWrite -> (local_ok (set_thr s t x) T <-> local_ok s T).
Proof.
  intros H1 H2. unfold local_ok. destruct (pc T); cbn; try tauto.
  rewrite (writing_local s t x (lo T) H1 H2). tauto.
Qed.

Lemma local_step s t x :
  Inv s -> pc (thr s t) <> PWrite -> pc (thr s t) <> QClear ->
  pc x <> PWrite -> pc x <> QClear -> local_ok s x -> Inv (set_thr s t x).
Proof.
  intros I A1 A2 B1 B2 L. destruct I as [Is Io Il Ipw Iqc Ilive Iold Ifree].
  constructor; cbn [high low size buf vals thr set_thr]; auto.
  - intros u. apply local_ok_local; auto. cbn. thr_cases u t; auto.
  - intros u v. thr_cases u t; thr_cases v t; intros; try congruence; auto.
  - intros u v. thr_cases u t; thr_cases v t; intros; try congruence; auto.
  - intros i Hi. specialize (Ilive i Hi). rewrite (writing_local s t x i A1 B1). exact Ilive.
  - intros i H1 H2. specialize (Iold i H1 H2). rewrite (clearing_local s t x i A2 B2). exact Iold.
Qed.

Lemma add_size_mod a n : 0 < n -> (a + n) mod n = a mod n.
Proof. intros. rewrite <- (Nat.mul_1_l n) at 1. rewrite Nat.mod_add; lia. Qed.

(* writing / clearing only depend on thr *)
Lemma writing_ext s s' i : thr s = thr s' -> writing s i <-> writing s' i.
Proof. unfold writing. intros ->. tauto. Qed.

Lemma writing_upd s s' t x i :
  thr s' = upd (thr s) t x ->
  (writing s' i <-> (exists u, u <> t /\ pc (thr s u) = PWrite /\ hi (thr s u) = i) \/ (pc x = PWrite /\ hi x = i)).
Proof.
  intros E. unfold writing. rewrite E. split.
  - intros [u [Hp Hh]]. destruct (Nat.eq_dec u t) as [->|Hne].
    + rewrite upd_same in *. right; auto.
    + rewrite upd_other in * by assumption. left; exists u; auto.
  - intros [[u [Hne [Hp Hh]]]|[Hp Hh]].
    + exists u. rewrite upd_other by assumption; auto.
    + exists t. rewrite upd_same; auto.
Qed.

Lemma clearing_upd s s' t x i :
  thr s' = upd (thr s) t x ->
  (clearing s' i <-> (exists u, u <> t /\ pc (thr s u) = QClear /\ lo (thr s u) = i) \/ (pc x = QClear /\ lo x = i)).
Proof.
  intros E. unfold clearing. rewrite E. split.
  - intros [u [Hp Hh]]. destruct (Nat.eq_dec u t) as [->|Hne].
    + rewrite upd_same in *. right; auto.
    + rewrite upd_other in * by assumption. left; exists u; auto.
  - intros [[u [Hne [Hp Hh]]]|[Hp Hh]].
    + exists u. rewrite upd_other by assumption; auto.
    + exists t. rewrite upd_same; auto.
Qed.

Lemma writing_old s t i : (exists u, u <> t /\ pc (thr s u) = PWrite /\ hi (thr s u) = i) -> writing s i.
Proof. intros [u [_ H]]. exists u; auto. Qed.
Lemma clearing_old s t i : (exists u, u <> t /\ pc (thr s u) = QClear /\ lo (thr s u) = i) -> clearing s i.
Proof. intros [u [_ H]]. exists u; auto. Qed.

(* (1) successful CAS on high *)
Lemma pcas_inv s t :
  Inv s -> pc (thr s t) = PCas -> high s = hi (thr s t) ->
  Inv {| high := S (high s); low := low s; size := size s; buf := buf s;
         vals := upd (vals s) (hi (thr s t)) (arg (thr s t));
         thr := upd (thr s) t {| pc := PWrite; lo := lo (thr s t); hi := hi (thr s t); arg := arg (thr s t); rd := rd (thr s t) |} |}.
Proof.
  intros I Hpc Hh. destruct I as [Is Io Il Ipw Iqc Ilive Iold Ifree].
  set (T := thr s t) in *.
  assert (LT := Il t). fold T in LT. unfold local_ok in LT. rewrite Hpc in LT.
  destruct LT as (L1 & L2 & L3 & L4). specialize (L4 Hh).
  set (s' := {| high := S (high s) |}).
  assert (Ethr : thr s' = upd (thr s) t {| pc := PWrite; lo := lo T; hi := hi T; arg := arg T; rd := rd T |}) by reflexivity.
  assert (NoClr : forall u, pc (thr s u) = QClear -> lo (thr s u) + size s <> high s).
  { intros u Hu E. assert (Lu := Il u). unfold local_ok in Lu. rewrite Hu in Lu. destruct Lu as (A & B & C).
    destruct (Iold (lo (thr s u)) A ltac:(lia)) as [[_ Hb]|[Hn _]].
    - rewrite <- Hh, <- E, add_size_mod in L4 by lia. congruence.
    - apply Hn. exists u; auto. }
  constructor; cbn [high low size buf vals thr s']; auto; try lia.
  - intros u. destruct (Nat.eq_dec u t) as [->|Hne].
    + rewrite upd_same. unfold local_ok; cbn. rewrite upd_same. lia.
    + rewrite upd_other by assumption. assert (Lu := Il u). unfold local_ok in *.
      destruct (pc (thr s u)) eqn:Hu; cbn [high low size buf vals thr s']; auto; try lia.
      * rewrite upd_other by lia. lia.
      * destruct Lu as (A & B & C & D). split; [lia|split; [lia|split; [lia|]]]. intros E. specialize (D E). destruct D as [D1 D2].
        split. { rewrite upd_other by lia. exact D1. }
        intros W. apply (writing_upd s s' t _ _ Ethr) in W. destruct W as [W|[_ W]]; cbn in W; [apply D2; eapply writing_old; eauto | lia].
      * destruct Lu as (A & B & C). specialize (NoClr u Hu). repeat split; try lia. rewrite upd_other by lia. exact C.
  - intros u v. destruct (Nat.eq_dec u t) as [->|Hu]; destruct (Nat.eq_dec v t) as [->|Hv];
      rewrite ?upd_same, ?(upd_other _ t _ u), ?(upd_other _ t _ v) by assumption; cbn; auto.
    + intros _ Hv' E. assert (Lv := Il v). unfold local_ok in Lv. rewrite Hv' in Lv. lia.
    + intros Hu' _ E. assert (Lu := Il u). unfold local_ok in Lu. rewrite Hu' in Lu. lia.
  - intros u v. destruct (Nat.eq_dec u t) as [->|Hu]; destruct (Nat.eq_dec v t) as [->|Hv];
      rewrite ?upd_same, ?(upd_other _ t _ u), ?(upd_other _ t _ v) by assumption; cbn; auto; try discriminate.
  - intros i Hi. destruct (Nat.eq_dec i (hi T)) as [->|Hne].
    + left. split; [|exact L4]. apply (writing_upd s s' t _ _ Ethr). right; cbn; auto.
    + rewrite upd_other by assumption. destruct (Ilive i ltac:(lia)) as [[W B]|[W B]]; [left|right]; split; auto.
      * destruct W as [u [Hp Hhi]]. apply (writing_upd s s' t _ _ Ethr). left. exists u. repeat split; auto. intros ->. fold T in Hp. congruence.
      * intros W'. apply (writing_upd s s' t _ _ Ethr) in W'. destruct W' as [W'|[_ W']]; cbn in W'; [apply W; eapply writing_old; eauto| congruence].
  - intros i H1 H2. rewrite upd_other by lia. destruct (Iold i H1 ltac:(lia)) as [[C B]|[C B]]; [left|right]; split; auto.
    + destruct C as [u [Hp Hl]]. apply (clearing_upd s s' t _ _ Ethr). left. exists u; repeat split; auto. intros ->. fold T in Hp. congruence.
    + intros C'. apply (clearing_upd s s' t _ _ Ethr) in C'. destruct C' as [C'|[C' _]]; cbn in C'; [apply C; eapply clearing_old; eauto| discriminate].
  - intros i H1 H2. apply Ifree; lia.
Qed.
