#include "fiber_manager.h"
#include <stdio.h>
#include <stdlib.h>
#include <unistd.h>
#include <time.h>
#define NF 400
volatile long wakes;
static void clobber(int d){ volatile char buf[256]; for(int i=0;i<256;i++) buf[i]=(char)0x41; if(d>0) clobber(d-1); }
void* f(void* p){ for(int k=0;k<30;k++){ struct timespec a,b; clock_gettime(CLOCK_MONOTONIC,&a); usleep(1000); clock_gettime(CLOCK_MONOTONIC,&b);
   long us=(b.tv_sec-a.tv_sec)*1000000+(b.tv_nsec-a.tv_nsec)/1000; if(us<1000){printf("EARLY %ld\n",us);exit(2);} clobber(3); __sync_fetch_and_add(&wakes,1);} return 0;}
int main(){ fiber_manager_init(4); fiber_t* fs[NF];
 for(long i=0;i<NF;i++) fs[i]=fiber_create(40000,f,(void*)i);
 for(long i=0;i<NF;i++) fiber_join(fs[i],0); printf("ok wakes=%ld\n",wakes); return 0;}
