#include "fiber_manager.h"
#include <stdio.h>
#include <unistd.h>
#include <time.h>
static long now_us(){ struct timespec a; clock_gettime(CLOCK_MONOTONIC,&a); return a.tv_sec*1000000L+a.tv_nsec/1000; }
int main(){ fiber_manager_init(1);
 usleep(1000); /* make sure event system is live */
 long t0=now_us(); while(now_us()-t0<100000){} /* 100 ms of computation, no polling */
 long a=now_us(); usleep(10000); long b=now_us();
 printf("requested 10000us slept %ldus\n", b-a); return 0;}
