#include "fiber_manager.h"
#include "fiber_multi_channel.h"
#include <stdio.h>
#include <stdlib.h>
#include <unistd.h>
fiber_multi_channel_t* ch; volatile long sent, recvd;
void* snd(void* p){ long n=(long)p; for(long i=0;i<n;i++){ fiber_multi_channel_send(ch,(void*)1); __sync_fetch_and_add(&sent,1);} return 0;}
void* rcv(void* p){ long n=(long)p; for(long i=0;i<n;i++){ fiber_multi_channel_receive(ch); __sync_fetch_and_add(&recvd,1);} return 0;}
int main(int argc,char**argv){ int nt=argc>1?atoi(argv[1]):1; fiber_manager_init(nt);
 for(int round=0;round<20000;round++){ ch=fiber_multi_channel_create(1); sent=recvd=0;
  fiber_t* f[5]; f[0]=fiber_create(20000,snd,(void*)2); f[1]=fiber_create(20000,snd,(void*)2); f[2]=fiber_create(20000,snd,(void*)2);
  f[3]=fiber_create(20000,rcv,(void*)3); f[4]=fiber_create(20000,rcv,(void*)3);
  alarm(5);
  for(int i=0;i<5;i++) fiber_join(f[i],0);
  alarm(0); fiber_multi_channel_destroy(ch);
 }
 printf("ok\n"); return 0;}
