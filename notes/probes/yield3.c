#include "fiber_manager.h"
#include <stdio.h>
volatile long cnt[3]; volatile int stop;
void* f(void* p){ long i=(long)p; while(!stop){ cnt[i]++; if(cnt[i]>200000) stop=1; fiber_yield(); } return 0; }
int main(){ fiber_manager_init(1);
 fiber_t* a=fiber_create(20000,f,(void*)0); fiber_t* b=fiber_create(20000,f,(void*)1); fiber_t* c=fiber_create(20000,f,(void*)2);
 fiber_join(a,0);fiber_join(b,0);fiber_join(c,0);
 printf("%ld %ld %ld\n",cnt[0],cnt[1],cnt[2]); return 0;}
