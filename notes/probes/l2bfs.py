# Tiny explicit-state explorer for abstract L2 models (design-time sanity check, not part of the framework)
import sys
from collections import deque
def freeze(x):
    if isinstance(x, dict): return tuple(sorted((k, freeze(v)) for k, v in x.items()))
    if isinstance(x, list): return tuple(freeze(v) for v in x)
    return x
def explore(init, nthreads, step, check, quiescent_check, limit=3_000_000):
    import copy
    seen = {freeze(init)}; q = deque([(init, ())]); n = 0
    while q:
        st, path = q.popleft(); n += 1
        if n > limit: return ('limit', n)
        bad = check(st)
        if bad: return (bad, path, st)
        any_en = False
        for t in range(nthreads):
            ns = copy.deepcopy(st)
            r = step(ns, t)
            if r is None: continue
            any_en = True if r != 'spin' else any_en
            fz = freeze(ns)
            if fz not in seen: seen.add(fz); q.append((ns, path + (t,)))
        if not any_en:
            bad = quiescent_check(st)
            if bad: return (bad, path, st)
    return ('ok', n)

# ---------- MPSC helper ----------
def q_push1(q, t): q.append([t, 0])
def q_push2(q, t):
    for e in q:
        if e[0] == t and e[1] == 0: e[1] = 1; return
def q_pop(q):
    if q and q[0][1] == 1: return q.pop(0)[0]
    return None

# ---------- RWLOCK ----------
def rw_model(progs):
    n = len(progs)
    init = {'wl':0,'rc':0,'wr':0,'ww':0,'rq':[],'wq':[],'woken':[0]*n,
            'pc':['idle']*n,'ip':[0]*n,'snap':[None]*n,'need':[0]*n,'inR':[0]*n,'inW':[0]*n}
    def snap(s): return (s['wl'],s['rc'],s['wr'],s['ww'])
    def step(s,t):
        pc=s['pc'][t]
        if pc=='idle':
            if s['ip'][t]>=len(progs[t]): return None
            op=progs[t][s['ip'][t]]; s['pc'][t]=op+'_read'; return 1
        op,ph=pc.rsplit('_',1)
        if ph=='read': s['snap'][t]=snap(s); s['pc'][t]=op+'_cas'; return 1
        if ph=='cas':
            wl,rc,wr,ww=s['snap'][t]
            ok = s['snap'][t]==snap(s)
            def fail(): s['pc'][t]=op+'_read'
            def done(): s['pc'][t]='idle'; s['ip'][t]+=1
            if op=='rd':
                if ww or wl or wr:
                    if not ok: fail(); return 1
                    s['wr']+=1; s['pc'][t]='rd_p1'; return 1
                if not ok: fail(); return 1
                s['rc']+=1; s['inR'][t]=1; done(); return 1
            if op=='wr':
                if (wl,rc,wr,ww)!=(0,0,0,0):
                    if not ok: fail(); return 1
                    s['ww']+=1; s['pc'][t]='wr_p1'; return 1
                if not ok: fail(); return 1
                s['wl']=1; s['inW'][t]=1; done(); return 1
            if op=='tryrd':
                if ww or wl or wr: done(); return 1
                if not ok: fail(); return 1
                s['rc']+=1; s['inR'][t]=1; done(); return 1
            if op=='trywr':
                if (wl,rc,wr,ww)!=(0,0,0,0): done(); return 1
                if not ok: fail(); return 1
                s['wl']=1; s['inW'][t]=1; done(); return 1
            if op=='rdun':
                rc2=rc-1
                if rc2==0 and ww:
                    if not ok: fail(); return 1
                    s['rc']=0; s['wl']=1; s['ww']-=1; s['inR'][t]=0; s['need'][t]=1; s['pc'][t]='rdun_wakeW'; return 1
                if rc2==0 and wr:
                    if not ok: fail(); return 1
                    s['rc']=wr; s['wr']=0; s['inR'][t]=0; s['need'][t]=wr; s['pc'][t]='rdun_wakeR'; return 1
                if not ok: fail(); return 1
                s['rc']=rc2; s['inR'][t]=0; done(); return 1
            if op=='wrun':
                if ww:
                    if not ok: fail(); return 1
                    s['ww']-=1; s['inW'][t]=0; s['need'][t]=1; s['pc'][t]='wrun_wakeW'; return 1   # wl stays 1
                if wr:
                    if not ok: fail(); return 1
                    s['wl']=0; s['rc']=wr; s['wr']=0; s['inW'][t]=0; s['need'][t]=wr; s['pc'][t]='wrun_wakeR'; return 1
                if not ok: fail(); return 1
                s['wl']=0; s['inW'][t]=0; done(); return 1
        if ph=='p1':
            q_push1(s['rq'] if op=='rd' else s['wq'], t); s['pc'][t]=op+'_p2'; return 1
        if ph=='p2':
            q_push2(s['rq'] if op=='rd' else s['wq'], t); s['pc'][t]=op+'_blk'; return 1
        if ph=='blk':
            if s['woken'][t]:
                s['woken'][t]=0
                if op=='rd': s['inR'][t]=1
                else: s['inW'][t]=1
                s['pc'][t]='idle'; s['ip'][t]+=1; return 1
            return None
        if ph in('wakeW','wakeR'):
            q=s['wq'] if ph=='wakeW' else s['rq']
            w=q_pop(q)
            if w is None: return 'spin'
            s['woken'][w]=1; s['need'][t]-=1
            if s['need'][t]==0: s['pc'][t]='idle'; s['ip'][t]+=1
            return 1
    def check(s):
        W=sum(s['inW']); R=sum(s['inR'])
        if W>1 or (W and R): return 'EXCLUSION'
        return None
    def qc(s):
        blocked=[t for t in range(n) if s['pc'][t].endswith('_blk') or s['pc'][t].endswith('_p1') or s['pc'][t].endswith('_p2') or 'wake' in s['pc'][t]]
        if blocked and sum(s['inW'])==0 and sum(s['inR'])==0: return 'STRANDED'
        return None
    return init,n,step,check,qc

R=['rd','rdun']; W=['wr','wrun']
cfgs=[[R,W],[R,R,W],[R,W,W],[R+R,W,R],[W,W,R],[R,W,R,W],[R+R,W+W],[['tryrd','rdun'],W,R] ,[R,R,W,W]]
for c in cfgs:
    # try variants must only unlock if acquired: skip those (tryrd then rdun unconditional is wrong)
    if any('tryrd' in p for p in c): continue
    r=explore(*rw_model(c))
    print('rwlock',c,'->',r[0], r[1] if r[0]=='ok' else r[1:])
