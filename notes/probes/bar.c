#include "fiber_manager.h"
#include "fiber_barrier.h"
#include <stdio.h>
#include <stdlib.h>
#define N 3
#define ROUNDS 200000
fiber_barrier_t b; volatile long arrived[ROUNDS+1]; 
void* f(void* p){ for(long k=0;k<ROUNDS;k++){ __sync_fetch_and_add(&arrived[k],1); fiber_barrier_wait(&b); if(arrived[k]!=N){ printf("VIOLATION round %ld arrived=%ld\n",k,arrived[k]); exit(1);} } return 0;}
int main(){ fiber_manager_init(4); fiber_barrier_init(&b,N); fiber_t* fs[N];
 for(long i=0;i<N;i++) fs[i]=fiber_create(20000,f,(void*)i);
 for(long i=0;i<N;i++) fiber_join(fs[i],0); printf("ok\n"); return 0;}
