#include "fiber_manager.h"
#include <stdio.h>
#include <unistd.h>
#include <errno.h>
#include <fcntl.h>
#include <sys/socket.h>
int main(int argc,char**argv){ fiber_manager_init(1);
 int which=argc>1?atoi(argv[1]):0;
 if(which==0){ errno=0; int r=close(-1); printf("close(-1)=%d errno=%d\n",r,errno);}
 if(which==1){ errno=0; int r=close(100000000); printf("close(big)=%d errno=%d\n",r,errno);}
 if(which==2){ errno=0; int r=fcntl(-1,F_SETFL,O_NONBLOCK); printf("fcntl(-1)=%d errno=%d\n",r,errno);}
 if(which==3){ int sv[2]; socketpair(AF_UNIX,SOCK_STREAM,0,sv); fcntl(sv[0],F_SETFL,O_NONBLOCK); char b[4]; errno=0; alarm(2); ssize_t r=read(sv[0],b,4); printf("nb read=%zd errno=%d\n",r,errno);}
 if(which==4){ int sv[2]; socketpair(AF_UNIX,SOCK_STREAM,0,sv); int on=1; ioctl(sv[0],FIONBIO,&on); char b[4]; errno=0; alarm(2); ssize_t r=recv(sv[0],b,4,0); printf("nb recv=%zd errno=%d\n",r,errno);}
 if(which==5){ int sv[2]; socketpair(AF_UNIX,SOCK_STREAM,0,sv); char b[4]; errno=0; alarm(2); ssize_t r=recv(sv[0],b,4,MSG_DONTWAIT); printf("dontwait recv=%zd errno=%d\n",r,errno);}
 return 0;}
