#include "fiber_manager.h"
#include <stdio.h>
#include <unistd.h>
volatile int finished;
fiber_t* target;
void* tf(void* p){ for(int i=0;i<50;i++) fiber_yield(); usleep(30000); finished=1; return (void*)0x1234; }
void* jf(void* p){ void* r=(void*)0x99; int rc=fiber_join(target,&r); printf("join rc=%d result=%p finished=%d\n",rc,r,finished); return 0;}
int main(){ fiber_manager_init(1);
 target=fiber_create(20000,tf,0); fiber_t* j=fiber_create(20000,jf,0);
 for(int i=0;i<5;i++) fiber_yield();
 int d=fiber_detach(target); printf("detach rc=%d\n",d);
 fiber_join(j,0); usleep(100000); return 0;}
