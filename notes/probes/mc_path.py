from collections import deque
def explore(size, fibers):
    init = (0, (), tuple((k,r,'R') for k,r in fibers))
    par={init:None}; q=deque([init])
    while q:
        st=q.popleft(); cnt, wl, fs = st
        runnable=[i for i,(k,r,s) in enumerate(fs) if s=='R' and r>0]
        if not runnable:
            for i,(k,r,s) in enumerate(fs):
                if s=='B' and ((k=='R' and cnt>0) or (k=='S' and cnt<size)):
                    path=[]; x=st
                    while par[x]: path.append(par[x][1]); x=par[x][0]
                    return st, path[::-1]
            continue
        for i in runnable:
            k,r,s=fs[i]; fl=list(fs); w=list(wl); c=cnt
            ok = (c<size) if k=='S' else (c>0)
            if ok:
                c = c+1 if k=='S' else c-1
                fl[i]=(k,r-1,'R'); ev=f"f{i}:{k} ok cnt={c}"
                if w:
                    j=w.pop(); kk,rr,ss=fl[j]; fl[j]=(kk,rr,'R'); ev+=f" wakes f{j}"
            else:
                w.append(i); fl[i]=(k,r,'B'); ev=f"f{i}:{k} blocks"
            ns=(c,tuple(w),tuple(fl))
            if ns not in par: par[ns]=(st,ev); q.append(ns)
    return None
# smallest: search increasing total ops
best=None
for size in (2,):
  for cfg in ([('S',1),('S',1),('R',1),('R',1)], [('S',2),('S',1),('R',2),('R',1)], [('S',2),('S',2),('R',2),('R',2)], [('S',1),('S',1),('S',1),('R',1),('R',1),('R',1)], [('S',2),('S',2),('S',2),('R',3),('R',3)], [('S',3),('R',1),('R',1),('R',1)],[('S',3),('S',3),('R',3),('R',3)],[('S',4),('R',2),('R',2)],[('S',2),('S',2),('R',4)]):
    r=explore(size,cfg)
    print(size,cfg,'->', 'STRANDED' if r else 'ok')
    if r and not best: best=r
if best:
    print(best[0]); print('\n'.join(best[1]))
