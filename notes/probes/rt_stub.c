/* Design-time probe: pass-through replacement for libtsan. Compile libfiber sources with
 *   gcc -O0 -g -std=gnu11 -fsanitize=thread -DNDEBUG -DFIBER_FAST_SWITCHING -DFIBER_STACK_MMAP -I/repo/include -c src/X.c
 * and link the objects (list fiber.o explicitly) with this file and -lpthread -ldl -lm, *without* -fsanitize=thread.
 * test_mutex/test_cond/test_barrier passed this way (counts printed at exit). */
#include <stdint.h>
#include <stdio.h>
typedef unsigned char a8; typedef unsigned short a16; typedef unsigned int a32; typedef unsigned long long a64;
unsigned long long n_acc, n_atomic;
void __tsan_init(void){}
void __tsan_func_entry(void* pc){} void __tsan_func_exit(void){}
#define RW(n) void __tsan_read##n(void* a){ n_acc++; } void __tsan_write##n(void* a){ n_acc++; } \
  void __tsan_unaligned_read##n(void* a){n_acc++;} void __tsan_unaligned_write##n(void* a){n_acc++;}
RW(1) RW(2) RW(4) RW(8) RW(16)
void __tsan_vptr_update(void** a, void* b){} void __tsan_vptr_read(void** a){}
void __tsan_read_range(void* a, unsigned long s){} void __tsan_write_range(void* a, unsigned long s){}
#define AT(T,n) \
T __tsan_atomic##n##_load(const volatile T* a,int mo){ n_atomic++; return __atomic_load_n(a,__ATOMIC_SEQ_CST);} \
void __tsan_atomic##n##_store(volatile T* a,T v,int mo){ n_atomic++; __atomic_store_n(a,v,__ATOMIC_SEQ_CST);} \
T __tsan_atomic##n##_exchange(volatile T* a,T v,int mo){ n_atomic++; return __atomic_exchange_n(a,v,__ATOMIC_SEQ_CST);} \
T __tsan_atomic##n##_fetch_add(volatile T* a,T v,int mo){ n_atomic++; return __atomic_fetch_add(a,v,__ATOMIC_SEQ_CST);} \
T __tsan_atomic##n##_fetch_sub(volatile T* a,T v,int mo){ n_atomic++; return __atomic_fetch_sub(a,v,__ATOMIC_SEQ_CST);} \
T __tsan_atomic##n##_fetch_and(volatile T* a,T v,int mo){ n_atomic++; return __atomic_fetch_and(a,v,__ATOMIC_SEQ_CST);} \
T __tsan_atomic##n##_fetch_or(volatile T* a,T v,int mo){ n_atomic++; return __atomic_fetch_or(a,v,__ATOMIC_SEQ_CST);} \
T __tsan_atomic##n##_fetch_xor(volatile T* a,T v,int mo){ n_atomic++; return __atomic_fetch_xor(a,v,__ATOMIC_SEQ_CST);} \
T __tsan_atomic##n##_fetch_nand(volatile T* a,T v,int mo){ n_atomic++; return __atomic_fetch_nand(a,v,__ATOMIC_SEQ_CST);} \
int __tsan_atomic##n##_compare_exchange_strong(volatile T* a,T* c,T v,int mo,int f){ n_atomic++; return __atomic_compare_exchange_n(a,c,v,0,__ATOMIC_SEQ_CST,__ATOMIC_SEQ_CST);} \
int __tsan_atomic##n##_compare_exchange_weak(volatile T* a,T* c,T v,int mo,int f){ n_atomic++; return __atomic_compare_exchange_n(a,c,v,0,__ATOMIC_SEQ_CST,__ATOMIC_SEQ_CST);} \
T __tsan_atomic##n##_compare_exchange_val(volatile T* a,T c,T v,int mo,int f){ n_atomic++; __atomic_compare_exchange_n(a,&c,v,0,__ATOMIC_SEQ_CST,__ATOMIC_SEQ_CST); return c;}
AT(a8,8) AT(a16,16) AT(a32,32) AT(a64,64)
void __tsan_atomic_thread_fence(int mo){ __atomic_thread_fence(__ATOMIC_SEQ_CST);} void __tsan_atomic_signal_fence(int mo){}
void* __tsan_create_fiber(unsigned f){ return (void*)1;} void __tsan_destroy_fiber(void* f){}
void __tsan_switch_to_fiber(void* f,unsigned fl){} void* __tsan_get_current_fiber(void){return (void*)1;}
__attribute__((destructor)) static void fin(void){ fprintf(stderr,"rt_stub: plain=%llu atomic=%llu\n",n_acc,n_atomic); }
