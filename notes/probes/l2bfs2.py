from l2bfs import explore, q_push1, q_push2, q_pop
# mutex + cond abstract model. thread program ops: ('lock',m) ('unlock',m) ('wait',) ('signal',) ('bcast',)
# mutexes: 0 = user mutex, 1 = cond internal mutex
def model(progs, signal_holds_mutex=False):
    n=len(progs)
    init={'c':[1,1],'q':[[],[]],'owner':[-1,-1],'wc':0,'cq':[],'woken':[0]*n,'pc':[('idle',)]*n,'ip':[0]*n,
          'ret':[[] for _ in range(n)], 'reg':0,'claimed':0,'released':0}
    # sub-machines return to continuation stored in pc tuple
    def start_lock(s,t,m,cont): s['pc'][t]=('lk_dec',m,cont)
    def start_unlock(s,t,m,cont): s['pc'][t]=('ul_inc',m,cont)
    def go(s,t,cont):
        if cont==('next',): s['pc'][t]=('idle',); s['ip'][t]+=1
        else: s['pc'][t]=cont
    def step(s,t):
        pc=s['pc'][t]; k=pc[0]
        if k=='idle':
            if s['ip'][t]>=len(progs[t]): return None
            op=progs[t][s['ip'][t]]
            if op[0]=='lock': start_lock(s,t,op[1],('next',))
            elif op[0]=='unlock': start_unlock(s,t,op[1],('next',))
            elif op[0]=='wait': s['pc'][t]=('w_inc',)
            elif op[0]=='signal': start_lock(s,t,1,('s_dec',))
            elif op[0]=='bcast': start_lock(s,t,1,('b_xchg',))
            return 1
        if k=='lk_dec':
            m,cont=pc[1],pc[2]; s['c'][m]-=1
            if s['c'][m]==0: s['owner'][m]=t; go(s,t,cont)
            else: s['pc'][t]=('lk_p1',m,cont)
            return 1
        if k=='lk_p1': q_push1(s['q'][pc[1]],t); s['pc'][t]=('lk_p2',)+pc[1:]; return 1
        if k=='lk_p2': q_push2(s['q'][pc[1]],t); s['pc'][t]=('lk_blk',)+pc[1:]; return 1
        if k=='lk_blk':
            if not s['woken'][t]: return None
            s['woken'][t]=0; m=pc[1]
            if s['owner'][m]!=-2: s['bad']='handoff to non-released mutex'
            s['owner'][m]=t; go(s,t,pc[2]); return 1
        if k=='ul_inc':
            m,cont=pc[1],pc[2]
            s['c'][m]+=1
            if s['c'][m]!=1: s['owner'][m]=-2; s['pc'][t]=('ul_pop',m,cont)
            else: s['owner'][m]=-1; go(s,t,cont)
            return 1
        if k=='ul_pop':
            m,cont=pc[1],pc[2]; w=q_pop(s['q'][m])
            if w is None: return 'spin'
            s['woken'][w]=1; go(s,t,cont); return 1
        # cond wait: count++, push (2 steps), [switch] successor unlocks user mutex, block, then lock user mutex
        if k=='w_inc': s['wc']+=1; s['reg']+=1; s['pc'][t]=('w_p1',); return 1
        if k=='w_p1': q_push1(s['cq'],t); s['pc'][t]=('w_p2',); return 1
        if k=='w_p2': q_push2(s['cq'],t); start_unlock(s,t,0,('w_blk',)); return 1   # unlock done on behalf of t after its switch
        if k=='w_blk':
            if not s['woken'][t]: return None
            s['woken'][t]=0; s['released']+=1; start_lock(s,t,0,('next',)); return 1
        if k=='s_dec':
            s['wc']-=1
            if s['wc']>=0: s['claimed']+=1; s['pc'][t]=('s_pop',1)
            else: s['pc'][t]=('s_undo',)
            return 1
        if k=='s_undo': s['wc']+=1; start_unlock(s,t,1,('next',)); return 1
        if k=='s_pop':
            w=q_pop(s['cq'])
            if w is None: return 'spin'
            s['woken'][w]=1
            if pc[1]==1: start_unlock(s,t,1,('next',))
            else: s['pc'][t]=('s_pop',pc[1]-1)
            return 1
        if k=='b_xchg':
            orig=s['wc']; s['wc']=0; s['claimed']+=orig
            if orig: s['pc'][t]=('s_pop',orig)
            else: start_unlock(s,t,1,('next',))
            return 1
    def check(s):
        if s.get('bad'): return s['bad']
        if s['released']>s['claimed']: return 'SPURIOUS'
        return None
    def qc(s):
        # at quiescence every claimed waiter is released; nobody blocked on a free mutex
        if s['released']!=s['claimed']: return 'LOST claimed!=released'
        for t in range(n):
            if s['pc'][t][0] in ('lk_blk','lk_p1','lk_p2') : return 'STRANDED on mutex'
            if s['pc'][t][0] in ('ul_pop','s_pop'): return 'waker stuck'
        return None
    return init,n,step,check,qc
L=('lock',0); U=('unlock',0); WT=('wait',); S=('signal',); B=('bcast',)
cfgs={
 'w|s(locked)':[[L,WT,U],[L,S,U]],
 'w|s(unlocked)':[[L,WT,U],[S]],
 'w,w|b':[[L,WT,U],[L,WT,U],[L,B,U]],
 'w,w|b(unl)':[[L,WT,U],[L,WT,U],[B]],
 'w,w|s,s(unl)':[[L,WT,U],[L,WT,U],[S],[S]],
 'w,w|s|b':[[L,WT,U],[L,WT,U],[S],[B]],
 'rewait':[[L,WT,WT,U],[L,WT,U],[B],[S]],
}
for name,c in cfgs.items():
    r=explore(*model(c), limit=2_000_000)
    print(name,'->',r[0], r[1] if r[0] in('ok','limit') else r[1:])
