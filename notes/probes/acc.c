#include "fiber_manager.h"
#include <stdio.h>
#include <unistd.h>
#include <errno.h>
#include <string.h>
#include <sys/socket.h>
#include <netinet/in.h>
#include <arpa/inet.h>
int ls; 
void* af(void* p){ errno=0; int s=accept(ls,0,0); printf("acceptor %ld: fd=%d errno=%d(%s)\n",(long)p,s,errno,strerror(errno)); return 0;}
int main(){ fiber_manager_init(1);
 ls=socket(AF_INET,SOCK_STREAM,0); struct sockaddr_in a={0}; a.sin_family=AF_INET; a.sin_addr.s_addr=htonl(INADDR_LOOPBACK); a.sin_port=0;
 bind(ls,(struct sockaddr*)&a,sizeof a); listen(ls,8); socklen_t l=sizeof a; getsockname(ls,(struct sockaddr*)&a,&l);
 fiber_t* f1=fiber_create(40000,af,(void*)1); fiber_t* f2=fiber_create(40000,af,(void*)2);
 for(int i=0;i<10;i++) fiber_yield();
 int c=socket(AF_INET,SOCK_STREAM,0); int r=connect(c,(struct sockaddr*)&a,sizeof a); printf("connect=%d errno=%d\n",r,errno);
 usleep(50000); alarm(3);
 fiber_join(f1,0); fiber_join(f2,0); return 0;}
